"""C02 — axis and rank solving is sound, unambiguous and exact (ops and solve_* API).

Tie (T-beh) over the public API: `einx.solve_axes`, `einx.solve_shapes`, `einx.matches`, and the
shapes on which `einx.id` / `einx.sum` results depend (captured at the `namedtensor.solve.solve`
boundary and observed on the result arrays).  The expression trees are einx's own stage-1 trees
(front-trusted: the parser is C12's subject); they are serialised to JSON and given to BOTH the Lean
reference solver (driver kinds `solve`, `checkaxes`, `checksat`) and the independent Python search
oracle (`c02_oracle`: brute-force enumeration of `Sols`, exact integer arithmetic).

Obligations checked on the real code — exactly the three the property states:
 (i)   `Sols` empty, or a reported quantity not constant on `Sols`  =>  the call must fail with
       RankError / AxisSizeError (`matches` => False);
 (ii)  a successful call reports only admissible quantities: `Sols` is not empty, every reported
       count / length / shape dimension has that value in every element of `Sols`, the Lean checker
       accepts the answer and it agrees with every forced value of the proved reference solver;
 (iii) the call must succeed when the reference solver reaches `unique` by unit propagation alone
       (and the counts follow from rank equations and leading array dimensions — nothing stronger).
The oracle decides violations; the Lean model must agree with the oracle wherever both apply
(a disagreement is a MachineryError).
"""
import json
import math

import numpy as np

from lib import core
from props import c02_oracle as orc
from props import c02_cse

EXTRACTORS = ["Cse"]
# further property file of C02: the model of the whole of stage2/cse.py preserves the solution set
EXTRA_PROPS = ["C02Cse", "C02Cse2", "C02Unexpanded"]   # C02Unexpanded: the UnexpandedEllipsis branch of stage2.solve modelled and characterised
ANON = ".anonymous_ellipsis_axis"


# ------------------------------------------------------------------ real code: capture + call

class Capture:
    """Wraps namedtensor.solve.solve where the adapter and the frontend look it up."""

    def __init__(self):
        import einx._src.adapter.einx_from_namedtensor as A
        import einx._src.frontend.util as U
        self.A, self.U = A, U
        self.orig = A.solve
        self.calls = []

    def __enter__(self):
        def wrapper(exprs_in, exprs_out, tensor_shapes, invocation, parameters=None, **kw):
            rec = {"exprs_in": list(exprs_in), "exprs_out": list(exprs_out), "shapes": list(tensor_shapes),
                   "parameters": dict(parameters or {}), "kw": {k: v for k, v in kw.items() if k.startswith("cse")}}
            self.calls.append(rec)
            try:
                r = self.orig(exprs_in, exprs_out, tensor_shapes, invocation, parameters, **kw)
            except BaseException as e:
                rec["exc"] = e
                raise
            rec["result"] = r
            return r
        self.A.solve = wrapper
        self.U._solve2 = wrapper
        return self

    def __exit__(self, *a):
        self.A.solve = self.orig
        self.U._solve2 = self.orig


def tree_json(expr, ids):
    import einx._src.namedtensor.stage1 as s1
    if isinstance(expr, s1.Axis):
        if expr.value is None:
            return {"t": "axis", "n": expr.name}
        return {"t": "num", "v": int(expr.value)}
    if isinstance(expr, s1.List):
        return {"t": "list", "c": [tree_json(c, ids) for c in expr.children]}
    if isinstance(expr, s1.FlattenedAxis):
        return {"t": "flat", "e": tree_json(expr.inner, ids)}
    if isinstance(expr, s1.ConcatenatedAxis):
        return {"t": "concat", "c": [tree_json(c, ids) for c in expr.children]}
    if isinstance(expr, s1.Brackets):
        return {"t": "br", "e": tree_json(expr.inner, ids)}
    if isinstance(expr, s1.Ellipsis):
        k = ids.setdefault(expr.ellipsis_id, f"e{len(ids)}")
        return {"t": "ell", "id": k, "e": tree_json(expr.inner, ids)}
    raise core.MachineryError(f"unknown stage-1 node {type(expr)}")


def constraint_json(name, v):
    a = np.asarray(v)
    if a.size == 0:
        a = a.astype("int64")
    vals = [int(x) for x in a.flatten().tolist()] if a.dtype != object else [int(x) for x in a.flatten()]
    return {"name": name, "shape": [int(s) for s in a.shape], "vals": vals}


def obj_array(v):
    """Python-int exact array for constraints that may exceed int64."""
    return v


class FakeTensor:
    """Shape-only tensor for solve_* (nothing is allocated)."""

    def __init__(self, shape):
        self.shape = tuple(shape)


def make_arg(shape, api):
    if shape is None:
        if api in ("id", "sum"):
            return lambda shape: np.zeros(shape, dtype="int8")
        return None
    if api in ("id", "sum"):
        return np.zeros(shape, dtype="int8")
    return FakeTensor(shape)


class _Timeout(BaseException):
    pass


CALL_TIMEOUT_S = 10.0     # sympy occasionally needs minutes for a non-linear system; such calls are discarded (counted)


def call_real(case):
    """-> dict(status='ok'|'fail', exc=class name, reported=…, input=…, captured=bool)"""
    import signal
    import einx
    api = case["api"]
    args = [make_arg(s, api) for s in case["shapes"]]
    params = {k: v for k, v in case["params"].items()}
    out = {}
    fired = []

    def on_alarm(*_a):
        fired.append(1)
        raise _Timeout()
    old = signal.signal(signal.SIGALRM, on_alarm)
    signal.setitimer(signal.ITIMER_REAL, CALL_TIMEOUT_S, 1.0)   # repeats: `matches` swallows every exception once
    try:
        out = _call_real(einx, api, case, args, params)
    except _Timeout:
        out = {}
    finally:
        signal.setitimer(signal.ITIMER_REAL, 0)
        signal.signal(signal.SIGALRM, old)
    if fired:
        return {"captured": False, "exc": "timeout"}
    return out


def _call_real(einx, api, case, args, params):
    out = {}
    with Capture() as cap:
        try:
            r = getattr(einx, api)(case["desc"], *args, **params)
            out["status"] = "ok"
            out["raw"] = r
        except BaseException as e:      # noqa: BLE001 - the class is the observation
            if isinstance(e, (KeyboardInterrupt, MemoryError, _Timeout)):
                raise
            out["status"] = "fail"
            out["exc"] = type(e).__name__
            out["msg"] = str(e).split("\n")[0][:160]
            out["solve_error"] = isinstance(e, (einx.errors.RankError, einx.errors.AxisSizeError))
    if not cap.calls:
        # rejected before the solver was reached (syntax / semantic stage), or served from the cache
        out["captured"] = False
        return out
    rec = cap.calls[0]
    out["captured"] = True
    ids = {}
    n_in = len(rec["exprs_in"])
    tensors = [{"expr": tree_json(e, ids), "shape": None if s is None else [int(x) for x in s]}
               for e, s in zip(rec["exprs_in"], rec["shapes"])]
    tensors += [{"expr": tree_json(e, ids), "shape": None} for e in rec["exprs_out"]]
    out["input"] = {"tensors": tensors, "constraints": [constraint_json(k, v) for k, v in rec["parameters"].items()]}
    out["n_in"] = n_in
    out["inside_solve"] = "exc" in rec
    if out["status"] == "ok":
        rep = {}
        if api == "solve_axes":
            rep["axes"] = {k: np.asarray(v).tolist() for k, v in out["raw"].items()}
        elif api == "solve_shapes":
            rep["shapes"] = [tuple(int(x) for x in s) for s in out["raw"]]
        elif api == "matches":
            rep["matches"] = bool(out["raw"])
            if "result" in rec:
                rep["shapes"] = [tuple(int(x) for x in e.shape) for e in rec["result"][0]]
        else:
            e_in, e_out = rec["result"]
            rep["shapes"] = [tuple(int(x) for x in e.shape) for e in list(e_in) + list(e_out)]
            res = out["raw"] if isinstance(out["raw"], tuple) else (out["raw"],)
            rep["result_shapes"] = [tuple(int(x) for x in np.shape(x)) for x in res]
        out["reported"] = rep
    elif api == "matches":
        pass
    out.pop("raw", None)
    return out


# ------------------------------------------------------------------ judging one case

def names_of(inp):
    ns = []
    for t in inp["tensors"]:
        for n in orc.nodes(t["expr"]):
            if n["t"] == "axis":
                ns.append(n["n"])
    return list(dict.fromkeys(ns))


def sol_axes(sol, names):
    """{name: {idx tuple: value}} of one oracle solution, for the user-visible names."""
    d = {n: {} for n in names}
    for x, v in sol["values"].items():
        base, idx = orc.split_axis(x)
        if base in d:
            d[base][tuple(idx)] = v
    return d


def reported_axes(axes, names):
    """solve_axes result -> {name: {idx: value}} (other keys are not user axes and are ignored)."""
    d = {}
    for n in names:
        if n in axes:
            a = np.asarray(axes[n], dtype=object)
            d[n] = {tuple(int(i) for i in idx): int(a[idx]) for idx in np.ndindex(a.shape)}
    return d


def judge(case, real, model, sols, complete):
    """-> (kind, detail) of a violation, or None.  `sols` is the oracle's enumeration (None if skipped)."""
    api = case["api"]
    inp = real["input"]
    names = [n for n in names_of(inp) if n != ANON]
    n_in = real["n_in"]
    outcome = model["outcome"]
    model_none = outcome in ("rankNone", "valueNone")
    model_unique = outcome == "unique" and model["strict"]
    failed = real["status"] == "fail" or (api == "matches" and real["status"] == "ok" and not real["reported"]["matches"])
    doc_fail = (real["status"] == "fail" and real.get("solve_error")) or (api == "matches" and failed)

    def quantities(sol):
        if api == "solve_axes":
            return ("axes", sol_axes(sol, names))
        return ("shapes", [tuple(s) for s in sol["shapes"]])

    empty = (sols is not None and complete and len(sols) == 0) or model_none
    ambiguous = False
    if sols:
        q0 = quantities(sols[0])
        ambiguous = any(quantities(s) != q0 for s in sols[1:]) or orc.FREE in repr(q0)
    if failed and api in ("id", "sum") and not (real.get("inside_solve") or real.get("solve_error")):
        return None       # the operation was rejected after solving (semantic checks, backend): not C02's subject
    if failed:
        if empty or ambiguous:
            if not doc_fail:
                # must fail - and fails - but not with the documented class (only judged for calls that died inside the solver or in the answer table)
                return ("i-wrong-error-class", f"Sols {'empty' if empty else 'ambiguous'}; raised {real.get('exc')}: {real.get('msg')}")
            return None
        if model_unique:
            return ("iii-must-succeed", f"unit propagation determines everything ({model['counts']}, {model['values']}); raised {real.get('exc')}: {real.get('msg')}")
        return None
    # success
    rep = real["reported"]
    if empty:
        return ("i-must-fail", f"no assignment satisfies the constraints (model {outcome}); einx reported {rep}")
    if api == "solve_axes":
        got = reported_axes(rep["axes"], names)
        expanded = {a["n"] for a in model.get("axes", [])}
        missing = [n for n in names if n not in got and n in expanded]
        if missing and model_unique:
            return ("ii-not-reported", f"axes {missing} missing from {rep['axes']}")
        if sols:
            for s in sols:
                want = sol_axes(s, names)
                for n in got:
                    if got[n] != want[n]:
                        return ("ii-inadmissible", f"axis {n}: reported {rep['axes'][n]}, but an assignment has {want[n]}")
        # forced values of the proved reference solver
        forced = dict((k, v) for k, v in model.get("values", []))
        for n in got:
            for idx, v in got[n].items():
                x = n + "".join(f".{i}" for i in idx)
                if x in forced and forced[x] != v:
                    return ("ii-inadmissible", f"axis {x}: reported {v}, forced value {forced[x]}")
    else:
        shapes = rep.get("shapes")
        if shapes is not None:
            if "result_shapes" in rep and rep["result_shapes"] != shapes[n_in:]:
                return ("ii-inadmissible", f"result arrays have shapes {rep['result_shapes']}, solved output shapes {shapes[n_in:]}")
            if api == "solve_shapes":
                shapes = shapes + [None] * (len(inp["tensors"]) - len(shapes))
            if sols:
                for s in sols:
                    for i, (a, b) in enumerate(zip(shapes, s["shapes"])):
                        if a is not None and tuple(a) != tuple(b):
                            return ("ii-inadmissible", f"tensor {i}: reported shape {a}, but an assignment has {b}")
            for i, (a, f) in enumerate(zip(shapes, model.get("shapes", []))):
                if a is None:
                    continue
                if len(a) != len(f) or any(y is not None and x != y for x, y in zip(a, f)):
                    return ("ii-inadmissible", f"tensor {i}: reported shape {a}, forced {f}")
    return None


def oracle_run(inp, small):
    if not small:
        return None, False
    try:
        p = orc.Problem(inp["tensors"], inp["constraints"], count_cap=max(5, max_const(inp).bit_length()))
        return p.solutions(), True
    except orc.Incomplete:
        return None, False


LIMIT = 600


def max_const(inp):
    m = 1
    for t in inp["tensors"]:
        if t["shape"] is not None:
            m = max([m] + list(t["shape"]))
        for n in orc.nodes(t["expr"]):
            if n["t"] == "num":
                m = max(m, n["v"])
    for c in inp["constraints"]:
        m = max([m] + list(c["vals"]))
    return m


def is_small(inp):
    if any(t["shape"] is not None and len(t["shape"]) > 6 for t in inp["tensors"]):
        return False
    if any(len(c["shape"]) > 2 or any(s > 6 for s in c["shape"]) for c in inp["constraints"]):
        return False
    return max_const(inp) <= LIMIT


def cross_check(inp, model, sols, complete):
    """The proved reference solver and the search oracle must agree where both apply."""
    outcome = model["outcome"]
    if sols is None or not complete:
        return
    if outcome in ("rankNone", "valueNone") and sols:
        raise core.MachineryError(f"model says {outcome} but the oracle found a solution: {json.dumps(inp)} {sols[0]}")
    counts = dict((k, v) for k, v in model.get("counts", []))
    values = dict((k, v) for k, v in model.get("values", []))
    for s in sols:
        for k, v in counts.items():
            if s["counts"].get(k) != v:
                raise core.MachineryError(f"forced count {k}={v} contradicted by oracle solution {s}: {json.dumps(inp)}")
        for k, v in values.items():
            if k.startswith("#"):
                continue
            if k in s["values"] and s["values"][k] != v:
                raise core.MachineryError(f"forced value {k}={v} contradicted by oracle solution {s}: {json.dumps(inp)}")
    if outcome == "unique":
        if len(sols) != 1:
            raise core.MachineryError(f"model says unique but the oracle has {len(sols)} solutions: {json.dumps(inp)}")


class Checker:
    def __init__(self, ctx):
        self.ctx = ctx
        self.memo = {}

    def key(self, case):
        return json.dumps([case["api"], case["desc"], case["shapes"], sorted((k, np.asarray(v).tolist()) for k, v in case["params"].items())], default=str)

    def check(self, case, record=True):
        """-> (kind, detail, info) or None"""
        k = self.key(case)
        if k in self.memo:
            return self.memo[k]
        res = self._check(case, record)
        self.memo[k] = res
        return res

    def _check(self, case, record):
        ctx = self.ctx
        real = call_real(case)
        if not real.get("captured"):
            if record:
                ctx.count("not-reaching-solver:" + str(real.get("exc", "ok")))
            return None
        inp = real["input"]
        if not ctx.driver_ok:
            model = None
        else:
            model = ctx.driver().ask({"kind": "solve", **inp})
        small = is_small(inp)
        sols, complete = oracle_run(inp, small)
        if model is None:
            # the Lean side is unusable: the oracle alone judges (search mode of section 2.4)
            model = {"outcome": "rankStuck", "strict": False}
            if sols is not None and complete and len(sols) == 1 and case.get("expect_unit"):
                model = {"outcome": "unique", "strict": True, "counts": [], "values": []}
        else:
            cross_check(inp, model, sols, complete)
        if not small:
            # big-number stream: exact unit propagation in Python must reproduce the model's unique answer
            if model["outcome"] == "unique":
                counts = dict((k, v) for k, v in model["counts"])
                ok, asg, shapes = orc.unit_solve(inp["tensors"], inp["constraints"], counts)
                mshapes = [tuple(s) for s in model["shapes"]]
                determined = all(d is not None for s in shapes for d in s)
                if not ok or (determined and [tuple(s) for s in shapes] != mshapes):
                    raise core.MachineryError(f"big-number oracle {shapes} differs from model {mshapes}: {json.dumps(inp)}")
                if determined:
                    sols, complete = [{"counts": counts, "values": asg, "shapes": shapes}], True
                else:
                    # the oracle's tree-wise propagation is weaker than the model's linear one (e.g. `(b + b)` = 10); it abstains
                    ctx.count("big-oracle-abstains")
        v = judge(case, real, model, sols, complete)
        # Lean checker on successful answers
        if v is None and real["status"] == "ok" and ctx.driver_ok and case["api"] == "solve_axes" and model["outcome"] == "unique":
            names = [n for n in names_of(inp) if n != ANON]
            got = reported_axes(real["reported"]["axes"], names)
            vals = [[n + "".join(f".{i}" for i in idx), val] for n in got for idx, val in got[n].items()]
            if all(val >= 0 for _, val in vals):
                a = ctx.driver().ask({"kind": "checkaxes", **inp, "counts": model["counts"], "values": vals})
                if not a["ok"]:
                    v = ("ii-inadmissible", f"the Lean checker rejects the reported axes {real['reported']['axes']}: {a}")
                else:
                    b = ctx.driver().ask({"kind": "checksat", **inp, "counts": model["counts"], "values": a["values"]})
                    if not b["ok"]:
                        raise core.MachineryError(f"checksat rejects what checkaxes derived: {json.dumps(inp)}")
            else:
                v = ("ii-inadmissible", f"negative axis length reported: {real['reported']['axes']}")
        if record:
            ctx.count("api:" + case["api"])
            ctx.count("model:" + model["outcome"] + ("" if model.get("strict", True) else "/nonstrict"))
            ctx.count("einx:" + (real["status"] if real["status"] == "ok" else real.get("exc", "?")))
            if sols is not None:
                ctx.count("oracle:" + ("0" if len(sols) == 0 else "1" if len(sols) == 1 else "many"))
        info = {"model": {k: model.get(k) for k in ("outcome", "strict", "counts", "values", "shapes")},
                "einx": {k: real.get(k) for k in ("status", "exc", "msg", "reported")},
                "oracle_solutions": None if sols is None else len(sols), "input": inp}
        if v is None:
            return None
        return (v[0], v[1], info)


# ------------------------------------------------------------------ generator

def render(item):
    k = item[0]
    if k == "ax":
        return item[1]
    if k == "num":
        return str(item[1])
    if k == "flat":
        return "(" + " ".join(render(c) for c in item[1]) + ")"
    if k == "cat":
        return "(" + " + ".join(render(c) for c in item[1]) + ")"
    if k == "br":
        return "[" + " ".join(render(c) for c in item[1]) + "]"
    if k == "ell":
        return render(item[1]) + "..."
    if k == "anon":
        return "..."
    raise ValueError(k)


def render_list(items):
    return " ".join(render(i) for i in items)


def truth_dims(item, truth, idx):
    """dimensions of an item under the hidden ground truth"""
    k = item[0]
    if k == "ax":
        v = truth["val"][item[1]]
        for i in idx[:truth["depth"].get(item[1], 0)]:
            v = v[i]
        return [v]
    if k == "num":
        return [item[1]]
    if k == "flat":
        return [math.prod(d for c in item[1] for d in truth_dims(c, truth, idx))]
    if k == "cat":
        return [sum(d for c in item[1] for d in truth_dims(c, truth, idx))]
    if k == "br":
        return [d for c in item[1] for d in truth_dims(c, truth, idx)]
    if k == "ell":
        return [d for i in range(truth["count"][item[2]]) for d in truth_dims(item[1], truth, idx + [i])]
    if k == "anon":
        return list(truth["anon"])
    raise ValueError(k)


# Repetition of a bracket group of more than one axis (`[a b]...`) fails on the pinned tree for every input
# (finding "multi-axis repetition group", fixed case `solve_axes("[a b]...", (2,3,4,5))`); while that finding is
# open the random generator leaves such groups to the fixed representative, otherwise every run would print new
# signatures of the same defect.  Set to True once it is fixed.
MULTI_AXIS_GROUPS = False


class Gen:
    """Random expression lists with a hidden ground truth.

    Names are split into bracketed and unbracketed ones (einx demands consistent bracket usage) and into
    scalar names and members of an ellipsis group (a name lives at one ellipsis depth)."""

    def __init__(self, rng):
        self.rng = rng

    def size(self):
        return self.rng.choice([1, 2, 2, 3, 3, 4, 5, 6, 7])

    def make(self):
        rng = self.rng
        n_names = rng.randint(1, 5)
        names = list("abcde")[:n_names]
        rng.shuffle(names)
        truth = {"val": {}, "depth": {}, "count": {}, "group": {}, "anon": None, "br": set()}
        n_groups = rng.choice([0, 0, 1, 1, 2])
        groups = [f"g{i}" for i in range(n_groups)]
        br_groups = set()
        for g in groups:
            truth["count"][g] = rng.choice([0, 1, 2, 2, 3])
            if rng.random() < 0.2:
                br_groups.add(g)
        for n in names:
            if groups and rng.random() < 0.4:
                g = rng.choice(groups)
                truth["group"][n] = g
                truth["depth"][n] = 1
                truth["val"][n] = [self.size() for _ in range(truth["count"][g])]
                if rng.random() < 0.3 and truth["val"][n]:
                    truth["val"][n] = [truth["val"][n][0]] * len(truth["val"][n])
                if g in br_groups:
                    truth["br"].add(n)
            else:
                truth["depth"][n] = 0
                truth["val"][n] = self.size()
                if rng.random() < 0.15:
                    truth["br"].add(n)
        use_anon = rng.random() < 0.15
        if use_anon:
            truth["anon"] = [self.size() for _ in range(rng.choice([0, 1, 2]))]
        self.truth = truth
        self.br_groups = br_groups
        n_t = rng.choice([1, 1, 2, 2, 3])
        tensors = [self.tensor(groups, use_anon) for _ in range(n_t)]
        return names, truth, tensors

    def scalars(self, br):
        t = self.truth
        return [n for n in t["val"] if t["depth"][n] == 0 and ((n in t["br"]) == br)]

    def atom(self, br):
        rng = self.rng
        sc = self.scalars(br)
        if sc and rng.random() < 0.8:
            return ("ax", rng.choice(sc))
        return ("num", rng.choice([1, 2, 2, 3, 4]))

    def composite(self, pool, depth=0, operand=False):
        """an item of one dimension built from the atoms the callable `pool` yields"""
        rng = self.rng
        r = rng.random()
        if r < 0.55 or depth >= 2:
            return pool()
        if r < 0.85 or operand:
            k = rng.choice([0, 1, 1, 2, 2, 2, 2, 3, 3, 3, 2, 2])
            return ("flat", [self.composite(pool, depth + 1) for _ in range(k)])
        # operands of '+' are axes, numbers and flattened axes
        return ("cat", [self.composite(pool, depth + 1, operand=True) for _ in range(rng.choice([2, 2, 3]))])

    def tensor(self, groups, use_anon):
        rng = self.rng
        truth = self.truth
        items = []
        members = {g: [n for n, gg in truth["group"].items() if gg == g] for g in groups}
        gs = [g for g in groups if members[g]]
        for _ in range(rng.choice([1, 2, 2, 3, 3, 4])):
            r = rng.random()
            if gs and r < 0.3:
                g = rng.choice(gs)
                br = g in self.br_groups

                def pool(g=g, br=br):
                    if rng.random() < 0.75:
                        return ("ax", rng.choice(members[g]))
                    return self.atom(br) if rng.random() < 0.3 else ("num", rng.choice([1, 2, 3]))
                inner = self.composite(pool, depth=1)
                # an ellipsis needs at least one axis of its group inside to mean anything to the count
                if not self.mentions(inner, members[g]):
                    inner = ("ax", rng.choice(members[g]))
                if br:
                    if MULTI_AXIS_GROUPS and rng.random() < 0.25:
                        inner = ("br", [inner, ("ax", rng.choice(members[g]))])   # repetition of a two-axis group
                    elif rng.random() < 0.6:
                        inner = ("br", [inner])
                it = ("ell", inner, g)
                if br and inner[0] != "br":
                    it = ("br", [it])
                elif rng.random() < 0.15:
                    it = ("flat", [it] + ([self.atom(br)] if rng.random() < 0.5 else []))
                    if br and not has(it, ("br",)):
                        it = ("br", [it])
                items.append(it)
            elif use_anon and r < 0.42 and not any(i[0] == "anon" for i in items):
                items.append(("anon",))
            else:
                br = rng.random() < 0.2 and bool(self.scalars(True))
                it = self.composite(lambda br=br: self.atom(br))
                if br and self.any_axis(it):
                    it = ("br", [it])
                items.append(it)
        return items

    def any_axis(self, item):
        if item[0] == "ax":
            return True
        if item[0] in ("flat", "cat", "br"):
            return any(self.any_axis(c) for c in item[1])
        if item[0] == "ell":
            return self.any_axis(item[1])
        return False

    def mentions(self, item, ns):
        if item[0] == "ax":
            return item[1] in ns
        if item[0] in ("flat", "cat", "br"):
            return any(self.mentions(c, ns) for c in item[1])
        if item[0] == "ell":
            return self.mentions(item[1], ns)
        return False


def has(item, kinds):
    if item[0] in kinds:
        return True
    if item[0] in ("flat", "cat", "br"):
        return any(has(c, kinds) for c in item[1])
    if item[0] == "ell":
        return has(item[1], kinds)
    return False


def names_in(items):
    out = []

    def walk(it):
        if it[0] == "ax":
            out.append(it[1])
        elif it[0] in ("flat", "cat", "br"):
            for c in it[1]:
                walk(c)
        elif it[0] == "ell":
            walk(it[1])
    for it in items:
        walk(it)
    return out


def used_names(tensors):
    out = []

    def walk(it):
        if it[0] == "ax":
            out.append(it[1])
        elif it[0] in ("flat", "cat", "br"):
            for c in it[1]:
                walk(c)
        elif it[0] == "ell":
            walk(it[1])
    for t in tensors:
        for it in t:
            walk(it)
    return list(dict.fromkeys(out))


def gen_case(rng):
    g = Gen(rng)
    names, truth, tensors = g.make()
    api = rng.choice(["solve_axes", "solve_axes", "solve_shapes", "solve_shapes", "matches", "id", "id", "sum"])
    ast_out = None
    if api == "id":
        tensors = [[x for it in t for x in strip_br(it)] for t in tensors]
        if any(len(names_in(t)) != len(set(names_in(t))) for t in tensors) or any(sum(1 for x in t if x[0] == "anon") > 1 for t in tensors):
            api = "solve_shapes"      # id vectorises every axis: a name may occur once per tensor
    if api == "id":
        ast_out = []
        for t in tensors:
            o = list(t)
            rng.shuffle(o)
            ast_out.append(o)
    elif api == "sum":
        t = [x for x in tensors[0] if not has(x, ("cat",))] or [("num", 2)]
        if not any(has(x, ("br",)) for x in t):
            # mark the first item; bracket usage must stay consistent for its names
            ns = set(names_in([t[0]]))
            if t[0][0] == "anon" or any(set(names_in([x])) & ns for x in t[1:]):
                api = "solve_shapes"
            else:
                t = [("br", [t[0]])] + t[1:]
        if len(names_in(t)) != len(set(names_in(t))):
            api = "solve_shapes"
        tensors = [t]
    shapes = [[d for it in t for d in truth_dims(it, truth, [])] for t in tensors]
    if api in ("id", "sum") and any(math.prod(s) > 20000 for s in shapes):
        api, ast_out = "solve_shapes", None
    used = used_names(tensors)
    params = {}
    for n in used:
        if rng.random() < 0.45:
            v = truth["val"][n]
            if truth["depth"][n] == 1:
                if v and all(x == v[0] for x in v) and rng.random() < 0.5:
                    params[n] = v[0]                      # scalar constraint for an ellipsis axis
                else:
                    params[n] = tuple(v)
            else:
                params[n] = v
    muts = []
    if rng.random() < 0.45:
        for _ in range(rng.choice([1, 1, 2])):
            m = rng.choice(["dim", "dim", "dim", "none", "drop", "contradict", "redundant", "tuplelen", "scalar", "rank"])
            muts.append(m)
            ti = rng.randrange(len(tensors))
            if m == "dim" and shapes[ti]:
                j = rng.randrange(len(shapes[ti]))
                shapes[ti][j] = max(1, shapes[ti][j] + rng.choice([-1, 1, 1, 2]))
            elif m == "none":
                shapes[ti] = None
            elif m == "drop" and params:
                params.pop(rng.choice(sorted(params)))
            elif m == "contradict" and params:
                k = rng.choice(sorted(params))
                v = params[k]
                params[k] = tuple(x + 1 for x in v) if isinstance(v, tuple) else v + 1
            elif m == "redundant":
                for n in used:
                    if n not in params and truth["depth"][n] == 0:
                        params[n] = truth["val"][n]
                        break
            elif m == "tuplelen" and params:
                ks = [k for k in sorted(params) if isinstance(params[k], tuple)]
                if ks:
                    k = rng.choice(ks)
                    params[k] = params[k] + (2,) if rng.random() < 0.5 else params[k][:-1]
            elif m == "scalar":
                ks = [n for n in used if truth["depth"][n] == 1]
                if ks:
                    params[rng.choice(ks)] = rng.choice([1, 2, 3])
            elif m == "rank" and shapes[ti] is not None:
                if rng.random() < 0.5 and shapes[ti]:
                    shapes[ti] = shapes[ti][:-1]
                else:
                    shapes[ti] = shapes[ti] + [rng.choice([1, 2, 3])]
    if api in ("id", "sum") and (any(s is not None and math.prod(s) > 50000 for s in shapes) or all(s is None for s in shapes)):
        api, ast_out = "solve_shapes", None
    case = case_from_ast(api, tensors, ast_out, shapes, params)
    case["muts"] = muts
    return case


def strip_br(item):
    if item[0] == "br":
        return [x for c in item[1] for x in strip_br(c)]
    if item[0] in ("flat", "cat"):
        return [(item[0], [x for c in item[1] for x in strip_br(c)])]
    if item[0] == "ell":
        inner = strip_br(item[1])
        return [("ell", inner[0] if len(inner) == 1 else ("flat", inner), item[2])]
    return [item]


def case_from_ast(api, ast, ast_out, shapes, params):
    if api == "id":
        desc = ", ".join(render_list(t) for t in ast) + " -> " + ", ".join(render_list(t) for t in ast_out)
    else:
        desc = ", ".join(render_list(t) for t in ast)
    c = {"api": api, "desc": desc, "shapes": shapes, "params": params, "ast": ast}
    if ast_out is not None:
        c["ast_out"] = ast_out
    return c


# fixed cases: DESIGN Appendix A (must behave as listed) and the inputs of D3 / D4 / D14
FIXED = [
    ("solve_axes", "a... b", [[2, 3, 4]], {}),
    ("solve_axes", "a... b...", [[2, 3, 4]], {}),
    ("solve_axes", "a... b...", [[2, 3, 4]], {"a": (2, 3)}),
    ("solve_axes", "a... b...", [[2, 3, 4]], {"b": 4}),
    ("solve_axes", "(a b)...", [[4, 6]], {"b": 2}),
    ("solve_axes", "(a b)...", [[4, 6]], {"b": (2, 3)}),
    ("solve_axes", "(a b)...", [[4, 6]], {"b": (2, 3, 1)}),
    ("solve_axes", "(a...)", [[24]], {"a": (2, 3, 4)}),
    ("solve_axes", "(a...)", [[24]], {}),
    ("solve_axes", "a..., (a...)", [[2, 3], [6]], {}),
    ("solve_axes", "a..., a", [[2, 3], [6]], {}),
    ("solve_axes", "a b", [[2, 3]], {"a": (2,)}),
    ("solve_shapes", "a... b", [None], {"a": (), "b": 5}),
    ("solve_axes", "(a + b)...", [[5, 5]], {"a": 2}),
    ("solve_axes", "[a]...", [[2, 3]], {}),
    ("solve_axes", "[a...]", [[2, 3]], {}),
    ("solve_axes", "(a b...)...", [[6, 6]], {"a": 2, "b": [[3], [3]]}),
    ("matches", "a", [[0]], {}),
    ("solve_axes", "a b", [None], {"a": 0, "b": 2}),
    ("matches", "(b 3)", [[4]], {}),
    ("solve_axes", "(b 3)", [[4]], {}),
    ("id", "a (b 3) -> (b 3) a", [[2, 4]], {}),
    ("sum", "a [(b 3)]", [[2, 4]], {}),
    ("matches", "(a a)", [[8]], {}),
    ("solve_shapes", "(a b)", [None], {"a": 65536, "b": 65536}),
    ("solve_shapes", "(a b)", [None], {"a": 2 ** 31, "b": 1}),
    ("solve_axes", "...", [[2, 3]], {}),
    ("solve_axes", "2...", [[2, 2, 2]], {}),
    ("solve_axes", "a 2", [[3, 2]], {}),
    ("solve_axes", "[a b]...", [[2, 3, 4, 5]], {}),
    ("matches", "(3...)", [[2]], {}),
    # CSE: the recorded minimum of a replacement axis (min_value) and the product rule of _value_range matter here
    ("matches", "c (a + b)", [[2, 1]], {}),
    ("matches", "c (a + b), (a + b)", [[2, 1], [1]], {}),
    ("matches", "((a + b) c d), ((a + b) c e)", [[1], [1]], {}),
    ("matches", "((a + b) c d), ((a + b) c e)", [[4], [2]], {}),
    ("matches", "((a + 2) (b + 3)), ((a + 2) (b + 3))", [[13], [13]], {}),
    ("solve_shapes", "a (b c), (b c) d", [[2, 6], None], {"d": 5}),
    # defects of stage2/cse.py found while proving cseTrees_preserves_sols (docs/wp/cse.md, docs/wp/cse2.md): D20, D21
    ("sum", "a ([c d]) [c d]", [[4, 6, 2, 3]], {}),
    ("matches", "(a 1 d), (1 d) c, (a 1)", [[12], [2, 2], [4]], {}),
    ("solve_shapes", "(a 1 d), (1 d) c", [[6], [3, 2]], {}),
]


def big_case(rng):
    """exactness stream: products around 2**31, 2**32, 2**40 (shape-only tensors, nothing allocated)"""
    e = rng.choice([31, 31, 32, 32, 40, 62, 64])
    k = rng.randint(2, min(e - 2, 61))
    a = 2 ** k + rng.choice([0, 0, 1, -1, 3])
    b = 2 ** (e - k) + rng.choice([0, 0, 1])
    a, b = max(a, 1), max(b, 1)
    c = rng.choice([1, 2, 3, 5])
    form = rng.randrange(8)
    if form != 0 and a * b >= 2 ** 62:
        form = 0        # only computed products may exceed what a real tensor dimension can hold
    if form == 0:
        return {"api": "solve_shapes", "desc": "(a b)", "shapes": [None], "params": {"a": a, "b": b}}
    if form == 1:
        return {"api": "solve_axes", "desc": "(a b) c", "shapes": [[a * b, c]], "params": {"a": a}}
    if form == 2:
        return {"api": "solve_shapes", "desc": "(a b) c, c (a + b)", "shapes": [[a * b, c], None], "params": {"b": b}}
    if form == 3:
        return {"api": "solve_axes", "desc": "(a + b), a", "shapes": [[a + b], [a]], "params": {}}
    if form == 4:
        return {"api": "matches", "desc": "(a b) c", "shapes": [[a * b + 1, c]], "params": {"a": a}} if a > 1 else \
               {"api": "matches", "desc": "(a b) c", "shapes": [[a * b, c]], "params": {"a": a}}
    if form == 5:
        return {"api": "solve_axes", "desc": "a... c", "shapes": [[a, b, c]], "params": {}}
    if form == 6:
        return {"api": "solve_shapes", "desc": "(a...) c, a...", "shapes": [None, [a, b]], "params": {"c": c}}
    return {"api": "solve_axes", "desc": "a b", "shapes": [None], "params": {"a": a, "b": b}}


# ------------------------------------------------------------------ shrinking and signatures

def shrink_candidates(case):
    """smaller variants of a case (string-level edits are avoided: everything goes through the AST)"""
    api, ast, shapes, params = case["api"], case.get("ast"), case["shapes"], case["params"]
    for k in sorted(params):
        p = dict(params)
        p.pop(k)
        yield {**case, "params": p}
    for k in sorted(params):
        v = params[k]
        if isinstance(v, int) and v > 1:
            for nv in (1, 2, v - 1):
                if nv < v:
                    yield {**case, "params": {**params, k: nv}}
    for i, s in enumerate(shapes):
        if s is not None:
            for j, d in enumerate(s):
                for nd in (1, 2, 3, 4, d - 1):
                    if 0 < nd < d:
                        s2 = list(s)
                        s2[j] = nd
                        yield {**case, "shapes": shapes[:i] + [s2] + shapes[i + 1:]}
    if ast is None or api == "sum":
        return

    def mk(new_ast, new_shapes):
        out = [list(reversed(t)) for t in new_ast] if api == "id" else None
        return case_from_ast(api, new_ast, out, new_shapes, params)
    if len(ast) > 1:
        for i in range(len(ast)):
            yield mk(ast[:i] + ast[i + 1:], shapes[:i] + shapes[i + 1:])
    for i, t in enumerate(ast):
        plain = not any(has(x, ("ell", "anon", "br")) for x in t)
        for j, it in enumerate(t):
            if plain and len(t) > 1 and shapes[i] is not None and len(shapes[i]) == len(t):
                yield mk(ast[:i] + [t[:j] + t[j + 1:]] + ast[i + 1:], shapes[:i] + [shapes[i][:j] + shapes[i][j + 1:]] + shapes[i + 1:])
            for sub in simpler(it):
                yield mk(ast[:i] + [t[:j] + [sub] + t[j + 1:]] + ast[i + 1:], shapes)


def simpler(item):
    """smaller items of the same width"""
    k = item[0]
    if k in ("flat", "cat"):
        cs = item[1]
        if k == "flat" and len(cs) == 1 and cs[0][0] in ("ax", "num", "flat", "cat"):
            yield cs[0]
        for i in range(len(cs)):
            if len(cs) > (2 if k == "cat" else 1):
                yield (k, cs[:i] + cs[i + 1:])
            for sub in simpler(cs[i]):
                yield (k, cs[:i] + [sub] + cs[i + 1:])
    elif k == "num" and item[1] > 1:
        yield ("num", 1)
        yield ("num", 2)
    elif k == "ell":
        for sub in simpler(item[1]):
            yield ("ell", sub, item[2])
    elif k == "br":
        for i in range(len(item[1])):
            for sub in simpler(item[1][i]):
                yield ("br", item[1][:i] + [sub] + item[1][i + 1:])


def shrink(checker, case, kind):
    cur = case
    budget = 400
    improved = True
    while improved and budget > 0:
        improved = False
        for cand in shrink_candidates(cur):
            budget -= 1
            if budget <= 0:
                break
            try:
                r = checker.check(cand, record=False)
            except core.MachineryError:
                continue
            if r is not None and r[0] == kind:
                cur = cand
                improved = True
                break
    return cur


def signature(case, kind):
    params = ",".join(f"{k}={np.asarray(v).tolist()}" for k, v in sorted(case["params"].items()))
    shapes = ",".join("None" if s is None else "(" + ",".join(str(d) for d in s) + ")" for s in case["shapes"])
    return f"{kind}:{case['api']}(\"{case['desc']}\"; {shapes}; {params})"


UNEXPANDED_SITE_SIG = ("i-must-fail:call-site:einx/_src/namedtensor/stage2/solve.py:map creates an 'UnexpandedEllipsis(...)' axis "
                       "(an ellipsis whose count is undetermined inside a flattened axis is replaced by one free axis)")


def through_unexpanded_site(case):
    """Does the real call create an `UnexpandedEllipsis(...)` axis (the `else` branch of `map` in stage2/solve.py)?  Observed by
    wrapping the `Axis` constructor that stage2/solve.py uses, for the duration of one call."""
    import sys as _sys
    import einx  # noqa: F401
    S = _sys.modules["einx._src.namedtensor.stage2.solve"]
    orig = S.Axis
    seen = []

    class Spy(orig):
        def __init__(self, name, *a, **k):
            if isinstance(name, str) and name.startswith("UnexpandedEllipsis("):
                seen.append(name)
            super().__init__(name, *a, **k)
    S.Axis = Spy
    try:
        call_real(case)
    except Exception:
        pass
    finally:
        S.Axis = orig
    return bool(seen)


def report(ctx, checker, case, res, do_shrink=True):
    kind = res[0]
    small = shrink(checker, case, kind) if do_shrink else case
    r2 = checker.check(small, record=False) or res
    sig = signature(small, kind)
    if kind == "i-must-fail" and through_unexpanded_site(small):
        # one defect, identified by its call site (known_findings.json): every accepted-but-unsolvable input that goes through it
        sig = UNEXPANDED_SITE_SIG
    ctx.violation(sig, {"kind": kind, "api": small["api"], "description": small["desc"], "shapes": small["shapes"],
                        "params": {k: np.asarray(v).tolist() for k, v in small["params"].items()},
                        "detail": r2[1], "evidence": r2[2],
                        "reproduce": f"einx.{small['api']}({small['desc']!r}, *tensors_of_shapes({small['shapes']}), **{ {k: np.asarray(v).tolist() for k, v in small['params'].items()} })"})


def directed_structural():
    """Deterministic sweep of two structures that random generation rarely produces with *inconsistent* sizes:
    (A) one axis name repeated inside a flattened group that has further factors (the product is a square times the rest),
    (B) one axis that is the single unknown of two different groups / tensors, each of which determines it on its own.
    Every case goes through the same judge as the random ones (the oracle decides must-fail / must-succeed)."""
    out = []

    def add(api, desc, shapes, params=None):
        out.append({"api": api, "desc": desc, "shapes": [None if s is None else list(s) for s in shapes], "params": dict(params or {})})

    # (A) repeated name with co-factors: totals with and without a solution
    for tmpl, extra in [("(a a b)", 0), ("(b a a)", 0), ("(a b a)", 0), ("c (a a b)", 1), ("(a a b) c", 2), ("((a a) b)", 0), ("(a a (b))", 0),
                        ("(a a b c)", 0), ("(a a a b)", 0)]:
        for total in (6, 8, 10, 12, 18, 24):
            for b in (1, 2, 3):
                if total % b:
                    continue
                shape = [total] if extra == 0 else ([5, total] if extra == 1 else [total, 5])
                params = {"b": b}
                if " c)" in tmpl:
                    params["c"] = 1
                for api in ("matches", "solve_shapes"):
                    add(api, tmpl, [shape], params)
    for total in (6, 8, 12):
        add("sum", "[(a a b)] c", [[total, 5]], {"b": 2})
        add("id", "(a a b) c -> c (a a b)", [[total, 3]], {"b": 2})
        add("solve_axes", "(a a b)", [[total]], {"b": 2})
    # (B) one unknown determined twice
    for k1, k2 in [(2, 3), (3, 2), (2, 2), (1, 2)]:
        for x, y in [(3, 4), (4, 4), (2, 5), (5, 5)]:
            for api in ("solve_axes", "matches", "solve_shapes"):
                add(api, f"(a {k1}) (a {k2})", [[x * k1, y * k2]])
                add(api, f"(a {k1}), (a {k2})", [[x * k1], [y * k2]])
                add(api, "(a b) (a c)", [[x * k1, y * k2]], {"b": k1, "c": k2})
                add(api, f"(a {k1}) c, c (a {k2})", [[x * k1, 3], [3, y * k2]])
    for x, y in [(4, 3), (4, 4), (2, 5)]:
        for api in ("solve_axes", "matches"):
            add(api, "(a + 1) (a 2)", [[x + 1, y * 2]])
            add(api, "(a + b) (a b)", [[x + 2, y * 2]], {"b": 2})
            add(api, "b (a 2), (a + b)", [[3, 2 * x], [y + 3]])
    for x, y in [(3, 4), (4, 4)]:
        add("id", "(a b) (a c) -> a b c", [[x * 2, y * 3]], {"b": 2, "c": 3})
        add("sum", "(a 2) [(a 3)]", [[x * 2, y * 3]])
    # (B2) a flattened / concatenated group repeated by an ellipsis, with different lengths per repetition (the repetitions
    # are different axes; nothing may identify them)
    for api in ("solve_shapes", "matches", "solve_axes"):
        add(api, "(a b)...", [[6, 4]], {"b": 2})
        add(api, "(a b)...", [[6, 4]], {"b": (3, 2)})
        add(api, "(a b)... c", [[6, 4, 3]], {"a": (2, 4)})
        add(api, "c (a + b)...", [[3, 6, 4]], {"a": (2, 1)})
        add(api, "((a b)... c), ((a b) r)...", [[72], [4, 9]], {"c": 2, "r": (1, 1)})
    add("solve_shapes", "(a b)...", [[6, 4]])
    add("matches", "(a b)...", [[6, 4]])
    add("solve_shapes", "(a b)... c", [[6, 4, 3]])
    add("solve_shapes", "c (a + b)...", [[3, 6, 4]])
    add("id", "(a b)... c -> c (a b)...", [[6, 4, 3]])
    add("sum", "(a b)... [c]", [[6, 4, 3]])
    # (C) long per-repetition constraints (the constraint is rendered as text and parsed again inside the solver: long
    # vectors, many digits) -- must behave like short ones
    for api in ("solve_shapes", "solve_axes", "matches"):
        add(api, "(r...)", [[1]], {"r": (1,) * 40})
        add(api, "b (r...)", [[2, 2 ** 12]], {"r": (2,) * 12})
        add(api, "b r...", [[2] + [3] * 30], {"r": (3,) * 30})
        add(api, "(r s)...", [[200] * 20], {"r": (100,) * 20})
        add(api, "(r s)...", [[200] * 20], {"r": (100,) * 19 + (7,)})
    add("id", "(r...) -> r...", [[1]], {"r": (1,) * 40})
    add("sum", "b [r...]", [[2] + [1] * 35], {"r": (1,) * 35})
    return out


def nontrivial(case):
    d = case["desc"]
    return ("(" in d or "..." in d or "+" in d) and any(s is not None for s in case["shapes"])


def run(ctx):
    rng = ctx.rng
    ctx.extra["rule"] = ("fixed cases (DESIGN Appendix A rows, inputs of D3/D4/D14) + random expression lists over <=5 axis names with nested ( ), [ ], +, numbers, "
                         "named and anonymous ellipses; shapes from a hidden ground-truth assignment, then mutated (dimension changed, rank changed, shape unknown, "
                         "constraint dropped / contradicted / redundant / wrong tuple length / scalar for an ellipsis axis); APIs solve_axes, solve_shapes, matches, id, sum; "
                         "plus a deterministic sweep of repeated names inside a group with co-factors and of one unknown determined by two groups (consistent and inconsistent sizes); plus a big-number stream (products around 2**31 .. 2**64, shape-only tensors). non-trivial = description has a composition, concatenation or "
                         "ellipsis and at least one known shape; distinct by (api, description, shapes, constraints)")
    ctx.assumptions.append("front-trusted: expression trees are einx's own stage-1 trees captured at the namedtensor.solve.solve boundary (parser and _parse_op rewriting are C12/C07's subject); "
                           "model and oracle both start from these trees")
    ctx.assumptions.append("sympy is not modelled: the Lean model is the specification Sat/Sols plus the proved reference solver (unit propagation); CSE (stage2/cse.py) is modelled at the "
                           "value level (Solve/Cse.lean: valueRange = _value_range translated from the source on every run, cse_preserves_sols), its candidate search and tree surgery "
                           "are C16's model (Order/Cse.lean); end to end its effect is observed through solve_shapes/matches/ops against the oracle")
    ctx.assumptions.append("the search oracle enumerates counts <= max(rank, 5) and lengths <= the largest stated dimension; uniqueness beyond these bounds is a search aid, not a proof")
    try:
        directed = c02_cse.run_cse(ctx)   # before the budget is fixed: a broken CSE tie enlarges the search below
    except core.MachineryError:
        raise
    except Exception as e:   # the internal functions of stage2/cse.py no longer have the interface the tie calls
        ctx.tie_broken("correspondence:cse-internal-interface", f"{type(e).__name__}: {e}")
        directed = []
    checker = Checker(ctx)
    n_rand = 350 if ctx.quick else 6000
    n_big = 60 if ctx.quick else 600
    if ctx.broken:
        n_rand *= 3
    found = {}

    def handle(case, do_shrink=True):
        try:
            res = checker.check(case)
        except orc.Incomplete:
            ctx.count("oracle-incomplete")
            return
        ctx.case(checker.key(case), nontrivial(case))
        if res is not None:
            cls = (res[0], case["api"])
            found[cls] = found.get(cls, 0) + 1
            ctx.count("violation:" + res[0])
            if found[cls] <= 3:
                report(ctx, checker, case, res, do_shrink)
        return res

    for api, desc, shapes, params in FIXED:
        handle({"api": api, "desc": desc, "shapes": [None if s is None else list(s) for s in shapes], "params": dict(params)}, do_shrink=False)
    for case in directed:
        handle(case)
    # D19: a user axis named like CSE's fresh axes (`cse...` expands to `cse.0`, `cse.1`) -- the same description with another
    # axis name is the reference
    try:
        import einx
        ref = einx.solve_shapes("(a b) c..., (a b)", np.zeros((6, 2, 3)), np.zeros((6,)))
        try:
            got = einx.solve_shapes("(a b) cse..., (a b)", np.zeros((6, 2, 3)), np.zeros((6,)))
            bad = None if tuple(map(tuple, got)) == tuple(map(tuple, ref)) else f"returns {got} instead of {ref}"
        except Exception as e:
            bad = f"raises {type(e).__name__} although the same call with the axis named `c...` returns {ref}"
        ctx.count("d19-probe")
        if bad is not None:
            ctx.violation('iii-must-succeed:solve_shapes("(a b) cse..., (a b)"; (6,2,3),(6); ) [axis name collides with the fresh axes of stage2/cse.py]',
                          {"kind": "iii-must-succeed", "api": "solve_shapes", "description": "(a b) cse..., (a b)", "shapes": [[6, 2, 3], [6]], "params": {}, "detail": bad})
    except Exception as e:   # the reference call itself fails: nothing to compare
        ctx.count("d19-probe-unavailable:" + type(e).__name__)
    # An ellipsis and its written-out repetition have the same solutions and the same tensor shapes (Props/C07Stage2.lean:
    # ellipsis_unroll), so the solver must treat them alike: same outcome (success / failure) and same reported shapes.
    for short, long_, shapes in [("(a b)...", "(a0 b0) (a1 b1)", [[6, 4]]), ("(a b)... c", "(a0 b0) (a1 b1) c", [[6, 4, 3]]),
                                 ("c (a + b)...", "c (a0 + b0) (a1 + b1)", [[3, 6, 4]]), ("(a b c)...", "(a0 b0 c0) (a1 b1 c1)", [[8, 12]]),
                                 ("((a b)... c)", "((a0 b0) (a1 b1) c)", [[48]])]:
        for api in ("matches", "solve_shapes"):
            rs = call_real({"api": api, "desc": short, "shapes": shapes, "params": {}})
            rl = call_real({"api": api, "desc": long_, "shapes": shapes, "params": {}})
            ctx.count("unroll-outcome-pairs")
            ok_s = rs.get("status") == "ok" and (api != "matches" or rs["reported"]["matches"])
            ok_l = rl.get("status") == "ok" and (api != "matches" or rl["reported"]["matches"])
            if rs.get("captured") is False or rl.get("captured") is False:
                continue
            if ok_s != ok_l or (ok_s and api == "solve_shapes" and rs["reported"].get("shapes") != rl["reported"].get("shapes")):
                ctx.violation(f'unroll-outcome-differs:{api}("{short}" vs "{long_}"; {",".join("(" + ",".join(map(str, sh)) + ")" for sh in shapes)}; )',
                              {"kind": "an ellipsis and its written-out repetition are solved differently", "api": api, "short": short, "long": long_, "shapes": shapes,
                               "short_outcome": {k: rs.get(k) for k in ("status", "exc", "reported")}, "long_outcome": {k: rl.get(k) for k in ("status", "exc", "reported")}})
    for case in directed_structural():
        ctx.count("directed-structural-cases")
        handle(case)
    for i in range(n_rand):
        case = gen_case(rng)
        res = handle(case)
        if i < 6:
            ctx.sample({"api": case["api"], "description": case["desc"], "shapes": case["shapes"],
                        "params": {k: np.asarray(v).tolist() for k, v in case["params"].items()}, "violation": None if res is None else res[0]})
    for _ in range(n_big):
        case = big_case(rng)
        ctx.count("big-number-cases")
        handle(case, do_shrink=False)
    ctx.extra["violations_by_class"] = {f"{k[0]}/{k[1]}": v for k, v in sorted(found.items())}


def replay(ctx, path):
    with open(path) as f:
        r = json.load(f)["replay"]
    case = {"api": r["api"], "desc": r["description"], "shapes": r["shapes"],
            "params": {k: (tuple(v) if isinstance(v, list) and v and not isinstance(v[0], list) else v) for k, v in r["params"].items()}}
    ctx.driver_ok = core.os.path.exists(core.DRIVER)
    checker = Checker(ctx)
    res = checker.check(case, record=False)
    print(json.dumps({"case": {k: case[k] for k in ("api", "desc", "shapes")}, "params": r["params"],
                      "result": None if res is None else [res[0], res[1]]}, indent=1, default=str))
    return 1 if res is not None else 0
