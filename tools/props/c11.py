"""C11 — backend selection follows the documented precedence and is stable.

Tie (T-src): Extracted/Registry.lean (does `_register` clear the memo; real priorities).
Tie (T-beh): random operation sequences on fresh `BackendRegistry` objects with synthetic
backends, compared step by step (outcome and full visible state) with the Lean model M8.
Search: disciplined histories on the real registry against the pure selection specification
(a Python transcription of `specGet`), shrunk by deleting operations.
"""
import sys
import types

import numpy as np

from lib import core

EXTRACTORS = ["Registry"]
PREFIX = "einxvf_fw"


def _backend_mod():
    import einx._src.frontend.backend as B
    return B


class World:
    """Synthetic frameworks: module names, tensor classes, backend specs."""

    def __init__(self, rng, disciplined=False):
        self.rng = rng
        nfw = rng.randint(1, 3)
        self.modules = [f"{PREFIX}{i}" for i in range(nfw)]
        # type ids: 0 int, 1 float, 2 np.float32 (scalars); 3 np.ndarray; 4.. framework tensor classes; last: unknown
        self.type_objs = {0: 1, 1: 2.5, 2: np.float32(1.0), 3: np.zeros((2,))}
        self.fw_types = {}
        tid = 4
        for m in self.modules:
            self.fw_types[m] = []
            for _ in range(rng.randint(1, 2)):
                cls = type(f"T{tid}", (), {})
                self.type_objs[tid] = cls()
                self.fw_types[m].append(tid)
                tid += 1
        self.unknown = tid
        self.type_objs[tid] = type("Unknown", (), {})()
        self.specs = []
        uid = 1
        # a backend named "numpy" (accepts ndarray) most of the time
        names_used = set()

        def add(name, module, accepts, prio, eager, failing):
            nonlocal uid
            self.specs.append(dict(uid=uid, name=name, module=module, accepts=sorted(accepts), priority=prio,
                                   eager=eager, failing=failing))
            names_used.add(name)
            uid += 1

        if rng.random() < 0.85:
            add("numpy", "numpy", [3], rng.choice([-1, -1, 0]), rng.random() < 0.5, False)
        nb = rng.randint(1, 5)
        for k in range(nb):
            m = rng.choice(self.modules)
            acc = set(rng.sample(self.fw_types[m], rng.randint(1, len(self.fw_types[m]))))
            if not disciplined and rng.random() < 0.15:
                acc.add(3)  # a framework backend that also takes numpy arrays
            if not disciplined and rng.random() < 0.1:
                acc.add(rng.choice(list(self.type_objs)))
            name = f"{m}.b{k}"
            if not disciplined and names_used and rng.random() < 0.08:
                name = rng.choice(sorted(names_used))
                if name == "numpy" or any(s["name"] == name and s["failing"] for s in self.specs):
                    name = f"{m}.b{k}"
            failing = rng.random() < 0.15
            add(name, m, acc, rng.choice([-5, -1, 0, 0, 5]), rng.random() < 0.4, failing)
        self.by_uid = {s["uid"]: s for s in self.specs}

    def make_backend(self, spec):
        B = _backend_mod()
        acc = tuple(type(self.type_objs[t]) for t in spec["accepts"])
        return B.Backend(ops={}, name=spec["name"], priority=spec["priority"], optimizations=[], compiler=None,
                         is_supported_tensor=lambda t, acc=acc: type(t) in acc, get_shape=lambda t: ())

    def jbackend(self, spec, invalid=None):
        inv = spec["failing"] if invalid is None else invalid
        return {"uid": spec["uid"], "name": spec["name"], "priority": 0 if inv else spec["priority"],
                "accepts": [] if inv else spec["accepts"], "invalid": inv}


def gen_ops(world, rng, n, disciplined=False):
    """Abstract op list; `disciplined` = per module all registrations precede or all follow its import, distinct
    names, eager `register` only for already imported modules, tensor types only of imported modules."""
    ops = []
    pending = list(world.specs)
    rng.shuffle(pending)
    imported = set()
    stack = []
    registered = []
    early = {m: rng.random() < 0.5 for m in world.modules + ["numpy"]}
    all_mods = world.modules + ["numpy"]
    for _ in range(n):
        r = rng.random()
        if r < 0.3 and pending:
            if disciplined:
                cands = [s for s in pending if (s["module"] not in imported) == early[s["module"]] or False]
                cands = [s for s in pending if (early[s["module"]] and s["module"] not in imported) or (not early[s["module"]] and s["module"] in imported)]
                if not cands:
                    continue
                s = cands[0]
            else:
                s = pending[0]
            pending.remove(s)
            registered.append(s)
            if s["eager"] and not s["failing"] and (not disciplined or s["module"] in imported):
                ops.append({"op": "register", "uid": s["uid"]})
            else:
                ops.append({"op": "register_on_import", "uid": s["uid"]})
        elif r < 0.42:
            cands = [m for m in all_mods if m not in imported]
            if disciplined:
                cands = [m for m in cands if not (early[m] and any(s["module"] == m for s in pending))]
            if cands:
                m = rng.choice(cands)
                imported.add(m)
                ops.append({"op": "import", "m": m})
        elif r < 0.5 and registered:
            s = rng.choice(registered)
            if not s["failing"]:
                stack.append(s)
                ops.append({"op": "enter", "uid": s["uid"]})
        elif r < 0.58 and stack:
            s = stack.pop()
            ops.append({"op": "exit", "uid": s["uid"]})
        elif r < 0.66:
            names = [s["name"] for s in world.specs] + ["nosuch"]
            ops.append({"op": "get_by_name", "n": rng.choice(names)})
        else:
            k = rng.choice([0, 1, 1, 1, 2, 2, 3])
            avail = [0, 1, 2]
            if "numpy" in imported or not disciplined:
                avail.append(3)
            for m in world.modules:
                if m in imported or not disciplined:
                    avail += world.fw_types[m]
            avail.append(world.unknown)
            tys = [rng.choice(avail) for _ in range(k)]
            a = rng.random()
            if a < 0.7:
                arg = {"t": "none"}
            elif a < 0.8 and registered:
                arg = {"t": "obj", "uid": rng.choice(registered)["uid"]}
            elif a < 0.95:
                arg = {"t": "name", "n": rng.choice([s["name"] for s in world.specs] + ["nosuch"])}
            else:
                arg = {"t": "other"}
            if arg["t"] == "obj" and world.by_uid[arg["uid"]]["failing"]:
                arg = {"t": "none"}
            ops.append({"op": "get", "arg": arg, "tys": tys})
    while stack:
        s = stack.pop()
        ops.append({"op": "exit", "uid": s["uid"]})
    return ops


class RealRun:
    """Runs abstract ops on a fresh real BackendRegistry, with simulated module imports."""

    def __init__(self, world):
        self.B = _backend_mod()
        self.world = world
        self.reg = self.B.BackendRegistry()
        self.objs = {}          # uid -> backend object (valid ones, created up front)
        self.uid_of = {}        # id(obj) -> uid
        for s in world.specs:
            if not s["failing"]:
                o = world.make_backend(s)
                self.objs[s["uid"]] = o
                self.uid_of[id(o)] = s["uid"]
        self.hidden_numpy = None
        self.added = []

    def __enter__(self):
        # "numpy" must look un-imported until the sequence imports it
        self.hidden_numpy = sys.modules.pop("numpy", None)
        return self

    def __exit__(self, *a):
        for m in self.added:
            sys.modules.pop(m, None)
        if self.hidden_numpy is not None:
            sys.modules["numpy"] = self.hidden_numpy

    def uid(self, obj):
        if id(obj) in self.uid_of:
            return self.uid_of[id(obj)]
        if isinstance(obj, self.B.InvalidBackend):
            # created inside _run_factory: identify by the failing factory's (unique) name
            for s in self.world.specs:
                if s["failing"] and s["name"] == obj.name and s["uid"] not in self.objs:
                    self.objs[s["uid"]] = obj
                    self.uid_of[id(obj)] = s["uid"]
                    return s["uid"]
        raise core.MachineryError(f"unknown backend object {obj!r}")

    def factory(self, spec):
        if spec["failing"]:
            def f():
                raise RuntimeError("synthetic import failure")
        else:
            def f(o=self.objs[spec["uid"]]):
                return o
        return f

    def do(self, op):
        B = self.B
        w = self.world
        try:
            k = op["op"]
            if k == "register":
                self.reg.register(self.objs[op["uid"]])
                return "unit"
            if k == "register_on_import":
                s = w.by_uid[op["uid"]]
                self.reg.register_on_import(s["module"], s["name"], self.factory(s))
                return "unit"
            if k == "import":
                if op["m"] == "numpy":
                    sys.modules["numpy"] = self.hidden_numpy
                    self.hidden_numpy = None
                else:
                    sys.modules[op["m"]] = types.ModuleType(op["m"])
                    self.added.append(op["m"])
                return "unit"
            if k == "get":
                a = op["arg"]
                arg = None if a["t"] == "none" else self.objs[a["uid"]] if a["t"] == "obj" else a["n"] if a["t"] == "name" else 42
                tensors = [w.type_objs[t] for t in op["tys"]]
                r = self.reg.get(arg, tensors)
                return {"backend": self.uid(r)}
            if k == "get_by_name":
                return {"backend": self.uid(self.reg.get_by_name(op["n"]))}
            if k == "enter":
                self.reg.enter(self.objs[op["uid"]])
                return "unit"
            if k == "exit":
                self.reg.exit(self.objs[op["uid"]])
                return "unit"
            raise core.MachineryError(f"bad op {op}")
        except ValueError:
            return "ValueError"
        except B.BackendResolutionError as e:
            msg = str(e)
            # Both failures are BackendResolutionErrors raised in `_get`; they are told apart by what the message LISTS after
            # its last ": " (registered backend names = several candidates; type reprs = no candidate), not by its wording
            # (work package "robust": a reworded message must not derail the correspondence).
            tail = msg.rsplit(": ", 1)[1].split("\n")[0].split(", ") if ": " in msg else []
            known = {sp["name"] for sp in self.world.specs} | set(self.reg.state.name_to_backend.keys())   # (the candidates may
            #                     live in a state copy that is discarded on error, so the surviving state alone does not know them)
            if len(tail) >= 2 and all(t in known for t in tail):
                # the candidates live in a state copy that is discarded on error: compare by name
                return {"multiple": sorted(tail)}
            return "nomatch"
        except (AssertionError, IndexError):
            return "assertion"

    def _is_candidate(self, b, op):
        return any(b.is_supported_tensor(self.world.type_objs[t]) for t in op.get("tys", []))

    def state(self):
        s = self.reg.state
        fake = set(self.world.modules) | {"numpy"}
        tymap = {type(o): t for t, o in self.world.type_objs.items()}
        return {
            "seen": sorted(m for m in s.seen_module_names if m in fake),
            "uninit": [{"m": m, "fs": [n for n, _ in fs]} for m, fs in s.uninitialized_backends.items()],
            "backends": [self.uid(b) for b in s.backends],
            "memo": [{"tys": [tymap[t] for t in tys], "b": self.uid(b)} for tys, b in s.tensortypes_to_backend.items()],
            "names": [{"n": n, "b": self.uid(b)} for n, b in s.name_to_backend.items()],
            "stack": [self.uid(b) for b in s.use_stack],
        }


def to_model_ops(world, ops):
    out = []
    for op in ops:
        k = op["op"]
        if k == "register":
            out.append({"op": "register", "b": world.jbackend(world.by_uid[op["uid"]])})
        elif k == "register_on_import":
            s = world.by_uid[op["uid"]]
            out.append({"op": "register_on_import", "m": s["module"], "name": s["name"], "b": world.jbackend(s)})
        elif k == "get":
            a = dict(op["arg"])
            if a["t"] == "obj":
                a = {"t": "obj", "b": world.jbackend(world.by_uid[a["uid"]])}
            out.append({"op": "get", "arg": a, "tys": op["tys"]})
        elif k in ("enter", "exit"):
            out.append({"op": k, "b": world.jbackend(world.by_uid[op["uid"]])})
        else:
            out.append(op)
    return out


def run_real(world, ops):
    steps = []
    with RealRun(world) as rr:
        for op in ops:
            out = rr.do(op)
            steps.append({"out": out, "state": rr.state()})
    return steps


def canon_step(st, world=None):
    s = st["state"]
    if world is not None and isinstance(st["out"], dict) and "multiple" in st["out"]:
        st = {**st, "out": {"multiple": sorted(world.by_uid[u]["name"] for u in st["out"]["multiple"])}}
    # the order of the memo dict and of `seen` is irrelevant
    return {"out": st["out"], "state": {**s, "memo": sorted(s["memo"], key=lambda e: (e["tys"], e["b"])), "seen": sorted(s["seen"])}}


# ---------------------------------------------------------------- oracle (Python transcription of specGet)

def spec_get(world, effective, stack, arg, tys):
    """effective: specs of the backends registered so far whose module is imported (or eager)."""
    if arg["t"] == "obj":
        return {"backend": arg["uid"]}
    by_name = {}
    for s in effective:
        by_name[s["name"]] = s
    if arg["t"] == "name":
        return {"backend": by_name[arg["n"]]["uid"]} if arg["n"] in by_name else "ValueError"
    if stack:
        return {"backend": stack[-1]}
    if arg["t"] == "other":
        return "ValueError"
    if all(t < 3 for t in tys):
        return {"backend": by_name["numpy"]["uid"]} if "numpy" in by_name else "ValueError"
    cands = [s for s in effective if not s["failing"] and any(t in s["accepts"] for t in tys)]
    if len(cands) > 1:
        mx = max(s["priority"] for s in cands)
        cands = [s for s in cands if s["priority"] == mx]
    if len(cands) == 1:
        return {"backend": cands[0]["uid"]}
    if not cands:
        return "nomatch"
    return {"multiple": sorted(s["name"] for s in cands)}


def oracle_check(world, ops):
    """Run a disciplined history on the real registry; every lookup must equal the pure specification."""
    registered = []
    imported = set()
    stack = []
    with RealRun(world) as rr:
        for i, op in enumerate(ops):
            out = rr.do(op)
            k = op["op"]
            if k in ("register", "register_on_import"):
                registered.append((world.by_uid[op["uid"]], k == "register"))
            elif k == "import":
                imported.add(op["m"])
            elif k == "enter":
                stack.append(op["uid"])
            elif k == "exit":
                stack.pop()
            elif k in ("get", "get_by_name"):
                eff = [s for s, eager in registered if eager or s["module"] in imported]
                arg = op["arg"] if k == "get" else {"t": "name", "n": op["n"]}
                want = spec_get(world, eff, stack, arg, op.get("tys", []))
                if out != want:
                    return i, want, out
    return None


def shrink(world, ops, fails):
    ops = list(ops)
    changed = True
    while changed:
        changed = False
        for i in range(len(ops) - 1, -1, -1):
            cand = ops[:i] + ops[i + 1:]
            # keep enter/exit balanced
            bal = 0
            okb = True
            for o in cand:
                if o["op"] == "enter":
                    bal += 1
                if o["op"] == "exit":
                    bal -= 1
                    if bal < 0:
                        okb = False
            if not okb or bal != 0:
                continue
            try:
                if fails(cand):
                    ops = cand
                    changed = True
            except Exception:
                pass
    return ops


def directed_worlds():
    """Deterministic histories in which registrations happen *between* lookups of the same tensor type: two or three
    backends of one already imported framework accept the same tensor class, with every combination of priorities
    (lower / equal / higher than the backend the earlier lookup chose), registered eagerly or through
    `register_on_import` of the imported module; the lookup is repeated after each registration.  All of them are
    disciplined (a lookup only mentions types of imported modules), so the pure specification applies."""
    out = []
    prios = [-1, 0, 5]
    for pa in prios:
        for pb in prios:
            for pc in (None, 0, 5):
                for lazy in (False, True):
                    w = World.__new__(World)
                    w.rng = None
                    w.modules = [f"{PREFIX}0"]
                    cls = type("T4", (), {})
                    w.type_objs = {0: 1, 1: 2.5, 2: np.float32(1.0), 3: np.zeros((2,)), 4: cls(), 5: type("Unknown", (), {})()}
                    w.fw_types = {w.modules[0]: [4]}
                    w.unknown = 5
                    w.specs = []
                    for k, pr in enumerate([pa, pb] + ([pc] if pc is not None else [])):
                        w.specs.append(dict(uid=k + 1, name=f"{w.modules[0]}.b{k}", module=w.modules[0], accepts=[4], priority=pr,
                                            eager=not lazy, failing=False))
                    w.by_uid = {sp["uid"]: sp for sp in w.specs}
                    ops = [{"op": "import", "m": w.modules[0]}]
                    for sp in w.specs:
                        ops.append({"op": "register_on_import" if lazy else "register", "uid": sp["uid"]})
                        ops.append({"op": "get", "arg": {"t": "none"}, "tys": [4]})
                        ops.append({"op": "get", "arg": {"t": "none"}, "tys": [4, 0]})
                    out.append((w, ops))
    return out


def search(ctx, n_hist, length):
    """Failing-input search on the real code: disciplined histories vs. the pure specification."""
    rng = ctx.rng
    found = 0
    directed = directed_worlds()
    for k in range(len(directed) + n_hist):
        if k < len(directed):
            world, ops = directed[k]
            ctx.count("oracle_histories_directed")
        else:
            world = World(rng, disciplined=True)
            ops = gen_ops(world, rng, length, disciplined=True)
        ctx.count("oracle_histories")
        bad = oracle_check(world, ops)
        if bad is not None:
            small = shrink(world, ops, lambda c: oracle_check(world, c) is not None)
            i, want, got = oracle_check(world, small)
            sig = "history:" + core.digest([[s[k] for k in ("name", "module", "accepts", "priority", "eager", "failing")] for s in world.specs] + small)
            ctx.violation(sig, {"kind": "selection differs from the specification (fresh registry with the same registrations and imports)",
                                "backends": world.specs, "ops": small, "step": i, "expected": want, "observed": got})
            found += 1
            if found >= 3:
                break
    return found


def with_block_e2e(ctx):
    """Public calls whose tensor arguments are all Python / numpy scalars, inside a `with backend:` block: the innermost
    block decides (precedence: backend argument, then the block, then the tensor types), so the outcome must be that of the
    same call with `backend=` given explicitly."""
    import einx
    import numpy as _np
    def outcome(f):
        try:
            r = f()
            return ("text", r) if isinstance(r, str) else ("value", _np.asarray(r).tolist())
        except Exception as e:
            return ("raises", type(e).__name__)
    calls = [("add", ", -> ", (1, 2)), ("multiply", ", -> ", (1.5, 2.0)), ("add", ", -> ", (1, _np.float32(2.0))), ("where", ", , -> ", (True, 1, 2.0)),
             ("add", "a, -> a", (_np.arange(3), 2))]
    for bname in ("numpy.einsum", "numpy.numpylike"):
        b = einx.backend.get(bname)
        for op, desc, args in calls:
            for graph in (True, False):
                kw = {"graph": True} if graph else {}
                want = outcome(lambda: getattr(einx, op)(desc, *args, backend=bname, **kw))
                with b:
                    got = outcome(lambda: getattr(einx, op)(desc, *args, **kw))
                ctx.count("with-block-e2e:" + ("agree" if got == want else "DIFFER"))
                ctx.case(f"with-e2e:{bname}:{op}:{desc}:{graph}", True)
                if got != want:
                    ctx.violation(f"history: with {bname}: einx.{op}({desc!r}, {', '.join(type(a).__name__ for a in args)}{', graph=True' if graph else ''}) differs from the same call with backend={bname!r}",
                                  {"kind": "the innermost `with backend:` block does not decide the backend of a call without backend argument", "backend": bname,
                                   "op": op, "description": desc, "argument_types": [type(a).__name__ for a in args], "inside_with": list(got)[:2], "explicit_backend": list(want)[:2]})
                    return


def run(ctx):
    rng = ctx.rng
    facts = ctx.facts.get("Registry", {})
    cfg = {"registerClearsMemo": bool(facts.get("registerClearsMemo", False))}
    n_seq = 300 if ctx.quick else 6000
    ctx.extra["rule"] = ("random operation sequences (register / register_on_import / import / get / get_by_name / enter / exit, 5-40 ops) over 2-6 "
                         "synthetic backends in 1-3 frameworks on a fresh BackendRegistry; every step's outcome and full state is compared with the "
                         "Lean model; non-trivial = sequence contains a lookup by tensor types after at least one registration; distinct by digest of (backends, ops)")
    disagreements = 0
    if ctx.driver_ok:
        drv = ctx.driver()
        for i in range(n_seq):
            world = World(rng)
            ops = gen_ops(world, rng, rng.randint(5, 40))
            real = run_real(world, ops)
            model = drv.ask({"kind": "registry", "cfg": cfg, "mods": [], "ops": to_model_ops(world, ops)})["steps"]
            nontrivial = any(o["op"] == "get" and o["arg"]["t"] == "none" and o["tys"] for o in ops) and any(o["op"].startswith("register") for o in ops)
            ctx.case([world.specs, ops], nontrivial)
            for st in real:
                o = st["out"]
                ctx.count("out:" + (o if isinstance(o, str) else next(iter(o))))
            if i < 2:
                ctx.sample({"backends": world.specs, "ops": ops[:12], "outcomes": [s["out"] for s in real[:12]]})
            for j, (a, b) in enumerate(zip(real, model)):
                if canon_step(a) != canon_step(b, world):
                    disagreements += 1
                    ctx.tie_broken("correspondence:registry-model", f"step {j} of a {len(ops)}-op sequence: real {canon_step(a)} vs model {canon_step(b, world)}")
                    ctx.sample({"DISAGREEMENT": True, "backends": world.specs, "ops": ops[:j + 1], "real": canon_step(a), "model": canon_step(b, world)})
                    break
            if disagreements >= 3:
                break
    ctx.extra["model_disagreements"] = disagreements
    # the oracle run is cheap; always do a few, and many more when a proof or a tie is broken
    broken = bool(ctx.broken)
    search(ctx, (400 if ctx.quick else 5000) if broken else (60 if ctx.quick else 2000), 30)
    with_block_e2e(ctx)


def replay(ctx, path):
    import json
    with open(path) as f:
        r = json.load(f)["replay"]
    print(json.dumps(r, indent=1)[:4000])
    return 0
