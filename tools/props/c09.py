"""C09 — arguments are never modified (except the documented in-place `*_at` target).

Proof: Props/C09.lean (`noWrite_sound`, `write_frame`, `at_only_first`, `alias_sound`: the static may-alias analysis
`writes` over-approximates, for every view/copy decision of numpy and every contents, the objects that executing the
graph can modify).
Tie (T-src): Extracted/Alias.lean — the functions `tracer/signature/classical/numpy.py` traces and which of them as
in-place; obligations `extracted_inplace_rows`, `table_inplace_rows_traced`, `extracted_traced_have_rows`.
Tie (T-str): the real traced graph (after optimisation, as compiled) of every generated call of every family (shared
generator lib/gen.py; set_at/add_at/subtract_at from props/c14.py's generator) is serialised and analysed by the Lean
driver (kind `writes`): `writes = []` for every operation that is not `*_at`, `writes ⊆ [0]` for `*_at`; a function or node
kind without an alias-table row is a broken tie.  In addition every real result that shares memory with an argument
(`np.shares_memory`) must be predicted by `outRoots` (theorem `alias_sound`).
Tie (table): every row of `Einx.Alias.aliasTable` (read back from the driver) against real numpy on random small arrays
in four memory layouts: `fresh` results never share memory with an argument and writing through them changes no
argument; `view` rows are witnessed to alias; `inplace k` rows change nothing but argument k.
Search (independent of Lean, on the real code): every generated call — and its solve_axes / solve_shapes / matches and
graph=True variants — with every tensor argument in four memory layouts (C-contiguous, transposed view of a permuted
base, zero-stride read-only broadcast view, flags.writeable=False): raw bytes of the owning base buffer, the argument's own
bytes, shape, strides, dtype, flags, data pointer and base identity of every argument, and deep copies of every keyword
value (sizes as ints / numpy scalars / lists / tuples / arrays, `shift` tuples), compared before and after the call.
For `*_at` the first argument's contents are exempt; coordinates and updates are not, and a read-only coordinate/update
array must not make a call fail that succeeds with writeable ones.
"""
import copy
import json
import warnings

import numpy as np

from lib import core, gen, graphcap
from props import c14

EXTRACTORS = ["Alias"]
BACKENDS = [None, "numpy", "numpy.numpylike", "numpy.einsum"]
LAYOUTS = ("contiguous", "transposed", "broadcast", "readonly")
AT_OPS = ("set_at", "add_at", "subtract_at")


# ------------------------------------------------------------------------------------------------ memory layouts

def owning_base(x):
    b = x
    while isinstance(b.base, np.ndarray):
        b = b.base
    return b


def layout_of(a, layout, rng, zero_fill=False):
    """The array `a` (values kept where the layout allows it) in the requested memory layout."""
    a = np.asarray(a)
    if layout == "contiguous":
        return np.array(a, order="C", copy=True)
    if layout == "readonly":
        x = np.array(a, order="C", copy=True)
        x.flags.writeable = False
        return x
    if layout == "transposed":
        if a.ndim >= 2:
            perm = list(range(a.ndim))
            while perm == list(range(a.ndim)):
                rng.shuffle(perm)
            base = np.ascontiguousarray(a.transpose(perm))          # owns its data
            return base.transpose(np.argsort(perm))                  # a genuine non-contiguous view of `base`
        if a.ndim == 1:
            base = np.zeros(2 * a.shape[0] + 1, dtype=a.dtype)
            base[1::2] = a
            return base[1::2]                                        # strided view
        base = np.zeros(3, dtype=a.dtype)
        base[1] = a
        return base[1:2].reshape(())                                 # 0-d view into a larger buffer
    if layout == "broadcast":
        if zero_fill or a.ndim == 0:
            src = np.zeros((1,) * a.ndim, dtype=a.dtype) if zero_fill else np.array(a, copy=True)
            return np.broadcast_to(src, a.shape)
        axes = [i for i in range(a.ndim) if rng.random() < 0.6] or [rng.randrange(a.ndim)]
        sl = tuple(slice(0, 1) if i in axes else slice(None) for i in range(a.ndim))
        src = np.array(a[sl], copy=True)
        return np.broadcast_to(src, a.shape)                         # zero strides on `axes`, read-only
    raise ValueError(layout)


def snap_array(x):
    b = owning_base(x)
    return {
        "base_bytes": b.tobytes(), "base_shape": tuple(b.shape), "base_strides": tuple(b.strides), "base_dtype": str(b.dtype),
        "base_writeable": bool(b.flags.writeable),
        "bytes": x.tobytes(), "shape": tuple(x.shape), "strides": tuple(x.strides), "dtype": str(x.dtype),
        "byteorder": x.dtype.byteorder, "writeable": bool(x.flags.writeable), "c_contiguous": bool(x.flags.c_contiguous),
        "f_contiguous": bool(x.flags.f_contiguous), "owndata": bool(x.flags.owndata), "aligned": bool(x.flags.aligned),
        "data_ptr": x.__array_interface__["data"][0], "base_id": id(x.base), "type": type(x).__name__,
    }


CONTENT_FIELDS = ("base_bytes", "bytes")


def snap_value(v):
    """Structural snapshot of a keyword value / non-array argument (deep)."""
    if isinstance(v, np.ndarray):
        return ("ndarray", snap_array(v))
    if isinstance(v, (list, tuple)):
        return (type(v).__name__, id(v), [snap_value(x) for x in v])
    if isinstance(v, dict):
        return ("dict", id(v), [(snap_value(k), snap_value(x)) for k, x in v.items()])
    if isinstance(v, np.generic):
        return ("npscalar", str(v.dtype), v.tobytes())
    return (type(v).__name__, repr(v))


def diff_array(before, after, exempt_content=False):
    out = []
    for k in before:
        if exempt_content and k in CONTENT_FIELDS:
            continue
        if before[k] != after[k]:
            out.append(k)
    return out


# ------------------------------------------------------------------------------------------------ jobs
# A job is one concrete call of a public einx function:
#   {"fn", "desc", "args": [base arrays], "kwargs", "backend", "exempt": index of the in-place target or None,
#    "zero_fill": indices of coordinate arguments, "family", "note"}

def job_sig(job, arg, layout, what):
    return "call:einx.{}({!r}) shapes={} dtypes={} kwargs={} backend={} | {} layout={} changed={}".format(
        job["fn"], job["desc"], [list(np.shape(a)) for a in job["args"]], [str(np.asarray(a).dtype) for a in job["args"]],
        sorted((k, type(v).__name__) for k, v in job["kwargs"].items()), job.get("backend"), arg, layout, what)


def invoke(job, args, kwargs, graph=False):
    import einx
    f = getattr(einx, job["fn"])
    kw = dict(kwargs)
    if job.get("backend") is not None:
        kw["backend"] = job["backend"]
    if graph:
        kw["graph"] = True
    with warnings.catch_warnings():
        warnings.simplefilter("ignore")
        with np.errstate(all="ignore"):
            return f(job["desc"], *args, **kw)


def run_layouts(job, layouts, rng, graph=False):
    """One call of the job with argument k in layout layouts[k].  -> (outcome, findings, args as passed)
    outcome: ("ok", result) | ("raised", exception); findings: [(argument label, layout, [changed fields])]"""
    args = [layout_of(a, l, rng, zero_fill=(k in job.get("zero_fill", ()))) if isinstance(a, np.ndarray) else a
            for k, (a, l) in enumerate(zip(job["args"], layouts))]
    kwargs = copy.deepcopy(job["kwargs"])
    keep = [owning_base(a) for a in args if isinstance(a, np.ndarray)]   # keep every base alive across the call
    before_a = [snap_array(a) if isinstance(a, np.ndarray) else snap_value(a) for a in args]
    before_k = {k: snap_value(v) for k, v in kwargs.items()}
    keys_before = list(kwargs.keys())
    desc_before = str(job["desc"])
    try:
        outcome = ("ok", invoke(job, args, kwargs, graph=graph))
    except Exception as e:  # the outcome of the call is data here; C09 speaks about the arguments either way
        outcome = ("raised", e)
    findings = []
    for k, (a, b) in enumerate(zip(args, before_a)):
        if isinstance(a, np.ndarray):
            # the in-place exemption of the *_at target applies to executing calls only: a graph=True request returns
            # source text and must leave every argument untouched
            d = diff_array(b, snap_array(a), exempt_content=(job.get("exempt") == k and not graph))
        else:
            d = [] if snap_value(a) == b else ["value"]
        if d:
            findings.append((f"argument {k}", layouts[k], d))
    for k, v in kwargs.items():
        if snap_value(v) != before_k.get(k):
            findings.append((f"keyword {k}", type(v).__name__, ["value"]))
    if list(kwargs.keys()) != keys_before:
        findings.append(("keyword mapping", "dict", ["keys"]))
    if job["desc"] != desc_before:
        findings.append(("description", "str", ["value"]))
    del keep
    return outcome, findings, args


def variants_of_kwargs(call_kwargs, rng, ell_rank=None, ell_name=None):
    """Sizes as int / numpy scalar / 0-d array, ellipsis sizes as list / tuple / array, shift as list / array."""
    out = {}
    for k, v in call_kwargs.items():
        if k == "shift":
            r = rng.random()
            if isinstance(v, tuple) and r < 0.3:
                v = list(v)
            elif isinstance(v, tuple) and r < 0.5:
                v = np.asarray(v, dtype=np.int64)
            out[k] = v
            continue
        if isinstance(v, bool) or not isinstance(v, int):
            out[k] = v
            continue
        if k == ell_name and ell_rank:
            form = rng.choice(["int", "list", "tuple", "array", "array32"])
            out[k] = {"int": v, "list": [v] * ell_rank, "tuple": (v,) * ell_rank, "array": np.asarray([v] * ell_rank, dtype=np.int64),
                      "array32": np.asarray([v] * ell_rank, dtype=np.int32)}[form]
            continue
        form = rng.choice(["int", "int", "np.int64", "0d"])
        out[k] = {"int": v, "np.int64": np.int64(v), "0d": np.asarray(v)}[form]
    return out


def gen_ellipsis_sizes(rng):
    """`(a c)... -> a... c...` with the sizes of `c` given per ellipsis position as a list / tuple / array whose entries are
    not in ascending order (so that sorting, reversing or popping the caller's sequence would show)."""
    k = rng.randint(1, 3)
    cs = sorted((rng.choice([1, 2, 3, 4]) for _ in range(k)), reverse=True)
    if k >= 2 and rng.random() < 0.3:
        rng.shuffle(cs)
    if k >= 2 and rng.random() < 0.25:
        cs = [cs[0]] * k
    as_ = [rng.choice([1, 2, 3]) for _ in range(k)]
    shape = tuple(a * c for a, c in zip(as_, cs))
    form = rng.choice(["list", "list", "tuple", "array", "array32", "nested"])
    val = {"list": list(cs), "tuple": tuple(cs), "array": np.asarray(cs, dtype=np.int64), "array32": np.asarray(cs, dtype=np.int32),
           "nested": [np.int64(c) for c in cs]}[form]
    desc = rng.choice(["(a c)... -> a... c...", "(a c)... -> c... a...", "b (a c)... -> (a...) b c..."])
    if desc.startswith("b"):
        shape = (rng.choice([1, 2]),) + shape
    return {"op": "id", "family": "id", "desc": desc, "shapes": [shape], "kwargs": {"c": val}, "note": ["ellipsis-sizes"]}


def job_from_call(call, rng, backend):
    mode = "iota" if rng.random() < 0.5 else "rand"
    args = gen.make_args(call, rng, mode)
    zero_fill = set()
    for k in range(len(args)):
        if call["family"] == "get_at" and k >= 1:
            zero_fill.add(k)
            continue
        r = rng.random()
        if r < 0.35:
            args[k] = args[k].astype(np.float64)
        elif r < 0.45:
            args[k] = args[k].astype(np.float32)
        elif r < 0.5:
            args[k] = args[k].astype(np.int32)
    ell_rank = ell_name = None
    if call.get("note") == ["ellipsis", "group"]:
        ell_rank, ell_name = len(call["shapes"][0]), next(iter(call["kwargs"]))
    kwargs = variants_of_kwargs(call["kwargs"], rng, ell_rank, ell_name) if call.get("note") != ["ellipsis-sizes"] else dict(call["kwargs"])
    return {"fn": call["op"], "desc": call["desc"], "args": args, "kwargs": kwargs, "backend": backend if "backend" not in call else call["backend"],
            "exempt": None, "zero_fill": zero_fill, "family": call["family"], "note": call.get("note", [])}


def job_from_case(case, mode, backend, rng):
    args = [case["tdata"].copy()] + [c.copy() for c in case["cdata"]] + [case["udata"].copy()]
    r = rng.random()
    if r < 0.4:
        args[0] = args[0].astype(np.float64)
        args[-1] = args[-1].astype(np.float64)
    elif r < 0.5:
        args[-1] = args[-1].astype(np.int32)          # updates of a narrower type than the target
    kwargs = variants_of_kwargs(dict(case["sizes"]), rng)
    return {"fn": c14.OPNAME[mode], "desc": c14.description(case), "args": args, "kwargs": kwargs, "backend": backend, "exempt": 0,
            "zero_fill": set(range(1, len(args) - 1)), "family": "update_at", "note": []}


def solve_jobs(job):
    """The solve_axes / solve_shapes / matches variants of a job (same tensors, same size parameters)."""
    desc = job["desc"].split("->")[0].strip()
    kw = {k: v for k, v in job["kwargs"].items() if k not in ("shift", "keepdims")}
    out = []
    for fn in ("solve_axes", "solve_shapes", "matches"):
        out.append({**job, "fn": fn, "desc": desc, "kwargs": kw, "backend": None, "exempt": None})
    return out


def exc_text(e):
    lines = [l for l in str(e).splitlines() if l.strip()]
    line = (lines[-1] if type(e).__name__ == "CallOperationError" else lines[0]) if lines else ""
    return f"{type(e).__name__}: {line.strip()[:160]}"


def examine(ctx, job, rng, layout_sets, graph_too=True, solve_too=True):
    """Runs the job in the given layout assignments.  -> list of (job, argument, layout, changed, layouts, graph?)"""
    found = []
    outcomes = {}
    for layouts in layout_sets:
        outcome, findings, _ = run_layouts(job, layouts, rng)
        outcomes[tuple(layouts)] = outcome
        ctx.count("oracle_runs")
        ctx.count("oracle_outcome:" + outcome[0])
        for (arg, lay, d) in findings:
            found.append({"job": job, "arg": arg, "layout": lay, "changed": d, "layouts": list(layouts), "graph": False})
    # read-only coordinate / update / operand arrays must not make a call fail that succeeds with writeable arrays
    n = len(job["args"])
    base = outcomes.get(tuple(["contiguous"] * n))
    if base is not None and base[0] == "ok":
        lays = ["contiguous" if k == job.get("exempt") else "readonly" for k in range(n)]
        outcome = outcomes.get(tuple(lays))
        if outcome is None:
            outcome, findings, _ = run_layouts(job, lays, rng)
            ctx.count("oracle_runs")
            for (arg, lay, d) in findings:
                found.append({"job": job, "arg": arg, "layout": lay, "changed": d, "layouts": lays, "graph": False})
        if outcome[0] == "raised":
            e = outcome[1]
            found.append({"job": job, "arg": "read-only non-target arguments", "layout": "readonly",
                          "changed": ["call fails: " + exc_text(e)], "layouts": lays, "graph": False})
    if graph_too:
        lays = list(layout_sets[0])
        outcome, findings, _ = run_layouts(job, lays, rng, graph=True)
        ctx.count("oracle_runs_graph=True")
        for (arg, lay, d) in findings:
            found.append({"job": job, "arg": arg, "layout": lay, "changed": d, "layouts": lays, "graph": True})
    if solve_too:
        for sj in solve_jobs(job):
            lays = list(rng.choice(layout_sets))
            outcome, findings, _ = run_layouts(sj, lays, rng)
            ctx.count("oracle_runs_" + sj["fn"])
            for (arg, lay, d) in findings:
                found.append({"job": sj, "arg": arg, "layout": lay, "changed": d, "layouts": lays, "graph": False})
    return found


def layout_sets_for(n, rng, quick):
    sets = [[l] * n for l in LAYOUTS]
    if n > 1:
        for _ in range(3 if quick else 6):
            sets.append([rng.choice(LAYOUTS) for _ in range(n)])
    return sets


def encode_value(v):
    if isinstance(v, np.ndarray):
        return {"t": "ndarray", "dtype": str(v.dtype), "shape": list(v.shape), "v": v.tolist()}
    if isinstance(v, np.generic):
        return {"t": "npscalar", "dtype": str(v.dtype), "v": v.item()}
    if isinstance(v, (list, tuple)):
        return {"t": type(v).__name__, "v": [encode_value(x) for x in v]}
    return {"t": type(v).__name__, "v": v}


def decode_value(e):
    if e["t"] == "ndarray":
        return np.asarray(e["v"], dtype=e["dtype"]).reshape(e["shape"])
    if e["t"] == "npscalar":
        return np.dtype(e["dtype"]).type(e["v"])
    if e["t"] == "list":
        return [decode_value(x) for x in e["v"]]
    if e["t"] == "tuple":
        return tuple(decode_value(x) for x in e["v"])
    return e["v"]


def replay_dict(f):
    job = f["job"]
    return {"kind": "an argument of the call was modified", "function": "einx." + job["fn"], "description": job["desc"],
            "backend": job.get("backend"), "graph": f["graph"],
            "arguments": [{"shape": list(np.shape(a)), "dtype": str(np.asarray(a).dtype), "layout": l, "data": np.asarray(a).tolist()}
                          for a, l in zip(job["args"], f["layouts"])],
            "kwargs": {k: encode_value(v) for k, v in job["kwargs"].items()},
            "exempt_argument": job.get("exempt"), "zero_fill": sorted(job.get("zero_fill", ())),
            "modified": f["arg"], "layout": f["layout"], "changed_fields": f["changed"],
            "how_to_replay": "tools/check.py C09 --replay <this file>"}


def total_size(job):
    return sum(int(np.size(a)) for a in job["args"])


def report(ctx, f, shrink_with=None):
    """Shrink (smaller sizes, same kind of call) and record the violation."""
    best = f
    if shrink_with is not None:
        try:
            for cand in shrink_with():
                if total_size(cand["job"]) < total_size(best["job"]):
                    best = cand
        except core.MachineryError:
            raise
        except Exception:
            pass
    ctx.count("violations_found")
    ctx.violation(job_sig(best["job"], best["arg"], best["layout"], ",".join(best["changed"])) + (" graph=True" if best["graph"] else ""), replay_dict(best))


def shrink_generated(ctx, call, f, rng):
    """Candidates: fresh calls of the same generator/op with sizes from {1, 2}; the failing ones."""
    name = "gen_" + {"preserve_shape": "preserve", "argfind": "argfind"}.get(call["family"], call["family"])
    cands = [g for g, _ in gen.GENS if g.__name__ == name or (call["family"] == "id" and g.__name__.startswith("gen_id"))]
    old = gen.SIZES
    out = []
    try:
        gen.SIZES = [1, 2, 2, 3]
        for _ in range(60):
            c = rng.choice(cands)(rng)
            if c["op"] != call["op"]:
                continue
            job = job_from_call(c, rng, f["job"].get("backend"))
            if f["job"]["fn"] in ("solve_axes", "solve_shapes", "matches"):
                job = [j for j in solve_jobs(job) if j["fn"] == f["job"]["fn"]][0]
            n = len(job["args"])
            lays = [f["layout"] if f["layout"] in LAYOUTS else "contiguous"] * n
            outcome, findings, _ = run_layouts(job, lays, rng, graph=f["graph"])
            for (arg, lay, d) in findings:
                out.append({"job": job, "arg": arg, "layout": lay, "changed": d, "layouts": lays, "graph": f["graph"]})
            if len(out) >= 3:
                break
    finally:
        gen.SIZES = old
    return out


# ------------------------------------------------------------------------------------------------ T-str: writes on real graphs

def capture_graph(job):
    """Trace the job (caches cleared) on contiguous arguments.  -> (outcome, record | None, args passed)"""
    graphcap.clear_caches()
    args = [np.array(a, copy=True) if isinstance(a, np.ndarray) else a for a in job["args"]]
    with graphcap.capture() as cap:
        try:
            outcome = ("ok", invoke(job, args, copy.deepcopy(job["kwargs"])))
        except Exception as e:
            outcome = ("raised", e)
    return outcome, (cap.records[-1] if cap.records else None), args


def shares(a, b):
    try:
        return bool(np.shares_memory(a, b, max_work=100000))
    except Exception:  # numpy: problem too hard -> bounds check only (over-approximation is fine for a may-alias claim)
        return bool(np.may_share_memory(a, b))


def check_graph(ctx, drv, job, outcome, rec, args):
    """T-str for one traced graph.  Returns True when the graph is flagged."""
    if rec is None or rec.get("post") is None:
        ctx.count("tstr:no-capture")
        return False
    gj, _ = graphcap.graph_to_json(rec["post"])
    r = drv.ask({"kind": "writes", "graph": gj, "nin": sum(1 for a in job["args"] if a is not None)})
    is_at = job["fn"] in AT_OPS
    label = f"einx.{job['fn']}({job['desc']!r}) shapes={[list(np.shape(a)) for a in job['args']]} backend={job.get('backend')}"
    if "unsupported" in r:
        ctx.count("tstr:unsupported")
        ctx.tie_broken("alias-table:no-row", f"{label}: {r['unsupported']}\ncode:\n{rec.get('code')}")
        return True
    ctx.count(f"tstr:{'at' if is_at else 'other'}:writes={r['writes']}:inplace_nodes={min(r['inplace'], 2)}")
    ctx.extra["graphs_analysed"] = ctx.extra.get("graphs_analysed", 0) + 1
    flagged = False
    allowed = [0] if is_at else []
    bad = [i for i in r["writes"] if i not in allowed]
    if bad:
        flagged = True
        ctx.tie_broken("writes:" + ("at_only_first" if is_at else "noWrite"),
                       f"{label}: the traced graph may write input(s) {bad} (writes = {r['writes']})\ncode:\n{rec.get('code')}")
    # alias_sound against the real run: a result that shares memory with argument k must have k among its roots
    if outcome[0] == "ok":
        res = outcome[1]
        outs = [o for o in (res if isinstance(res, (tuple, list)) else [res]) if isinstance(o, np.ndarray)]
        for k, a in enumerate(args):
            if isinstance(a, np.ndarray) and a.size > 0 and any(shares(o, a) for o in outs):
                ctx.count("tstr:result-aliases-argument")
                if k not in r["out_roots"]:
                    flagged = True
                    ctx.tie_broken("alias-table:out_roots", f"{label}: the result shares memory with argument {k}, the analysis says roots {r['out_roots']}\ncode:\n{rec.get('code')}")
    return flagged


# ------------------------------------------------------------------------------------------------ alias-table conformance

def _arr(rng, shape, dtype=np.int64, lo=-9, hi=9):
    n = int(np.prod(shape, dtype=np.int64)) if len(shape) else 1
    return np.asarray([rng.randint(lo, hi) for _ in range(n)], dtype=dtype).reshape(shape)


def _shape(rng, lo=0, hi=3, sizes=(1, 2, 2, 3)):
    return [rng.choice(sizes) for _ in range(rng.randint(lo, hi))]


def _factor(rng, n):
    f, m = [], n
    while m > 1 and rng.random() < 0.7:
        d = rng.choice([k for k in range(2, m + 1) if m % k == 0])
        f.append(d)
        m //= d
    f.append(m)
    while rng.random() < 0.3:
        f.insert(rng.randrange(len(f) + 1), 1)
    rng.shuffle(f)
    return f


UFUNC1 = ["exp", "log", "negative"]
REDUCE = ["sum", "mean", "var", "std", "prod", "count_nonzero", "all", "any", "min", "max"]


def table_case(fname, rng):
    """-> (callable f(*arrays) -> result, [arrays]) for one random call of the numpy function, or None when there is no generator."""
    name = fname[len("numpy."):]
    if name == "asarray":
        x = _arr(rng, _shape(rng))
        return (lambda x: np.asarray(x)), [x]
    if name == "reshape":
        x = _arr(rng, _shape(rng))
        s = list(x.shape) if rng.random() < 0.2 else _factor(rng, x.size)
        return (lambda x: np.reshape(x, s)), [x]
    if name == "transpose":
        x = _arr(rng, _shape(rng))
        p = list(range(x.ndim))
        rng.shuffle(p)
        return (lambda x: np.transpose(x, p)), [x]
    if name == "broadcast_to":
        x = _arr(rng, _shape(rng))
        s = [rng.choice([2, 3]) if d == 1 and rng.random() < 0.6 else d for d in x.shape]
        s = [rng.choice([1, 2]) for _ in range(rng.randint(0, 2))] + s
        return (lambda x: np.broadcast_to(x, s)), [x]
    if name == "diagonal":
        s = _shape(rng, 2, 4)
        a1, a2 = rng.sample(range(len(s)), 2)
        s[a2] = s[a1]
        return (lambda x: np.diagonal(x, axis1=a1, axis2=a2)), [_arr(rng, s)]
    if name == "split":
        s = _shape(rng, 1, 3, sizes=(2, 3, 4))
        ax = rng.randrange(len(s))
        cuts = sorted(rng.sample(range(0, s[ax] + 1), rng.randint(0, 2)))
        return (lambda x: np.split(x, cuts, axis=ax)), [_arr(rng, s)]
    if name == "flip":
        s = _shape(rng, 1, 3)
        ax = tuple(sorted(rng.sample(range(len(s)), rng.randint(1, len(s)))))
        return (lambda x: np.flip(x, axis=ax)), [_arr(rng, s)]
    if name == "ndarray.__getitem__":
        s = _shape(rng, 1, 3, sizes=(2, 3))
        if rng.random() < 0.6:
            key = tuple(rng.randrange(d) if rng.random() < 0.4 else (slice(None, None, -1) if rng.random() < 0.2 else slice(None)) for d in s)
            key = tuple(k for kk in key for k in (([None] if rng.random() < 0.15 else []) + [kk]))
            return (lambda x: x[key]), [_arr(rng, s)]
        idx = _arr(rng, _shape(rng, 0, 2), lo=0, hi=s[0] - 1)
        return (lambda x, i: x[(i,) + (slice(None),) * (x.ndim - 1)]), [_arr(rng, s), idx]
    if name == "einsum":
        k = rng.randrange(5)
        if k == 0:
            return (lambda x: np.einsum("ij->ji", x)), [_arr(rng, [rng.choice([1, 2, 3]), rng.choice([1, 2, 3])])]
        if k == 1:
            n = rng.choice([1, 2, 3])
            return (lambda x: np.einsum("ii->i", x)), [_arr(rng, [n, n])]
        if k == 2:
            return (lambda x: np.einsum("ij->i", x)), [_arr(rng, [2, 3])]
        if k == 3:
            return (lambda x: np.einsum("ijk->kij", x)), [_arr(rng, [2, 1, 3])]
        return (lambda x, y: np.einsum("ij,jk->ik", x, y)), [_arr(rng, [2, 3]), _arr(rng, [3, 2])]
    if name == "arange":
        n = rng.randint(0, 4)
        return (lambda: np.arange(n, dtype="int32")), []
    if name == "concatenate":
        s = _shape(rng, 1, 3)
        ax = rng.randrange(len(s))
        xs = []
        for _ in range(rng.randint(1, 3)):
            t = list(s)
            t[ax] = rng.choice([1, 2])
            xs.append(_arr(rng, t))
        return (lambda *xs: np.concatenate(list(xs), axis=ax)), xs
    if name in UFUNC1:
        x = _arr(rng, _shape(rng), dtype=np.float64, lo=1, hi=9)
        return (lambda x: getattr(np, name)(x)), [x]
    if name == "where":
        s = _shape(rng)
        c = _arr(rng, s, lo=0, hi=1).astype(bool)
        return (lambda c, x, y: np.where(c, x, y)), [c, _arr(rng, s), _arr(rng, [d if rng.random() < 0.5 else 1 for d in s])]
    if name in gen.ELEMENTWISE2 or name == "divmod":
        s = _shape(rng)
        x = _arr(rng, s, lo=1, hi=9)
        if rng.random() < 0.25:
            lit = rng.randint(1, 5)
            return (lambda x: getattr(np, name)(x, lit)), [x]
        y = _arr(rng, [d if rng.random() < 0.6 else 1 for d in s][rng.randint(0, len(s)):], lo=1, hi=9)
        return (lambda x, y: getattr(np, name)(x, y)), [x, y]
    if name in REDUCE:
        s = _shape(rng)
        r = rng.random()
        if r < 0.15 or not s:
            ax = ()
        elif r < 0.6:
            ax = rng.randrange(len(s))
        else:
            ax = tuple(sorted(rng.sample(range(len(s)), rng.randint(1, len(s)))))
        kw = {"keepdims": True} if rng.random() < 0.3 else {}
        dt = np.float64 if name in ("mean", "var", "std") else np.int64
        return (lambda x: getattr(np, name)(x, axis=ax, **kw)), [_arr(rng, s, dtype=dt)]
    if name in ("argmax", "argmin"):
        s = _shape(rng, 1, 3)
        ax = rng.randrange(len(s))
        return (lambda x: getattr(np, name)(x, axis=ax)), [_arr(rng, s)]
    if name == "take":
        n = rng.choice([1, 2, 3])
        return (lambda x, i: np.take(x, i)), [_arr(rng, [n]), _arr(rng, _shape(rng), lo=0, hi=n - 1)]
    if name == "dot":
        n = rng.choice([1, 2, 3])
        return (lambda x, y: np.dot(x, y)), [_arr(rng, [n]), _arr(rng, [n])]
    if name == "matmul":
        b = _shape(rng, 0, 2, sizes=(1, 2))
        i, j, k = (rng.choice([1, 2, 3]) for _ in range(3))
        return (lambda x, y: np.matmul(x, y)), [_arr(rng, b + [i, j]), _arr(rng, b + [j, k])]
    if name == "roll":
        s = _shape(rng, 1, 3)
        ax = tuple(sorted(rng.sample(range(len(s)), rng.randint(1, len(s)))))
        sh = tuple(rng.randint(-2, 2) if rng.random() < 0.8 else 0 for _ in ax)
        return (lambda x: np.roll(x, shift=sh, axis=ax)), [_arr(rng, s)]
    if name in ("sort", "argsort"):
        s = _shape(rng, 1, 3)
        ax = rng.randrange(len(s))
        return (lambda x: getattr(np, name)(x, axis=ax)), [_arr(rng, s)]
    if name in ("put", "add.at", "subtract.at"):
        n = rng.choice([1, 2, 3, 4])
        s = _shape(rng, 0, 2)
        idx = _arr(rng, s, lo=0, hi=n - 1)
        val = _arr(rng, s, lo=1, hi=9)
        if name == "put":
            return (lambda x, i, v: np.put(x, i, v)), [_arr(rng, [n]), idx, val]
        uf = getattr(np, name.split(".")[0])
        return (lambda x, i, v: uf.at(x, i, v)), [_arr(rng, [n]), idx, val]
    return None


def table_conformance(ctx, drv, n_per_row):
    rng = ctx.rng
    rows = drv.ask({"kind": "alias_table"})["rows"]
    ctx.extra["alias_table_rows"] = len(rows)
    witnessed = {}
    for row in rows:
        fname, eff = row["f"], row["effect"]
        if table_case(fname, rng) is None:
            raise core.MachineryError(f"alias table row {fname} has no conformance generator in tools/props/c09.py")
        bad = 0
        for it in range(n_per_row):
            f, base_args = table_case(fname, rng)
            lay = LAYOUTS[it % 4] if rng.random() < 0.7 else None
            target = eff.get("target") if eff["e"] == "inplace" else None
            args = []
            for k, a in enumerate(base_args):
                l = lay or rng.choice(LAYOUTS)
                if k == target and l in ("broadcast", "readonly"):
                    l = "contiguous"            # the written argument must be writeable for the primitive to run at all
                args.append(layout_of(a, l, rng))
            before = [snap_array(a) for a in args]
            try:
                with warnings.catch_warnings():
                    warnings.simplefilter("ignore")
                    with np.errstate(all="ignore"):
                        res = f(*args)
            except Exception as e:
                raise core.MachineryError(f"conformance generator of {fname} produced an invalid call: {type(e).__name__}: {e}")
            outs = [o for o in (res if isinstance(res, (tuple, list)) else [res]) if isinstance(o, np.ndarray)]
            ctx.count("table:" + eff["e"])
            ctx.case(["table", fname, [list(a.shape) for a in args], [b["strides"] for b in before], it], nontrivial=any(a.size > 1 for a in args))
            problem = None
            if eff["e"] == "inplace":
                if res is not None:
                    problem = f"returns {type(res).__name__}, the table says the traced result is the written argument"
                for k, (a, b) in enumerate(zip(args, before)):
                    d = diff_array(b, snap_array(a), exempt_content=(k == target))
                    if d:
                        problem = f"argument {k} changed ({d}); the table says only argument {target} is written"
                    if k == target and snap_array(a)["bytes"] != b["bytes"]:
                        witnessed[fname] = True
            else:
                for k, (a, b) in enumerate(zip(args, before)):
                    if diff_array(b, snap_array(a)):
                        problem = f"argument {k} changed by a function the table lists as {eff['e']}"
                sharing = [k for k, a in enumerate(args) if a.size > 0 and any(o.size > 0 and shares(o, a) for o in outs)]
                if eff["e"] == "fresh":
                    if sharing:
                        problem = f"result shares memory with argument(s) {sharing}; the table says fresh"
                    else:
                        # write-through: scribbling over the result must not reach any argument
                        for o in outs:
                            if o.flags.writeable and o.size > 0:
                                o[...] = np.ones((), dtype=o.dtype)
                        for k, (a, b) in enumerate(zip(args, before)):
                            if diff_array(b, snap_array(a)):
                                problem = f"writing through the result changed argument {k}; the table says fresh"
                else:
                    # positions in the table refer to the traced call's positional arguments; the generators pass the array
                    # arguments in that order (einsum: position 0 is the subscript string)
                    offset = 1 if fname == "numpy.einsum" else 0
                    listed = [k - offset for k in eff["args"]]
                    extra = [k for k in sharing if k not in listed]
                    if extra:
                        problem = f"result shares memory with argument(s) {extra}, the table lists only {eff['args']}"
                    if sharing:
                        witnessed[fname] = True
            if problem:
                bad += 1
                if bad <= 2:
                    ctx.tie_broken("alias-table:numpy-conformance", f"{fname} on shapes {[list(a.shape) for a in args]} strides {[b['strides'] for b in before]}: {problem}")
    never = [r["f"] for r in rows if r["effect"]["e"] in ("view", "inplace") and not witnessed.get(r["f"])]
    ctx.extra["view_or_inplace_rows_never_witnessed"] = never
    if never:
        ctx.notes.append(f"alias table rows never observed to alias/write on this run (sound over-approximations): {never}")


# ------------------------------------------------------------------------------------------------ run

def directed_calls():
    """Deterministic calls in which the elementary operation is applied to a RESTRUCTURED input (a split flattened axis, a
    dropped unit axis, a diagonal, a transposition): the tensor handed to the backend function is then a reshape/transpose
    view of the caller's array, so an in-place backend call on an "intermediate" value would write through to the argument."""
    out = []
    forms = [("a ([b] c)", [(3, 8)], {"c": 2}), ("(a [b])", [(6,)], {"a": 2}), ("a 1 [b]", [(3, 1, 4)], {}), ("([b] a) c", [(6, 2)], {"a": 2}),
             ("a [b] c -> c [b] a", [(2, 3, 4)], {}), ("(a [b]) 1 c", [(6, 1, 2)], {"a": 3})]
    for op in ("sort", "argsort", "flip", "softmax", "log_softmax", "roll"):
        for desc, shapes, kw in forms:
            k = dict(kw)
            if op == "roll":
                k["shift"] = 1
            out.append({"op": op, "family": "preserve_shape", "desc": desc, "shapes": shapes, "kwargs": k, "note": ["directed", "restructured-input"]})
    for op in ("sum", "max", "var", "any", "count_nonzero", "logsumexp"):
        for desc, shapes, kw in forms[:4]:
            out.append({"op": op, "family": "reduce", "desc": desc, "shapes": shapes, "kwargs": dict(kw), "note": ["directed", "restructured-input"]})
    for op in ("argmax", "argmin"):
        out.append({"op": op, "family": "argfind", "desc": "a ([b] c) -> [1] a c", "shapes": [(3, 8)], "kwargs": {"c": 2}, "note": ["directed", "restructured-input"]})
        out.append({"op": op, "family": "argfind", "desc": "(a [b]) 1 -> a [1]", "shapes": [(6, 1)], "kwargs": {"a": 2}, "note": ["directed", "restructured-input"]})
    for desc, shapes, kw in [("(a b) c -> c b a", [(6, 2)], {"a": 2}), ("a 1 b -> b a", [(2, 1, 3)], {}), ("a a b -> b a", [(3, 3, 2)], {}),
                             ("a b a c -> c b a", [(2, 3, 2, 4)], {}), ("(a + b) c -> c a, c b", [(5, 2)], {"a": 2})]:
        out.append({"op": "id", "family": "id", "desc": desc, "shapes": shapes, "kwargs": dict(kw), "note": ["directed", "restructured-input"]})
    for op in ("add", "maximum", "logical_and"):
        out.append({"op": op, "family": "elementwise", "desc": "(a b), b 1 -> a b", "shapes": [(6,), (3, 1)], "kwargs": {"a": 2}, "note": ["directed", "restructured-input"]})
        out.append({"op": op, "family": "elementwise", "desc": "a b, b a, a -> b a", "shapes": [(2, 3), (3, 2), (2,)], "kwargs": {}, "note": ["directed", "restructured-input"]})
    return out


def run(ctx):
    rng = ctx.rng
    facts = ctx.facts.get("Alias", {})
    ctx.extra["rule"] = (
        "calls: the shared grammar-directed generator lib/gen.py (id with grouping/diagonal/1-axes/broadcast/concat/split/ellipsis, reductions, elementwise, dot, "
        "get_at, argmax/argmin, flip/roll/sort/argsort/softmax) on backends default/numpy/numpy.numpylike/numpy.einsum, plus set_at/add_at/subtract_at cases of "
        "props/c14.py's generator on numpy and numpy.numpylike; dtypes int64/int32/float32/float64; sizes passed as int, numpy scalar, 0-d array, list, tuple or array.  "
        "Every call is traced once (graph analysed in Lean: writes / outRoots) and executed with all arguments contiguous, all transposed views, all zero-stride "
        "read-only broadcast views, all read-only, and 3-6 random mixtures, and as graph=True, solve_axes, solve_shapes, matches; every argument and keyword value is "
        "snapshotted before and after (base-buffer bytes, own bytes, shape, strides, dtype, flags, data pointer, base identity).  Table conformance: random calls of "
        "every alias-table row in the same four layouts.  non-trivial = at least one argument with more than one element; distinct by (function, description, "
        "shapes, dtypes, keyword types, backend)")
    ctx.assumptions.append("numpy's view/copy/in-place behaviour is the table Einx.Alias.aliasTable (conformance-tested against real numpy on this run, not verified)")
    ctx.assumptions.append("the compiled function executes the applications reachable from the graph output, each in-place statement once, in a dependency-respecting order (C04)")
    ctx.assumptions.append("objects are whole buffers: a write to any part of a buffer counts as a modification of every array sharing it (over-approximation)")
    ctx.extra["extracted"] = {"inplace": facts.get("inplace"), "traced_functions": len(facts.get("traced", [])),
                              "inplace_target_is_first_arg": facts.get("inplace_target_is_first_arg")}
    drv = ctx.driver() if ctx.driver_ok else None

    # -- alias table against real numpy
    if drv is not None:
        table_conformance(ctx, drv, 40 if ctx.quick else 300)

    broken_before = bool(ctx.broken)
    n_calls = 350 if ctx.quick else 4500
    n_cases = 40 if ctx.quick else 500
    if broken_before:
        n_calls, n_cases = (800, 90) if ctx.quick else (7000, 800)
    found = 0
    flagged_jobs = []

    def handle(job, shrink_with):
        nonlocal found
        n = len(job["args"])
        outcome, rec, args = capture_graph(job)
        ctx.count("traced:" + outcome[0])
        flagged = False
        if drv is not None and rec is not None:
            flagged = check_graph(ctx, drv, job, outcome, rec, args)
        sets = layout_sets_for(n, rng, ctx.quick and not flagged)
        fs = examine(ctx, job, rng, sets)
        if fs and found < 4:
            found += 1
            report(ctx, fs[0], (lambda: shrink_with(fs[0])) if shrink_with else None)
        elif flagged:
            flagged_jobs.append(job)
        return outcome

    # -- the shared call stream (all families), preceded by the directed restructured-input calls on two backends
    directed = [(c, b) for c in directed_calls() for b in (None, "numpy.numpylike")]
    for i in range(-len(directed), n_calls):
        if i < 0:
            call, backend = directed[i + len(directed)]
            ctx.count("directed-calls")
        else:
            call = gen.gen_call(rng) if rng.random() < 0.92 else gen_ellipsis_sizes(rng)
            backend = rng.choice(BACKENDS)
        job = job_from_call(call, rng, backend)
        outcome = handle(job, (lambda f, call=call: shrink_generated(ctx, call, f, rng)) if call.get("note") != ["ellipsis-sizes"] else None)
        ctx.case(job_sig(job, "-", "-", "-"), nontrivial=outcome[0] == "ok" and any(np.size(a) > 1 for a in job["args"]))
        ctx.count("family:" + call["family"] + (":ellipsis-sizes" if call.get("note") == ["ellipsis-sizes"] else ""))
        if 0 <= i < 3:
            ctx.sample({"function": "einx." + job["fn"], "description": job["desc"], "shapes": [list(np.shape(a)) for a in job["args"]],
                        "kwargs": {k: repr(v) for k, v in job["kwargs"].items()}, "backend": job["backend"], "outcome": outcome[0]})
        if found >= 4:
            break       # concrete failing inputs are in hand

    # -- indexed updates
    for i in range(n_cases):
        if found >= 4:
            break
        case = c14.gen_case(rng, small=(i % 3 == 0))
        if 0 in case["sizes"].values():
            ctx.count("zero_sized_update")
        for mode in c14.MODES:
            backend = rng.choice(c14.BACKENDS)
            job = job_from_case(case, mode, backend, rng)

            def shrink_with(f, case=case, mode=mode, backend=backend):
                def pred(c):
                    j = job_from_case(c, mode, backend, rng)
                    j = {**j, "fn": f["job"]["fn"]} if f["job"]["fn"] not in AT_OPS else j
                    if j["fn"] not in AT_OPS:
                        j = [s for s in solve_jobs(j) if s["fn"] == f["job"]["fn"]][0]
                    lays = [f["layout"] if f["layout"] in LAYOUTS else "contiguous"] * len(j["args"])
                    return bool(run_layouts(j, lays, rng, graph=f["graph"])[1])
                small = c14.shrink(case, pred, budget=80)
                j = job_from_case(small, mode, backend, rng)
                if f["job"]["fn"] not in AT_OPS:
                    j = [s for s in solve_jobs(j) if s["fn"] == f["job"]["fn"]][0]
                lays = [f["layout"] if f["layout"] in LAYOUTS else "contiguous"] * len(j["args"])
                outc, findings, _ = run_layouts(j, lays, rng, graph=f["graph"])
                return [{"job": j, "arg": a, "layout": l, "changed": d, "layouts": lays, "graph": f["graph"]} for (a, l, d) in findings]
            outcome = handle(job, shrink_with)
            ctx.case(job_sig(job, "-", "-", "-"), nontrivial=outcome[0] == "ok" and any(np.size(a) > 1 for a in job["args"]))
            ctx.count("family:update_at")
            if i == 0 and mode == "set":
                ctx.sample({"function": "einx." + job["fn"], "description": job["desc"], "shapes": [list(np.shape(a)) for a in job["args"]],
                            "kwargs": {k: repr(v) for k, v in job["kwargs"].items()}, "backend": job["backend"], "outcome": outcome[0]})

    # -- a flagged graph without an observed modification: hammer it (more layout mixtures, more data)
    for job in flagged_jobs[:20]:
        if found >= 4:
            break
        n = len(job["args"])
        for _ in range(12):
            sets = [[rng.choice(LAYOUTS) for _ in range(n)] for _ in range(4)]
            fs = examine(ctx, job, rng, sets, graph_too=False, solve_too=False)
            if fs:
                found += 1
                report(ctx, fs[0])
                break
    ctx.extra["traces_validated_against_impl"] = ctx.extra.get("graphs_analysed", 0)
    raised = ctx.hist.get("traced:raised", 0)
    if raised > 0.25 * max(1, raised + ctx.hist.get("traced:ok", 0)):
        raise core.MachineryError(f"{raised} generated calls raise: the generator is out of step with the accepted notation")


def replay(ctx, path):
    import random
    with open(path) as f:
        doc = json.load(f)
    r = doc["replay"]
    if "arguments" not in r:
        print(json.dumps(r, indent=1)[:4000])
        return 0
    rng = random.Random(doc.get("seed", 0))
    args = [np.asarray(a["data"], dtype=a["dtype"]).reshape(a["shape"]) for a in r["arguments"]]
    kwargs = {k: decode_value(v) for k, v in r["kwargs"].items()}
    job = {"fn": r["function"].split(".", 1)[1], "desc": r["description"], "args": args, "kwargs": kwargs, "backend": r["backend"],
           "exempt": r["exempt_argument"], "zero_fill": set(r.get("zero_fill", []))}
    lays = [a["layout"] for a in r["arguments"]]
    print(f"einx.{job['fn']}({job['desc']!r}, ...) backend={job['backend']} layouts={lays} graph={r['graph']}")
    outcome, findings, _ = run_layouts(job, lays, rng, graph=r["graph"])
    print("outcome:", outcome[0], (exc_text(outcome[1]) if outcome[0] == "raised" else ""))
    if r["modified"] == "read-only non-target arguments":
        ref, _, _ = run_layouts(job, ["contiguous"] * len(lays), rng)
        print("outcome with writeable arguments:", ref[0])
        if ref[0] == "ok" and outcome[0] == "raised":
            print("STILL FAILS with read-only arguments that the operation must only read")
            return 1
    if findings:
        for (arg, lay, d) in findings:
            print(f"STILL MODIFIED: {arg} (layout {lay}): {d}")
        return 1
    print("no argument is modified on the current tree")
    return 0
