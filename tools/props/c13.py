"""C13 — tensor factories run once per call, with the resolved shape, only at run time.

Proof: Props/C13.lean about the model of `namedtensor_calltensorfactory` (Factory/Model.lean, parameterised by
Extracted/Factory.lean) and about the graph checker `factoryOK` (Factory/Check.lean): `checker_sound` — a graph
accepted by the checker invokes every factory exactly once, with exactly the solved shape and the model's
keywords, in every execution that runs each reachable node once (`Exec`).  Props/C13Exec.lean discharges `Exec` for the
program the code generator emits (`exec_from_compile`, with C04's `visitOrder_nodup`/`emit_once_wf`/`compile_correct_wf`) and
derives `factory_called_once_compiled`: exactly one call event per factory node in the event trace of the compiled program.

Tie (T-str): the REAL traced graph (before and after optimisation) of every generated call in which a non-empty
subset of the tensor positions is replaced by factories is decoded and checked by `factoryOK` in the Lean driver;
the pre-optimisation graph is checked for trace purity (every Call carries all inputs as dependencies); the
emitted source text is parsed and compared with the node list of `factory_model`.

Search (independent of Lean, on the real code): instrumented factories of every signature style log each
invocation (arguments, keywords, whether einx is inside `_construct_graph`).  Each case is executed cold, warm
with the same factories, warm with different factory objects of the same signature, with graph=True and in a
rejected form; plus interleaved sequences over several cases and misbehaving factories (wrong type, wrong shape,
raising).  Expected: one invocation per execution and factory position, with the tuple of Python ints of the
solved shape, only declared keywords, none while compiling / graph=True / rejected; the result equals the result
of passing the factories' return values as ordinary tensors; a misbehaving factory makes the call raise.
"""
import ast
import functools
import inspect
import itertools
import json
import os
import sys
import warnings

import numpy as np

from lib import core, exectie, gen, graphcap

EXTRACTORS = ["Factory"]
EXTRA_PROPS = ["C13Exec"]

_MISSING = "<not-passed>"          # default of the optional keywords (hashable, part of einx's cache key)
OPTIONAL = ("name", "arg_index", "signature")
STYLES = ["pos", "name", "idx_sig", "kwonly", "varkw", "mixed", "posonly_name", "varpos", "unrelated", "object", "partial", "all3", "req_name",
          "partial_plain", "partial_idx"]
BAD = ["list", "float", "none", "duck", "wrongshape", "raises"]


# ---------------------------------------------------------------- cache control

_CACHES = None


def _is_einx_cache(o):
    """Is this functools cache wrapper one of einx's?  (Follows __wrapped__/partial.func; robust to wrappers that
    copy the metadata of a functools.partial, which lib.graphcap.clear_caches does not see.)"""
    w = o
    for _ in range(8):
        w = getattr(w, "__wrapped__", None)
        if w is None:
            return False
        for cand in (w, getattr(w, "func", None)):
            m = getattr(cand, "__module__", None)
            if isinstance(m, str) and m.startswith("einx"):
                return True
            code = getattr(cand, "__code__", None)
            if code is not None and (os.sep + "einx" + os.sep) in code.co_filename:
                return True
    return False


def clear_caches(rescan=False):
    """Empty every compiled-function / parse cache of einx, so that the next call traces again."""
    import gc
    global _CACHES
    if _CACHES is None or rescan:
        _CACHES = []
        for o in gc.get_objects():
            try:
                if isinstance(o, functools._lru_cache_wrapper) and _is_einx_cache(o):
                    _CACHES.append(o)
            except Exception:
                pass
    for o in _CACHES:
        o.cache_clear()
    return len(_CACHES)


# ---------------------------------------------------------------- instrumented factories

def _in_construct():
    """Is einx currently inside `_construct_graph` (tracing, optimising or compiling)?  Seen from outside, by
    walking the interpreter stack."""
    f = sys._getframe(2)
    tail = os.path.join("frontend", "api.py")
    while f is not None:
        co = f.f_code
        if co.co_name == "_construct_graph" and co.co_filename.endswith(tail):
            return True
        if co.co_name in ("optimize", "compile") and co.co_filename.endswith("graphcap.py"):
            return True
        f = f.f_back
    return False


class Log:
    def __init__(self):
        self.entries = []

    def add(self, **kw):
        self.entries.append(kw)


def make_factory(style, rec):
    """A callable of the given signature style; `rec(shape, passed_keywords_dict, extra_positional)` produces the value."""
    M = _MISSING

    def kw(**d):
        return {k: v for k, v in d.items() if v is not M}
    if style == "pos":
        return lambda shape: rec(shape, {}, ())
    if style == "name":
        def f(shape, name=M):
            return rec(shape, kw(name=name), ())
        return f
    if style == "req_name":
        # `name` is declared without a default: the call only works if einx passes the keyword it declares
        def f(shape, name):
            return rec(shape, kw(name=name), ())
        return f
    if style == "idx_sig":
        def f(shape, arg_index=M, signature=M):
            return rec(shape, kw(arg_index=arg_index, signature=signature), ())
        return f
    if style == "all3":
        def f(shape, signature=M, name=M, arg_index=M):
            return rec(shape, kw(signature=signature, name=name, arg_index=arg_index), ())
        return f
    if style == "kwonly":
        def f(shape, *, name=M, arg_index=M):
            return rec(shape, kw(name=name, arg_index=arg_index), ())
        return f
    if style == "varkw":
        def f(shape, **kwargs):
            return rec(shape, dict(kwargs), ())
        return f
    if style == "mixed":
        def f(shape, name=M, **kwargs):
            return rec(shape, {**kw(name=name), **kwargs}, ())
        return f
    if style == "posonly_name":
        def f(shape, name=M, /):
            return rec(shape, {}, () if name is M else (name,))
        return f
    if style == "varpos":
        def f(shape, *rest, signature=M):
            return rec(shape, kw(signature=signature), rest)
        return f
    if style == "unrelated":
        def f(shape, dtype="int64", scale=1):
            return rec(shape, {}, ())
        return f
    if style == "object":
        class Init:
            def __call__(self, shape, arg_index=M):
                return rec(shape, kw(arg_index=arg_index), ())
        return Init()
    if style == "partial":
        def g(shape, name=M, tag=None):
            return rec(shape, kw(name=name), ())
        return functools.partial(g, tag="t")
    # further callables of the SAME class (functools.partial) whose wrapped functions declare other optional keywords
    if style == "partial_plain":
        def g(shape, tag=None):
            return rec(shape, {}, ())
        return functools.partial(g, tag="t")
    if style == "partial_idx":
        def g(shape, arg_index=M, signature=M, tag=None):
            return rec(shape, kw(arg_index=arg_index, signature=signature), ())
        return functools.partial(g, tag="t")
    raise AssertionError(style)


def declared_optional(f):
    """The property's own reading: the optional keywords a factory may receive are those it declares as
    keyword-capable parameters; all of them if it takes **kwargs."""
    try:
        ps = inspect.signature(f).parameters
    except ValueError:
        return set()
    if any(p.kind == inspect.Parameter.VAR_KEYWORD for p in ps.values()):
        return set(OPTIONAL)
    return {k for k in OPTIONAL if k in ps and ps[k].kind in (inspect.Parameter.POSITIONAL_OR_KEYWORD, inspect.Parameter.KEYWORD_ONLY)}


def sig_json(f):
    from einx._src.frontend.api import _get_signature
    return {"params": [[n, p.kind.name] for n, p in _get_signature(f).items()]}


def value_for(case, i, shape, generation):
    """Deterministic data for the factory at position i (a function of the shape it is asked for)."""
    shape = tuple(int(s) for s in shape)
    n = int(np.prod(shape)) if len(shape) else 1
    if case["call"]["family"] == "get_at" and i >= 1:
        return np.zeros(shape, dtype=np.int64)
    return (np.arange(n, dtype=np.int64) + 1 + 1000 * i + 17 * generation).reshape(shape)


class Duck:
    """Not a tensor of the backend, but array-like: has the right `.shape` and converts through `__array__`."""

    def __init__(self, a):
        self._a = a
        self.shape = a.shape

    def __array__(self, dtype=None, copy=None):
        return self._a if dtype is None else self._a.astype(dtype)


def bad_value(kind, shape, rng_choice):
    shape = tuple(shape)
    if kind == "duck":
        return Duck(np.ones(shape, dtype=np.int64))
    if kind == "list":
        return np.zeros(shape, dtype=np.int64).tolist()
    if kind == "float":
        return 1.0
    if kind == "none":
        return None
    if kind == "raises":
        raise RuntimeError("factory failure injected by the C13 harness")
    # wrong shape
    opts = [shape + (1,), (1,) + shape]
    if len(shape) >= 1:
        opts.append((shape[0] + 1,) + shape[1:])
    if len(shape) >= 2 and tuple(reversed(shape)) != shape:
        opts.append(tuple(reversed(shape)))       # same number of elements
    if len(shape) >= 2:
        opts.append((int(np.prod(shape)),))       # flattened, same number of elements
    s = opts[rng_choice % len(opts)]
    return np.ones(s, dtype=np.int64)


# ---------------------------------------------------------------- cases

def axis_sizes(solved):
    out = {}

    def go(e):
        if e["k"] == "axis":
            out[e["name"]] = e["value"]
        elif e["k"] in ("list", "concat"):
            for c in e["c"]:
                go(c)
        else:
            go(e["c"])
    for e in solved[0] + solved[1]:
        go(e)
    return out


def einx_call(case, tensor_args, extra_kw=None, desc=None, drop=()):
    import einx
    call = case["call"]
    kw = dict(call["kwargs"])
    kw.update(case.get("sizes", {}))
    for k in drop:
        kw.pop(k, None)
    if case.get("backend"):
        kw["backend"] = case["backend"]
    if extra_kw:
        kw.update(extra_kw)
    with warnings.catch_warnings():
        warnings.simplefilter("ignore")
        return getattr(einx, call["op"])(call["desc"] if desc is None else desc, *tensor_args, **kw)


def sig_of(case, what):
    c = case["call"]
    return (f"call:einx.{c['op']}({c['desc']!r}) shapes={[list(s) for s in c['shapes']]} kwargs={sorted((k, str(v)) for k, v in {**c['kwargs'], **case.get('sizes', {})}.items())} "
            f"backend={case.get('backend')} factories={[(i, case['styles'][i]) for i in case['pos']]} :: {what}")


def replay_of(case, what, detail):
    c = case["call"]
    return {"kind": what, "call": {"op": c["op"], "desc": c["desc"], "kwargs": {**{k: (list(v) if isinstance(v, tuple) else v) for k, v in c["kwargs"].items()}, **case.get("sizes", {})}},
            "shapes": [list(s) for s in c["shapes"]], "backend": case.get("backend"), "factory_positions": list(case["pos"]),
            "styles": {str(i): case["styles"][i] for i in case["pos"]}, "detail": detail}


def build_case(ctx, call, args, pos, styles, st):
    """Find keyword sizes (from the generator's ground truth = einx's own solution with real tensors) under
    which the factories' shapes are determined.  Returns the case or None."""
    case = {"call": call, "args": args, "pos": tuple(pos), "styles": styles, "sizes": {}, "backend": call.get("backend")}
    if len(pos) == len(args) and not case["backend"]:
        case["backend"] = "numpy"          # no tensor left to select a backend
    cap = None
    for rescan in (False, True):
        clear_caches(rescan=rescan)
        try:
            with graphcap.capture() as cap:
                einx_call(case, args)
        except Exception as e:
            st["base-raises:" + type(e).__name__] += 1
            return None
        if cap.records:
            break
    if not cap.records or not cap.records[-1]["solved"]:
        st["base-no-capture"] += 1
        return None
    truth = {k: v for k, v in axis_sizes(cap.records[-1]["solved"][-1]).items() if k.isidentifier() and len(k) == 1 and k not in call["kwargs"]}
    quiet = lambda i: (lambda shape: value_for(case, i, shape, 0))
    for sizes in ({}, truth):
        case["sizes"] = dict(sizes)
        try:
            einx_call(case, [quiet(i) if i in pos else a for i, a in enumerate(args)])
            case["needs_sizes"] = bool(sizes)
            return case
        except Exception as e:
            err = e
    if "..." not in call["desc"]:
        # every named axis is given as a keyword and there is no ellipsis: the factories' shapes are determined, the
        # call is well-formed (it succeeds with ordinary tensors) -- it must not fail because of the factories
        case["needs_sizes"] = True
        ctx.violation(sig_of(case, f"well-formed call with factories raises {type(err).__name__}"),
                      replay_of(case, "raises", {"exception": f"{type(err).__name__}: {str(err)[:600]}"}))
        st["factory-call-raises:" + type(err).__name__] += 1
        return None
    st["undetermined:" + type(err).__name__] += 1
    return None


class Exec:
    """One execution of a case with fresh instrumented factories."""

    def __init__(self, case, generation, mode="run", bad=None, styles=None, reuse=None, shared=False):
        self.case, self.generation, self.mode, self.bad = case, generation, mode, bad
        self.log = Log()
        self.returned = {}
        self.styles = styles or case["styles"]
        self.factories = {}
        one = make_factory("varkw", self._rec_shared()) if shared else None
        for i in case["pos"]:
            if shared:
                self.factories[i] = one          # the very same callable at every factory position
            elif reuse is not None:
                self.factories[i] = reuse.factories[i]
            else:
                self.factories[i] = make_factory("pos" if (bad and bad[0] == i) else self.styles[i], self._rec(i))
        if reuse is not None:
            # the reused factory objects keep logging into the execution that created them
            self.log, self.returned = reuse.log, reuse.returned
        self.result = None
        self.exc = None
        self.traced = None
        self.rec = None

    def _rec_shared(self):
        def rec(shape, kwargs, extra_pos):
            i = kwargs.get("arg_index")
            return self._rec(i if i in self.case["pos"] else -1)(shape, kwargs, extra_pos)
        return rec

    def _rec(self, i):
        def rec(shape, kwargs, extra_pos):
            self.log.add(pos=i, shape=shape, shape_ok=isinstance(shape, tuple) and all(type(s) is int for s in shape), kwargs=dict(kwargs),
                         extra_pos=tuple(extra_pos), in_construct=_in_construct(), generation=self.generation)
            if self.bad and self.bad[0] == i:
                return bad_value(self.bad[1], shape, self.bad[2])
            if i == -1:
                return np.zeros(shape, dtype=np.int64)
            v = value_for(self.case, i, shape, self.generation)
            self.returned.setdefault(i, []).append(v)
            return v
        return rec

    def run(self, corrupt=None):
        case = self.case
        targs = [self.factories[i] if i in case["pos"] else a for i, a in enumerate(case["args"])]
        extra = {"graph": True} if self.mode == "graph" else {}
        desc = None
        drop = ()
        if corrupt is not None:
            targs, extra2, desc, drop = corrupt(targs)
            extra.update(extra2)
        n0 = len(self.log.entries)
        with graphcap.capture() as cap:
            try:
                self.result = einx_call(case, targs, extra, desc=desc, drop=drop)
            except Exception as e:
                self.exc = e
        self.traced = len(cap.records) > 0
        self.rec = cap.records[-1] if cap.records else None
        self.new = self.log.entries[n0:]
        return self


def corruptions(case, rng):
    """Ways of making the call ill-formed; each returns (tensor_args, extra_kwargs, description, dropped keywords)."""
    out = []
    desc = case["call"]["desc"]
    out.append(("syntax", lambda t: (t, {}, desc + " )", ())))
    real = [i for i in range(len(case["args"])) if i not in case["pos"]]
    if real:
        i = rng.choice(real)
        out.append(("rank", lambda t, i=i: ([np.expand_dims(x, 0) if j == i else x for j, x in enumerate(t)], {}, None, ())))
    if case["sizes"]:
        k = rng.choice(sorted(case["sizes"]))
        out.append(("undetermined", lambda t, k=k: (t, {}, None, (k,))))
        out.append(("conflict", lambda t, k=k: (t, {k: case["sizes"][k] + 1} if real else {k: -3}, None, ())))
    out.append(("arity", lambda t: (list(t) + [np.zeros((2,), dtype=np.int64)], {}, None, ())))
    return out


def same(a, b):
    a = list(a) if isinstance(a, (tuple, list)) else [a]
    b = list(b) if isinstance(b, (tuple, list)) else [b]
    if len(a) != len(b):
        return False
    for x, y in zip(a, b):
        x, y = np.asarray(x), np.asarray(y)
        if x.shape != y.shape:
            return False
        if x.dtype.kind in "fc" or y.dtype.kind in "fc":
            if not np.allclose(x, y, equal_nan=True, rtol=1e-9, atol=1e-12):
                return False
        elif not np.array_equal(x, y):
            return False
    return True


def check_exec(ctx, ex, label, expect_invoked=True, other=None):
    """The property's expectations on one execution's log.  Returns True when clean."""
    case = ex.case
    ok = True

    def bad(what, detail):
        nonlocal ok
        ok = False
        ctx.violation(sig_of(case, f"{label}: {what}"), replay_of(case, what, {"execution": label, **detail,
                      "log": [{k: (str(v) if k in ("kwargs",) else v) for k, v in e.items()} for e in ex.new]}))
    want = {i: 1 if expect_invoked else 0 for i in case["pos"]}
    got = {i: 0 for i in case["pos"]}
    for e in ex.new:
        got[e["pos"]] = got.get(e["pos"], 0) + 1
    if got != want:
        bad("invocation count", {"expected_per_position": want, "observed_per_position": got})
    for e in ex.new:
        i = e["pos"]
        if i not in case["pos"]:
            continue            # unattributable invocation of a shared factory: reported by the count above
        if e["in_construct"]:
            bad("factory invoked while einx was constructing the graph", {"position": i})
        if not e["shape_ok"] or tuple(e["shape"]) != tuple(case["call"]["shapes"][i]):
            bad("factory shape argument", {"position": i, "expected": list(case["call"]["shapes"][i]), "observed": repr(e["shape"])})
        if e["extra_pos"]:
            bad("extra positional arguments", {"position": i, "observed": repr(e["extra_pos"])})
        allowed = declared_optional(ex.factories[i])
        extra = set(e["kwargs"]) - allowed
        if extra:
            bad("undeclared keyword passed", {"position": i, "keywords": sorted(extra), "declared": sorted(allowed)})
        ctx.count("kwargs-passed:" + ",".join(sorted(e["kwargs"])))
        # model-level expectations (not part of the property's text): declared keywords are passed, with these values
        missing = allowed - set(e["kwargs"])
        if missing:
            ctx.tie_broken("correspondence:keywords-passed", f"{sig_of(case, label)}: declared but not passed: {sorted(missing)}")
        if "arg_index" in e["kwargs"] and e["kwargs"]["arg_index"] != i:
            ctx.tie_broken("correspondence:keyword-values", f"{sig_of(case, label)}: arg_index={e['kwargs']['arg_index']!r} at position {i}")
        if "name" in e["kwargs"] and e["kwargs"]["name"] != case["call"]["op"]:
            ctx.tie_broken("correspondence:keyword-values", f"{sig_of(case, label)}: name={e['kwargs']['name']!r}")
        if "signature" in e["kwargs"] and not (hasattr(e["kwargs"]["signature"], "exprs_in") and len(e["kwargs"]["signature"].exprs_in) == len(case["args"])):
            ctx.tie_broken("correspondence:keyword-values", f"{sig_of(case, label)}: signature={e['kwargs']['signature']!r}")
    if other is not None and other.log is not ex.log:
        stale = [e for e in other.log.entries[other._mark:]]
        if stale:
            bad("a factory object of an earlier call was invoked instead of the one passed", {"stale_invocations": len(stale)})
    return ok


def check_result(ctx, ex, label):
    """Differential: same call with the factories' return values passed as ordinary tensors."""
    case = ex.case
    if ex.exc is not None:
        ctx.violation(sig_of(case, f"{label}: well-formed call with factories raises {type(ex.exc).__name__}"),
                      replay_of(case, "raises", {"execution": label, "exception": f"{type(ex.exc).__name__}: {str(ex.exc)[:400]}"}))
        return False
    if any(len(ex.returned.get(i, [])) < 1 for i in case["pos"]):
        return False        # already reported as a count violation
    targs = [ex.returned[i][-1] if i in case["pos"] else a for i, a in enumerate(case["args"])]
    try:
        ref = einx_call(case, targs)
    except Exception as e:
        raise core.MachineryError(f"reference call with ordinary tensors raises: {sig_of(case, label)}: {type(e).__name__}: {e}")
    if not same(ex.result, ref):
        ctx.violation(sig_of(case, f"{label}: result differs from the call with the factories' values as tensors"),
                      replay_of(case, "result differs", {"execution": label, "observed": [np.asarray(r).tolist() for r in (ex.result if isinstance(ex.result, tuple) else [ex.result])],
                                                         "expected": [np.asarray(r).tolist() for r in (ref if isinstance(ref, tuple) else [ref])]}))
        return False
    return True


# ---------------------------------------------------------------- emitted text vs model

def code_summary(code, n_inputs, pos):
    """Parse the emitted source: per factory position the call's positional args, keywords and the asserts that
    follow, by a linear data-flow over the statements of `op` (which names currently hold a factory / its result)."""
    tree = ast.parse(code)
    fn = [n for n in tree.body if isinstance(n, ast.FunctionDef)]
    if len(fn) != 1:
        return None, "no single function"
    fn = fn[0]
    params = [a.arg for a in fn.args.args]
    if len(params) != n_inputs:
        return None, f"{len(params)} parameters for {n_inputs} inputs"
    holds = {params[i]: i for i in pos}       # name -> factory position currently bound to it
    result_of = {}                            # name -> factory position whose (unchecked) result it holds
    out = {i: {"calls": [], "asserts": [], "early_use": False} for i in pos}

    def lit(node):
        if isinstance(node, ast.Tuple) and all(isinstance(e, ast.Constant) and type(e.value) is int for e in node.elts):
            return {"shape": [e.value for e in node.elts]}
        if isinstance(node, ast.Constant) and type(node.value) is int:
            return {"int": node.value}
        if isinstance(node, ast.Constant) and isinstance(node.value, str):
            return {"str": node.value}
        if isinstance(node, ast.Name) and node.id.startswith("const"):
            return "signature"
        return {"unknown": ast.unparse(node)}
    for s in fn.body:
        handled = False
        if isinstance(s, ast.Assign) and len(s.targets) == 1 and isinstance(s.targets[0], ast.Name) and isinstance(s.value, ast.Call) \
                and isinstance(s.value.func, ast.Name) and s.value.func.id in holds:
            i = holds[s.value.func.id]
            inner_loads = [n.id for a in list(s.value.args) + [k.value for k in s.value.keywords] for n in ast.walk(a) if isinstance(n, ast.Name)]
            if any(x in holds for x in inner_loads):
                out[i]["early_use"] = True
            out[i]["calls"].append({"args": [lit(a) for a in s.value.args], "kwargs": [[k.arg, lit(k.value)] for k in s.value.keywords]})
            tgt = s.targets[0].id
            holds.pop(tgt, None)
            result_of[tgt] = i
            handled = True
        elif isinstance(s, ast.Assert):
            t = s.test
            if (isinstance(t, ast.Call) and isinstance(t.func, ast.Name) and t.func.id == "isinstance" and len(t.args) == 2
                    and isinstance(t.args[0], ast.Name) and t.args[0].id in result_of):
                out[result_of[t.args[0].id]]["asserts"].append("isinstance")
                handled = True
            elif (isinstance(t, ast.Compare) and len(t.ops) == 1 and isinstance(t.ops[0], ast.Eq) and isinstance(t.left, ast.Call)
                  and isinstance(t.left.func, ast.Name) and t.left.func.id == "tuple" and len(t.left.args) == 1
                  and isinstance(t.left.args[0], ast.Attribute) and t.left.args[0].attr == "shape" and isinstance(t.left.args[0].value, ast.Name)
                  and t.left.args[0].value.id in result_of):
                i = result_of[t.left.args[0].value.id]
                out[i]["asserts"].append({"shape_eq": lit(t.comparators[0])})
                handled = True
        if not handled:
            loads = {n.id for n in ast.walk(s) if isinstance(n, ast.Name) and isinstance(n.ctx, ast.Load)}
            for nm in loads:
                if nm in holds:
                    out[holds[nm]]["early_use"] = True       # the factory object itself is used by another statement
                if nm in result_of:
                    i = result_of[nm]
                    if len(out[i]["asserts"]) < 2:
                        out[i]["early_use"] = True           # result used before both assertions
            for n in ast.walk(s):
                if isinstance(n, ast.Name) and isinstance(n.ctx, ast.Store):
                    holds.pop(n.id, None)
                    if n.id in result_of and isinstance(s, ast.Assign) and n.id not in loads:
                        result_of.pop(n.id, None)
    return out, None


def model_summary(resp, pos_values):
    """The same summary from the node list of `factory_model`."""
    nodes = resp["nodes"]
    out = {}
    for i, v in pos_values.items():
        calls = [n for n in nodes if n["n"] == "call" and n["fn"] == {"ext": v}]
        asserts = []
        if calls:
            k = nodes.index(calls[0])
            cur = {"node": k}
            for n in nodes:
                if n["n"] == "assert" and n["x"] == cur:
                    cond = nodes[n["cond"]["node"]]
                    if cond["n"] == "isinstance":
                        asserts.append("isinstance")
                    elif cond["n"] == "eqshape":
                        asserts.append({"shape_eq": {"shape": cond["shape"]}})
                    cur = {"node": nodes.index(n)}
        out[i] = {"calls": [{"args": c["args"], "kwargs": c["kwargs"]} for c in calls], "asserts": asserts, "early_use": False}
    return out


def lean_tie(ctx, case, ex):
    """factory_check on the real pre/post graphs; emitted text vs factory_model."""
    if not ctx.driver_ok or ex.rec is None:
        return
    drv = ctx.driver()
    call = case["call"]
    n = len(case["args"])
    argsd = []
    for i in range(n):
        argsd.append({"factory": sig_json(ex.factories[i]) if i in case["pos"] else None, "solved": [int(s) for s in call["shapes"][i]], "arg_index": i})
    for which in ("pre", "post"):
        g = ex.rec[which]
        gj, _ = graphcap.graph_to_json(g)
        r = drv.ask({"kind": "factory_check", "graph": gj, "op_name": call["op"], "args": argsd})
        ctx.count(f"factory_check:{which}:{'ok' if r['ok'] else r['reason'][:40]}")
        if not r["ok"]:
            ctx.tie_broken(f"checker:traced-graph:{which}", f"{sig_of(case, 'factory_check')}: {r['reason']}\ncode:\n{ex.rec['code']}")
        else:
            ctx.extra["graphs_checked"] = ctx.extra.get("graphs_checked", 0) + 1
        if which == "pre" and not r.get("trace_pure", False) and r.get("reason") != "inlined":
            ctx.tie_broken("checker:trace-purity", f"{sig_of(case, 'trace purity')}: a Call node of the traced graph lacks a graph input among its dependencies")
    # work package "exec": the graph that was compiled, translated from the C04 graph; premises and instance of
    # exec_from_compile / factory_called_once_compiled (Props/C13Exec.lean)
    cg = ex.rec.get("compiled_graph")
    if cg is not None:
        exectie.exec_factory(ctx, cg, ex.rec.get("code"), call["op"], argsd, sig_of(case, "exec"))
    # emitted text vs model node list
    code = ex.rec.get("code")
    if not code:
        return
    m = drv.ask({"kind": "factory_model", "op_name": call["op"], "deps": list(range(n)),
                 "args": [{"value": i, "factory": argsd[i]["factory"], "api_shape": [int(s) for s in call["shapes"][i]], "solved": argsd[i]["solved"]} for i in range(n)]})
    try:
        got, why = code_summary(code, n, case["pos"])
    except SyntaxError as e:
        got, why = None, f"emitted text does not parse: {e}"
    if got is None:
        ctx.tie_broken("correspondence:emitted-text", f"{sig_of(case, 'emitted text')}: {why}\n{code}")
        return
    want = model_summary(m, {i: i for i in case["pos"]})
    if got != want:
        ctx.tie_broken("correspondence:emitted-text", f"{sig_of(case, 'emitted text')}: model {json.dumps(want)} vs emitted {json.dumps(got)}\n{code}")
    else:
        ctx.extra["texts_compared"] = ctx.extra.get("texts_compared", 0) + 1


# ---------------------------------------------------------------- one case, all executions

def run_case(ctx, case, rng, tie=True, n_bad=2):
    clean = True
    # cold
    clear_caches()
    cold = Exec(case, 1).run()
    if not cold.traced and cold.exc is None:
        # a backend created lazily after the first scan owns caches the scan did not see
        clear_caches(rescan=True)
        cold = Exec(case, 1).run()
    ctx.count("exec:cold" if cold.traced else "exec:cold-but-cached")
    clean &= check_exec(ctx, cold, "cold call")
    clean &= check_result(ctx, cold, "cold call")
    if tie and cold.rec is not None:
        lean_tie(ctx, case, cold)
    # warm, same factory objects
    warm = Exec(case, 1, reuse=cold).run()
    ctx.count("exec:warm" if not warm.traced else "exec:warm-but-retraced")
    clean &= check_exec(ctx, warm, "cached repeat (same factories)")
    clean &= check_result(ctx, warm, "cached repeat (same factories)")
    # warm, different factory objects with the same signature: the new objects must be the ones invoked
    cold._mark = len(cold.log.entries)
    warm2 = Exec(case, 2).run()
    ctx.count("exec:warm-other-factory" if not warm2.traced else "exec:other-factory-retraced")
    clean &= check_exec(ctx, warm2, "cached repeat (different factory objects, same signature)", other=cold)
    clean &= check_result(ctx, warm2, "cached repeat (different factory objects, same signature)")
    # factories whose signatures differ from the cached ones only in the KIND of a parameter (`name=None` vs `name=None, /`):
    # they declare different optional keywords, so they must not be served by the function compiled for the others
    # ... or that are callables of the same class / the same arity with another set of optional keywords (two
    # functools.partial objects; `(shape)` vs `(shape, **kwargs)`): every one of them is run after the original, then the
    # original again
    SIBS = {"name": ["posonly_name"], "posonly_name": ["name"], "mixed": ["posonly_name"], "partial": ["partial_plain", "partial_idx"],
            "partial_plain": ["partial", "partial_idx"], "partial_idx": ["partial_plain"], "varkw": ["pos"], "pos": ["varkw"], "object": ["pos"]}
    nsib = max((len(SIBS.get(st, [])) for st in case["styles"].values()), default=0)
    if nsib and (any(st not in ("pos",) for st in case["styles"].values() if st in SIBS) or rng.random() < 0.35):
        for k in range(nsib):
            for order in (0, 1):
                sib = {**case, "styles": {i: ((SIBS[st][k % len(SIBS[st])] if st in SIBS else st) if order == 0 else st) for i, st in case["styles"].items()}}
                ex = Exec(sib, 7 + order + 2 * k).run()
                lab = ("sibling signature (same class / same parameter names, other optional keywords) after the original" if order == 0
                       else "original signature again after its sibling")
                ctx.count("exec:sibling-signature")
                clean &= check_exec(ctx, ex, lab)
                clean &= check_result(ctx, ex, lab)
    # the very same callable at every factory position (it tells the positions apart by `arg_index`)
    if len(case["pos"]) >= 2:
        sh = Exec(case, 6, shared=True).run()
        ctx.count("exec:shared-object")
        clean &= check_exec(ctx, sh, "one callable object at several positions")
        clean &= check_result(ctx, sh, "one callable object at several positions")
    # graph=True, warm and cold
    for cold_graph in (False, True):
        if cold_graph:
            clear_caches()
        g = Exec(case, 3, mode="graph").run()
        lab = "graph=True (cold)" if cold_graph else "graph=True (cached)"
        clean &= check_exec(ctx, g, lab, expect_invoked=False)
        if g.exc is not None or not isinstance(g.result, str):
            ctx.violation(sig_of(case, f"{lab}: does not return source text"), replay_of(case, "graph=True", {"exception": repr(g.exc), "result_type": type(g.result).__name__}))
            clean = False
        ctx.count("exec:graph")
    # rejected forms
    for name, corrupt in corruptions(case, rng):
        if rng.random() < 0.5:
            clear_caches()
        r = Exec(case, 4).run(corrupt=corrupt)
        if r.exc is None:
            ctx.count(f"reject:{name}:accepted")      # not ill-formed after all (not this property's business)
            continue
        ctx.count(f"reject:{name}:{type(r.exc).__name__}")
        clean &= check_exec(ctx, r, f"rejected call ({name})", expect_invoked=False)
    # misbehaving factories
    for _ in range(n_bad):
        i = rng.choice(case["pos"])
        kind = rng.choice(BAD)
        if rng.random() < 0.5:
            clear_caches()
        b = Exec(case, 5, bad=(i, kind, rng.randrange(16))).run()
        ctx.count(f"bad:{kind}:{type(b.exc).__name__ if b.exc is not None else 'RETURNED'}")
        if b.exc is None:
            ctx.violation(sig_of(case, f"misbehaving factory ({kind}) at position {i}: call returns a result"),
                          replay_of(case, "misbehaving factory accepted", {"position": i, "misbehaviour": kind, "variant": b.bad[2],
                                    "returned": repr(np.asarray(b.result).tolist() if not isinstance(b.result, tuple) else [np.asarray(x).tolist() for x in b.result])[:400]}))
            clean = False
        per = {}
        for e in b.new:
            per[e["pos"]] = per.get(e["pos"], 0) + 1
            if e["in_construct"]:
                clean = False
                ctx.violation(sig_of(case, "misbehaving run: factory invoked while constructing the graph"), replay_of(case, "in_construct", {}))
        if any(v > 1 for v in per.values()):
            clean = False
            ctx.violation(sig_of(case, f"misbehaving factory ({kind}): a factory is invoked more than once"), replay_of(case, "invocation count", {"observed": per}))
    return clean


def run_sequence(ctx, cases, rng, length):
    """Interleaving of cached and uncached executions of several cases (one cache clear at the start)."""
    clear_caches()
    seen = set()
    gen_no = 10
    for _ in range(length):
        k = rng.randrange(len(cases))
        case = cases[k]
        mode = rng.choice(["run", "run", "run", "graph"])
        gen_no += 1
        ex = Exec(case, gen_no, mode=mode).run()
        state = "uncached" if ex.traced else "cached"
        if ex.traced != (k not in seen):
            ctx.count("seq:retraced-though-seen" if ex.traced else "seq:hit-though-new")   # e.g. a factory object of a fresh class
        seen.add(k)
        ctx.count(f"seq:{mode}:{state}")
        lab = f"sequence step ({mode}, {state})"
        check_exec(ctx, ex, lab, expect_invoked=(mode == "run"))
        if mode == "run":
            check_result(ctx, ex, lab)


_O_SCRIPT = r"""
import json, sys, warnings
warnings.simplefilter("ignore")
import numpy as np, einx
x = np.arange(6, dtype=np.int64).reshape(2, 3)
bad = {"list": lambda shape: [1, 2, 3], "float": lambda shape: 1.0, "wrongshape": lambda shape: np.ones((1, 3), dtype=np.int64),
       "good": lambda shape: np.ones(shape, dtype=np.int64)}
out = {"optimize": sys.flags.optimize, "einx": einx.__file__}
for k, f in bad.items():
    try:
        out[k] = {"returned": np.asarray(einx.add("a b, b", x, f)).tolist()}
    except Exception as e:
        out[k] = {"raised": type(e).__name__}
print(json.dumps(out))
"""


def optimized_interpreter_check(ctx):
    """The property does not depend on interpreter flags: the same misbehaving factories in a fresh interpreter that
    runs with -O (where Python drops `assert` statements from code it compiles)."""
    import subprocess
    try:
        p = subprocess.run([sys.executable, "-O", "-c", _O_SCRIPT], capture_output=True, text=True, timeout=300)
        out = json.loads(p.stdout.strip().splitlines()[-1])
    except Exception as e:
        raise core.MachineryError(f"forked interpreter (-O) failed: {type(e).__name__}: {e}")
    if out.get("optimize") != 1 or "returned" not in out.get("good", {}):
        raise core.MachineryError(f"forked interpreter (-O) run is unusable: {out}")
    accepted = sorted(k for k in ("list", "float", "wrongshape") if "returned" in out[k])
    ctx.count("python-O:" + ("accepted:" + ",".join(accepted) if accepted else "all-rejected"))
    if accepted:
        ctx.violation(f"python -O :: einx.add('a b, b', arange(6).reshape(2,3), factory) returns a result for misbehaving factories {accepted}",
                      {"kind": "misbehaving factory accepted when the interpreter runs with -O", "command": f"{sys.executable} -O -c <script>", "script": _O_SCRIPT,
                       "observed": out, "expected": "the call raises for list / float / wrong-shape factory outputs",
                       "cause": "the guards are emitted as `assert` statements and the emitted text is exec'd with the interpreter's optimisation level"})


def subsets(n):
    for r in range(1, n + 1):
        for c in itertools.combinations(range(n), r):
            yield c


def run(ctx):
    import collections
    rng = ctx.rng
    st = collections.Counter()
    n_calls = 90 if ctx.quick else 1500
    if ctx.broken:
        n_calls *= 3
    ctx.extra["rule"] = ("grammar-directed einx calls of all op families of lib/gen.py (numpy backends); for each, tensor positions are replaced by instrumented factories "
                         "(random non-empty subset; every subset for a third of the calls / all calls in the thorough tier), size keywords are added from einx's own solution of the "
                         "all-tensor call when the factory's shape is not otherwise determined; each case is executed cold, cached with the same and with different factory objects, "
                         "with graph=True (cached and cold), in up to 5 rejected forms and with misbehaving factories, plus interleaved sequences; one evaluation = one case (about 12 "
                         "executions); non-trivial = rank >= 2 factory or optional keywords declared or several factories; distinct by (op, description, shapes, positions, styles)")
    ctx.assumptions.append("Exec (every reachable node of the compiled graph is evaluated exactly once per call) is proved for the emitted program (Props/C13Exec.lean: exec_from_compile) under the decidable premises wf_graph/supported/fwf, which are evaluated on every compiled graph of this run together with the instance of the conclusion (histogram exec-thm:*); the model text is compared with the real emitted text; CPython executing the emitted text statement by statement is trusted")
    ctx.assumptions.append("a Cast is the identity at run time and no node other than a Cast returns the factory object itself")
    ctx.assumptions.append("in-process runs use the harness interpreter's flags; a forked interpreter with -O re-runs the misbehaving-factory cases")
    ctx.assumptions.append("a factory whose first parameter is itself called name/arg_index/signature is outside the property (einx passes the keyword and Python rejects the call)")
    pool = []
    done = 0
    attempts = 0
    # directed cases: several factories in one call whose signatures declare different optional keywords, in both orders
    # (a keyword filtered out for one factory must not be missing for the next; `req_name` fails if its keyword is not passed)
    dcall = {"op": "add", "family": "elementwise", "desc": "a b, b, a -> a b", "shapes": [(2, 3), (3,), (2,)], "kwargs": {}, "note": ["directed"]}
    for styles in ({1: "pos", 2: "req_name"}, {1: "req_name", 2: "pos"}, {1: "idx_sig", 2: "req_name"}, {0: "pos", 1: "kwonly", 2: "all3"}, {1: "unrelated", 2: "all3"}):
        dargs = gen.make_args(dcall, rng)
        case = build_case(ctx, dcall, dargs, tuple(sorted(styles)), dict(styles), st)
        if case is not None:
            run_case(ctx, case, rng, n_bad=1)
            ctx.case(sig_of(case, "case"), True)
            ctx.count("directed-multi-factory")
    while done < n_calls and attempts < n_calls * 4:
        attempts += 1
        # half of the calls from the families with several tensor arguments (a factory next to real tensors is the common use)
        call = gen.gen_call(rng, families=["elementwise", "dot", "get", "id_concat"]) if rng.random() < 0.5 else gen.gen_call(rng)
        args = gen.make_args(call, rng)
        n = len(args)
        all_subsets = (not ctx.quick) or rng.random() < 0.34
        choices = list(subsets(n)) if all_subsets else [tuple(sorted(rng.sample(range(n), rng.randint(1, n))))]
        for pos in choices:
            styles = {i: rng.choice(STYLES) for i in pos}
            if len(pos) >= 2 and rng.random() < 0.3:
                styles = {i: styles[pos[0]] for i in pos}      # equal signatures: the input tracers compare equal
                ctx.count("equal-signatures")
            case = build_case(ctx, call, args, pos, styles, st)
            if case is None:
                continue
            clean = run_case(ctx, case, rng, n_bad=2 if ctx.quick else 3)
            done += 1
            nontrivial = len(pos) > 1 or any(len(call["shapes"][i]) >= 2 for i in pos) or any(declared_optional(make_factory(styles[i], lambda *a: None)) for i in pos)
            ctx.case(sig_of(case, "case"), nontrivial)
            ctx.count("family:" + call["family"])
            ctx.count(f"factories:{len(pos)}/{n}")
            ctx.count("sizes:" + ("keywords" if case["needs_sizes"] else "inferred"))
            for i in pos:
                ctx.count("style:" + styles[i])
            if len(ctx.samples) < 6:
                ctx.sample({"op": call["op"], "desc": call["desc"], "shapes": [list(s) for s in call["shapes"]], "factories": {str(i): styles[i] for i in pos},
                            "size_keywords": case["sizes"], "clean": clean})
            pool.append(case)
            if len(pool) >= 4:
                run_sequence(ctx, pool[-4:], rng, 10)
                pool = pool[-2:]
            if len(ctx.violations) >= 5:
                break
        if len(ctx.violations) >= 5:
            break
    optimized_interpreter_check(ctx)
    for k, v in st.items():
        ctx.count("skipped:" + k, v)
    ctx.extra["traces_validated_against_impl"] = ctx.extra.get("graphs_checked", 0)
    if done < n_calls // 2 and not ctx.violations:
        raise core.MachineryError(f"only {done} of {n_calls} cases could be built")


def replay(ctx, path):
    with open(path) as f:
        r = json.load(f)["replay"]
    if "script" in r:
        import subprocess
        p = subprocess.run([sys.executable, "-O", "-c", r["script"]], capture_output=True, text=True, timeout=300)
        print("observed now:", p.stdout.strip() or p.stderr[-500:])
        print("recorded    :", json.dumps(r["observed"]))
        return 0
    if "call" not in r:
        print(json.dumps(r, indent=1)[:3000])
        return 0
    import einx
    c = r["call"]
    log = []
    shapes = [tuple(s) for s in r["shapes"]]

    det = r.get("detail", {}) if isinstance(r.get("detail"), dict) else {}

    def mk(i):
        def f(shape, **kw):
            log.append((i, shape, sorted(kw), _in_construct()))
            if det.get("misbehaviour") and det.get("position") == i:
                return bad_value(det["misbehaviour"], shape, det.get("variant", 0))
            return np.arange(int(np.prod(shape)) if len(shape) else 1, dtype=np.int64).reshape(shape) + 1
        return f
    args = [mk(i) if i in r["factory_positions"] else np.arange(int(np.prod(s)) if len(s) else 1, dtype=np.int64).reshape(s) + 1 for i, s in enumerate(shapes)]
    kw = {k: (tuple(v) if isinstance(v, list) else v) for k, v in c["kwargs"].items()}
    if r.get("backend"):
        kw["backend"] = r["backend"]
    for label in ("first call", "second call"):
        try:
            out = getattr(einx, c["op"])(c["desc"], *args, **kw)
            print(label, "->", np.asarray(out).tolist() if not isinstance(out, tuple) else [np.asarray(o).tolist() for o in out])
        except Exception as e:
            print(label, "raises", type(e).__name__, str(e)[:300])
        print("   invocations so far (position, shape, keywords, inside _construct_graph):", log)
    print("recorded:", r["kind"], json.dumps(r["detail"], default=str)[:2000])
    return 0
