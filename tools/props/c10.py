"""C10 — concurrent use from several threads behaves like some serial order.

Tie (T-src): Extracted/Registry.lean — for every public `BackendRegistry` method, is its read/compute/write of
`self.state` inside `with self.use_lock`; kind of the lock; `threading.local()` declarations of the context
stacks (tracer/graph.py, adapter/torch/devicestack.py, adapter/arrayapi/namespacestack.py, util/lru_cache.py);
the memoiser used by util/lru_cache.py.  Obligations in Props/C10.lean are re-proved against them on every run.

Tie (T-beh): a deterministic scheduler runs the REAL code in 2-3 threads.  Every thread has its own
`sys.settrace` hook; every line/call/return event inside einx/_src/frontend/backend.py (and api.py,
util/lru_cache.py, tracer/graph.py for the end-to-end programs) is a preemption point at which the thread
hands control back to the scheduler and waits for its next grant, so exactly one thread runs at any time and the
interleaving is a function of the schedule.  `registry.use_lock` is replaced by a proxy with the same
context-manager protocol, so that a thread waiting for the lock is known to the scheduler.
The outcome (result of every call, final registry state) is compared with
  * the model: `explore` (all outcomes the interleaving semantics can reach under the extracted lock
    configuration), `serial_outcomes` (the model's serial outcomes vs. the real serial outcomes) and `sched`
    (the model run in the observed lock-acquisition order must give exactly the observed outcome);
Search / ORACLE (independent of Lean): the outcome must equal the outcome of SOME serial order of the calls that
respects every thread's program order, each order being executed serially on a fresh real registry.
A failing schedule is shrunk to few context switches and reported with the schedule as signature.
"""
import itertools
import json
import os
import random
import sys
import threading
import time

import numpy as np

from lib import core
from props import c11

EXTRACTORS = ["Registry", "Cacheconc"]
EXTRA_PROPS = ["C10Cache"]   # cache_concurrent_serializable (Props/C10Cache.lean); harness part in c10_cache.py
STEP_TIMEOUT = 20.0          # seconds the scheduler waits for any progress before it gives up
BLOCK_TIMEOUT = 2.5          # a step that takes longer is taken to wait on a primitive the scheduler does not know (an Event, a
                             # Condition, a lock created inside a function): the worker is left alone and others are scheduled
POINT_CAP = 3                # preemptions per source line and event kind within one call into the traced files
METHODS = ["register", "register_on_import", "get_by_tensors", "get_by_name", "get", "enter", "exit"]


# =====================================================================================================
# deterministic scheduler
# =====================================================================================================

class SchedulerAbort(BaseException):
    """Raised inside worker threads to unwind them when a run is abandoned."""


class Worker:
    def __init__(self, idx, fn):
        self.idx = idx
        self.fn = fn
        self.state = "new"       # new | ready | running | blocked | done
        self.blocked_on = None
        self.thread = None
        self.pos = ("start", 0, "start", "")
        self.error = None
        self.steps = 0
        self.visits = {}


class LockProxy:
    """Stands in for `BackendRegistry.use_lock` (threading.RLock / Lock).  Only one thread runs at a time under the
    scheduler, so ownership is plain data; a thread that cannot take the lock yields to the scheduler as `blocked`."""

    def __init__(self, sched, reentrant=True):
        self.sched = sched
        self.reentrant = reentrant
        self.owner = None        # Worker | "main" | None
        self.count = 0
        self.acquisitions = []   # worker indices, in order of (outermost) acquisition

    def free_for(self, who):
        return self.owner is None or (self.reentrant and self.owner is who)

    def acquire(self, blocking=True, timeout=-1):
        w = self.sched.current() if self.sched is not None else None
        who = w if w is not None else "main"
        while not self.free_for(who):
            if w is None:
                raise core.MachineryError("LockProxy: lock is held by a worker while the main thread wants it")
            if not blocking:
                return False
            w.blocked_on = self
            self.sched.blocked += 1
            self.sched._yield(w, "blocked")
        w_idx = w.idx if w is not None else -1
        if self.owner is None:
            self.acquisitions.append(w_idx)
            if self.sched is not None:
                self.sched.events.append(("acquire", w_idx))
        self.owner = who
        self.count += 1
        return True

    def release(self):
        w = self.sched.current() if self.sched is not None else None
        who = w if w is not None else "main"
        if self.owner is not who:
            raise RuntimeError("cannot release un-acquired lock")
        self.count -= 1
        if self.count == 0:
            self.owner = None

    __enter__ = acquire

    def __exit__(self, *a):
        self.release()


_LOCK_TYPES = (type(threading.Lock()), type(threading.RLock()))


class ProxySet:
    """Every lock the scheduled code could block on: all Lock/RLock attributes of the registry object and all
    module-level Lock/RLock globals of the traced modules are replaced by `LockProxy` objects for the duration of a run
    (a thread that waits for any of them yields to the scheduler instead of blocking the process).  `main` is the proxy of
    `use_lock` (the lock the model knows); a change that adds further locks is scheduled like any other code."""

    def __init__(self, sched, reg, modules=()):
        self.saved = []
        self.proxies = []
        self.main = None
        for name, v in list(vars(reg).items()):
            if isinstance(v, _LOCK_TYPES):
                pr = LockProxy(sched, reentrant="RLock" in type(v).__name__)
                self.saved.append((reg, name, v))
                setattr(reg, name, pr)
                self.proxies.append(pr)
                if name == "use_lock":
                    self.main = pr
        for m in modules:
            for name, v in list(vars(m).items()):
                if isinstance(v, _LOCK_TYPES):
                    pr = LockProxy(sched, reentrant="RLock" in type(v).__name__)
                    self.saved.append((m, name, v))
                    setattr(m, name, pr)
                    self.proxies.append(pr)
        if self.main is None:
            # the code has no `use_lock` any more: an unowned proxy keeps the bookkeeping below uniform
            self.main = LockProxy(sched, reentrant=True)

    def restore(self):
        for obj, name, v in self.saved:
            setattr(obj, name, v)

    def any_owned(self):
        return any(pr.owner is not None for pr in self.proxies)

    def reset(self):
        for pr in self.proxies:
            pr.owner, pr.count = None, 0


OS_BLOCK_BUDGET = 8          # per process: each such wait costs BLOCK_TIMEOUT seconds


class Scheduler:
    """Runs worker functions in threads, one at a time; preemption points are the trace events in `files`."""
    total_os_blocks = 0

    def __init__(self, files, point_filter=None):
        self.back = None
        self.workers = []
        self.files = set(files)
        self.point_filter = point_filter
        self.aborted = False
        self.trace = []          # (chosen worker, enabled workers) per step
        self.events = []         # ("acquire", w) | ("env", w): order of commits, for the model comparison
        self.by_ident = {}
        self.deadlock = False
        self.blocked = 0         # how often a thread had to wait for the lock
        self.state_lock = threading.Lock()

    def add(self, fn):
        w = Worker(len(self.workers), fn)
        self.workers.append(w)
        return w

    def current(self):
        return self.by_ident.get(threading.get_ident())

    # ---- worker side.  Hand-over by two binary semaphores per step (no condition variable: nobody else is woken up).
    def _yield(self, w, new_state):
        with self.state_lock:
            w.state = new_state
        self.back.put(w.idx)
        w.go.acquire()
        if self.aborted:
            raise SchedulerAbort()
        w.state = "running"

    def _tracer(self, w):
        files = self.files
        pf = self.point_filter

        def point(frame, event):
            if self.aborted:        # the run is being torn down: the worker is unwinding, never wait again
                return
            if pf is not None and not pf(frame, event):
                return
            code = frame.f_code
            # at most POINT_CAP preemptions per (source line, event kind) within one call from outside into the traced
            # files: `_check_new_imports` loops over all of sys.modules (thousands of identical iterations)
            if event == "call" and (frame.f_back is None or frame.f_back.f_code.co_filename not in files):
                w.visits = {}
            k = (code, frame.f_lineno, event)
            n = w.visits.get(k, 0) + 1
            w.visits[k] = n
            if n > POINT_CAP:
                return
            w.pos = (os.path.basename(code.co_filename), frame.f_lineno, event, getattr(code, "co_qualname", code.co_name))
            self._yield(w, "ready")

        def local(frame, event, arg):
            if event == "line" or event == "return":
                point(frame, event)
            return local

        def glob(frame, event, arg):
            if event == "call" and frame.f_code.co_filename in files:
                point(frame, "call")
                return local
            return None

        return glob

    def _body(self, w):
        self.by_ident[threading.get_ident()] = w
        try:
            w.state = "ready"
            self.back.put(w.idx)         # "started"
            w.go.acquire()
            if self.aborted:
                return
            w.state = "running"
            sys.settrace(self._tracer(w))
            try:
                w.fn()
            finally:
                sys.settrace(None)
        except SchedulerAbort:
            pass
        except BaseException as e:   # a worker function must catch what it expects; anything else is recorded
            w.error = e
        finally:
            was_aborted = self.aborted
            with self.state_lock:
                w.state = "done"
            w.pos = ("end", 0, "end", "")
            if not was_aborted:
                self.back.put(w.idx)

    # ---- scheduler side
    def enabled(self):
        out = []
        for w in self.workers:
            if w.state == "ready" or (w.state == "blocked" and w.blocked_on.free_for(w)):
                out.append(w.idx)
        return out

    def _drain(self):
        """Forget notifications of workers that were left waiting on an unknown primitive and have since reached a point."""
        import queue
        while True:
            try:
                self.back.get_nowait()
            except queue.Empty:
                return

    def _await(self, idx, timeout):
        """Wait until worker `idx` reports (next point, blocked on a known lock, or done).  Reports of other workers (left
        waiting earlier) are absorbed: they have set their own state."""
        import queue
        deadline = time.time() + timeout
        while True:
            left = deadline - time.time()
            if left <= 0:
                return False
            try:
                i = self.back.get(timeout=left)
            except queue.Empty:
                return False
            if i == idx:
                return True

    def run(self, policy):
        # workers report to the scheduler through a queue of worker indices; the scheduler grants steps through one binary
        # semaphore per worker
        import queue
        self.back = queue.Queue()
        self.os_blocks = 0
        for w in self.workers:
            w.go = threading.Lock()
            w.go.acquire()
            w.thread = threading.Thread(target=self._body, args=(w,), daemon=True, name=f"c10-worker-{w.idx}")
        try:
            for w in self.workers:
                w.thread.start()
                if not self._await(w.idx, STEP_TIMEOUT):
                    raise core.MachineryError("scheduler: workers did not start")
            while True:
                en = self.enabled()
                if not en:
                    if all(w.state == "done" for w in self.workers):
                        break
                    if any(w.state == "osblocked" for w in self.workers):
                        # every schedulable worker has finished or waits; a worker left on an unknown primitive may still wake up
                        try:
                            self.back.get(timeout=STEP_TIMEOUT)
                            continue
                        except queue.Empty:
                            pass
                    self.deadlock = True
                    break
                choice = policy(self, en)
                if choice not in en:
                    raise core.MachineryError(f"scheduler: policy chose {choice}, enabled {en}")
                self.trace.append((choice, tuple(en)))
                w = self.workers[choice]
                w.steps += 1
                self._drain()
                w.go.release()
                if not self._await(choice, BLOCK_TIMEOUT):
                    with self.state_lock:
                        left_waiting = w.state == "running" and w.thread.is_alive()
                        if left_waiting:
                            # the worker waits on something the scheduler cannot see (not one of the proxied locks): leave it
                            # there and let the others run; it reports again when it reaches its next point
                            w.state = "osblocked"
                    if left_waiting:
                        self.os_blocks += 1
                        Scheduler.total_os_blocks += 1
                        if Scheduler.total_os_blocks > OS_BLOCK_BUDGET:
                            raise core.MachineryError(f"scheduler: workers waited on primitives unknown to the scheduler more than {OS_BLOCK_BUDGET} times "
                                                      f"(last: worker {choice} at {w.pos})")
                        self.events.append(("osblocked", choice))
                    elif not self._await(choice, STEP_TIMEOUT):
                        raise core.MachineryError(f"scheduler: a step of worker {choice} at {w.pos} did not finish within {STEP_TIMEOUT}s")
        finally:
            self.aborted = True
            for w in self.workers:
                if w.thread.ident is not None and w.go.locked():
                    w.go.release()
            for w in self.workers:
                if w.thread.ident is not None:
                    w.thread.join(timeout=STEP_TIMEOUT)
            alive = [w.idx for w in self.workers if w.thread.is_alive()]
            if alive:
                raise core.MachineryError(f"scheduler: worker threads {alive} could not be joined")
        return [c for c, _ in self.trace]


# ---- policies: (scheduler, enabled) -> worker index

def lowest(s, en):
    return en[0]


def from_list(choices, then=lowest):
    """Follow `choices` (entries naming a worker that is not enabled are skipped), then `then`."""
    it = iter(choices)

    def pol(s, en):
        for c in it:
            if c in en:
                return c
        return then(s, en)
    return pol


def random_policy(rng, p_switch):
    state = {"cur": None}

    def pol(s, en):
        cur = state["cur"]
        if cur in en and rng.random() >= p_switch:
            return cur
        others = [e for e in en if e != cur] or en
        state["cur"] = rng.choice(others)
        return state["cur"]
    return pol


def sweep_policy(first, k):
    """Worker `first` runs k steps, then the others run (lowest first) as far as they can, then `first` continues."""
    def pol(s, en):
        if first in en and s.workers[first].steps < k:
            return first
        others = [e for e in en if e != first]
        return others[0] if others else first
    return pol


def critical_policy(first, pred):
    """Worker `first` runs until `pred(pos)` holds for the point it stopped at, then the others, then `first`."""
    state = {"hit": False}

    def pol(s, en):
        if not state["hit"] and first in en:
            if s.workers[first].steps > 0 and pred(s.workers[first].pos):
                state["hit"] = True
            else:
                return first
        others = [e for e in en if e != first]
        return others[0] if others else first
    return pol


def rle(choices):
    out = []
    for c in choices:
        if out and out[-1][0] == c:
            out[-1][1] += 1
        else:
            out.append([c, 1])
    return out


def unrle(segs):
    return [c for c, n in segs for _ in range(n)]


def sched_str(choices):
    return " ".join(f"{'ABCDEFGH'[c]}{n}" for c, n in rle(choices))


# =====================================================================================================
# registry-level programs on a fresh BackendRegistry with synthetic backends
# =====================================================================================================

class Run(c11.RealRun):
    """c11's runner plus `get_by_tensors`, a catch-all for unexpected exceptions, and tolerant backend identification
    (after a lost update a failing factory may run twice and produce two InvalidBackend objects of one name)."""

    def uid(self, obj):
        if id(obj) in self.uid_of:
            return self.uid_of[id(obj)]
        if isinstance(obj, self.B.InvalidBackend):
            for s in self.world.specs:
                if s["failing"] and s["name"] == obj.name:
                    self.uid_of[id(obj)] = s["uid"]
                    self.objs.setdefault(s["uid"], obj)
                    return s["uid"]
        raise core.MachineryError(f"unknown backend object {obj!r}")

    def do(self, op):
        try:
            if op["op"] == "get_by_tensors":
                try:
                    r = self.reg.get_by_tensors([self.world.type_objs[t] for t in op["tys"]])
                    return {"backends": sorted(self.uid(b) for b in r)}
                except ValueError:
                    return "ValueError"
            return super().do(op)
        except core.MachineryError:
            raise
        except Exception as e:   # anything the sequential code never raises
            return {"exception": type(e).__name__}


def canon_state(s):
    return {**s, "memo": sorted(s["memo"], key=lambda e: (e["tys"], e["b"])), "seen": sorted(s["seen"])}


def canon_model_out(o, world):
    if isinstance(o, dict) and "multiple" in o:
        return {"multiple": sorted(world.by_uid[u]["name"] for u in o["multiple"])}
    return o


def key(obj):
    return json.dumps(obj, sort_keys=True)


class Case:
    """World + sequential prefix + per-thread programs (abstract ops of c11 plus get_by_tensors)."""

    def __init__(self, wseed, prefix, progs):
        self.wseed = wseed
        self.world = c11.World(random.Random(wseed))
        self.prefix = prefix
        self.progs = progs
        self._serial = None

    def to_json(self):
        return {"world_seed": self.wseed, "backends": self.world.specs, "prefix": self.prefix, "programs": self.progs}

    @staticmethod
    def from_json(j):
        return Case(j["world_seed"], j["prefix"], j["programs"])

    def model_ok(self):
        return not any(o["op"] == "get_by_tensors" for p in self.progs for o in p) and not any(o["op"] == "get_by_tensors" for o in self.prefix)

    def orders(self):
        """All merges of the programs, as tuples of thread indices."""
        def rec(left):
            if not any(left):
                yield ()
                return
            for i, n in enumerate(left):
                if n:
                    nl = list(left)
                    nl[i] -= 1
                    for r in rec(nl):
                        yield (i,) + r
        return list(rec([len(p) for p in self.progs]))

    def run_serial(self, order):
        outs = [[] for _ in self.progs]
        pos = [0] * len(self.progs)
        with Run(self.world) as rr:
            for op in self.prefix:
                rr.do(op)
            for t in order:
                outs[t].append(rr.do(self.progs[t][pos[t]]))
                pos[t] += 1
            st = canon_state(rr.state())
        return {"outs": outs, "state": st}

    def serial_outcomes(self):
        """{canonical outcome: one order producing it} over all serial orders (the ORACLE's reference set)."""
        if self._serial is None:
            d = {}
            for o in self.orders():
                d.setdefault(key(self.run_serial(o)), o)
            self._serial = d
        return self._serial

    def run_conc(self, policy, point_filter=None):
        """Run the programs concurrently on a fresh real registry under the scheduler.  Returns
        (outcome, choices, info)."""
        with Run(self.world) as rr:
            for op in self.prefix:
                rr.do(op)
            sched = Scheduler([rr.B.__file__], point_filter=point_filter)
            pset = ProxySet(sched, rr.reg, [rr.B])
            proxy = pset.main
            outs = [[] for _ in self.progs]

            def body(t):
                def fn():
                    for op in self.progs[t]:
                        if op["op"] == "import":
                            sched.events.append(("env", t))
                        outs[t].append(rr.do(op))
                return fn
            for t in range(len(self.progs)):
                sched.add(body(t))
            try:
                choices = sched.run(policy)
            finally:
                pset.restore()
            for w in sched.workers:
                if w.error is not None:
                    if isinstance(w.error, core.MachineryError):
                        raise w.error
                    raise core.MachineryError(f"worker {w.idx} died: {w.error!r}")
            # a thread that never finished (deadlock) has fewer outcomes than calls
            info = {"deadlock": sched.deadlock, "events": list(sched.events), "steps": [w.steps for w in sched.workers],
                    "lock_held_at_end": pset.any_owned(), "enabled": [list(en) for _, en in sched.trace],
                    "blocked": sched.blocked}
            if sched.deadlock or pset.any_owned():
                pset.reset()
            st = canon_state(rr.state())
        return {"outs": outs, "state": st}, choices, info

    def verdict(self, outcome, info):
        """None if the outcome is that of some serial order, else a description."""
        if info["deadlock"]:
            return "deadlock: unfinished threads are all waiting for the registry lock"
        if info["lock_held_at_end"]:
            return "a finished thread still owns the registry lock"
        if key(outcome) in self.serial_outcomes():
            return None
        return "outcome (results per call + final registry state) is not the outcome of any serial order of the calls"


def gen_case(rng, nthreads, max_calls=3):
    wseed = rng.getrandbits(32)
    world = c11.World(random.Random(wseed))
    specs = list(world.specs)
    rng.shuffle(specs)
    all_mods = world.modules + ["numpy"]

    def reg_op(s):
        if s["eager"] and not s["failing"]:
            return {"op": "register", "uid": s["uid"]}
        return {"op": "register_on_import", "uid": s["uid"]}
    n_pre = rng.randint(0, len(specs))
    prefix = [reg_op(s) for s in specs[:n_pre]]
    pending = specs[n_pre:]
    not_imported = []
    for m in all_mods:
        if rng.random() < 0.45:
            prefix.append({"op": "import", "m": m})
        else:
            not_imported.append(m)
    rng.shuffle(prefix)
    valid = [s for s in world.specs if not s["failing"]]
    names = [s["name"] for s in world.specs] + ["nosuch"]
    tys_all = sorted(world.type_objs)
    progs = []
    for _ in range(nthreads):
        budget = rng.randint(1, max_calls)
        prog = []
        while len(prog) < budget:
            r = rng.random()
            if r < 0.28 and valid and len(prog) + 2 <= max_calls:
                s = rng.choice(valid)
                prog.append({"op": "enter", "uid": s["uid"]})
                if rng.random() < 0.4 and len(prog) + 2 <= max_calls:
                    prog.append({"op": "get", "arg": {"t": "none"}, "tys": [rng.choice(tys_all)]})
                prog.append({"op": "exit", "uid": s["uid"]})
            elif r < 0.45 and pending:
                prog.append(reg_op(pending.pop()))
            elif r < 0.55 and not_imported:
                prog.append({"op": "import", "m": not_imported.pop(rng.randrange(len(not_imported)))})
            elif r < 0.65:
                prog.append({"op": "get_by_name", "n": rng.choice(names)})
            elif r < 0.71:
                prog.append({"op": "get_by_tensors", "tys": [rng.choice(tys_all) for _ in range(rng.randint(0, 2))]})
            else:
                a = rng.random()
                arg = {"t": "none"} if a < 0.75 else {"t": "name", "n": rng.choice(names)} if a < 0.93 else {"t": "other"}
                prog.append({"op": "get", "arg": arg, "tys": [rng.choice(tys_all) for _ in range(rng.choice([0, 1, 1, 1, 2]))]})
        progs.append(prog)
    return Case(wseed, prefix, progs)


def fixed_cases(rng):
    """The critical program pairs: thread A = one call of each public method, thread B = a short program whose
    effect on the registry is visible afterwards."""
    cases = []
    tries = 0
    worlds = 0
    while worlds < 2 and tries < 400:
        tries += 1
        wseed = rng.getrandbits(32)
        world = c11.World(random.Random(wseed))
        valid = [s for s in world.specs if not s["failing"]]
        eager = [s for s in valid if s["eager"]]
        if len(valid) < 2 or not eager:
            continue
        s0, s1 = valid[0], valid[1]
        prefix = [{"op": "register", "uid": s0["uid"]}]
        ty0 = s0["accepts"][0]
        a_calls = {
            "get": [{"op": "get", "arg": {"t": "none"}, "tys": [ty0]}],
            "get_by_name": [{"op": "get_by_name", "n": s0["name"]}],
            "get_by_tensors": [{"op": "get_by_tensors", "tys": [ty0]}],
            "enter": [{"op": "enter", "uid": s0["uid"]}],
            "exit": [{"op": "exit", "uid": s0["uid"]}],
            "register": [{"op": "register", "uid": s1["uid"]}],
            "register_on_import": [{"op": "register_on_import", "uid": s1["uid"]}],
        }
        b_progs = [
            [{"op": "enter", "uid": s0["uid"]}, {"op": "exit", "uid": s0["uid"]}],
            [{"op": "get", "arg": {"t": "none"}, "tys": [ty0]}, {"op": "get_by_name", "n": s0["name"]}],
        ]
        others = [s for s in world.specs if s["uid"] not in (s0["uid"], s1["uid"])]
        if others:
            o = others[0]
            b_progs.append([{"op": "register" if (o["eager"] and not o["failing"]) else "register_on_import", "uid": o["uid"]},
                            {"op": "get_by_name", "n": o["name"]}])
        # a lookup that has to look for newly imported modules (iterates sys.modules) while the other thread imports one
        for k, fw in enumerate(world.modules[:2]):
            look = [{"op": "get", "arg": {"t": "none"}, "tys": [world.unknown]}, {"op": "get_by_name", "n": "nosuch"}]
            cases.append(("get+import", Case(wseed, list(prefix), [look, [{"op": "import", "m": fw}]])))
        for m, a in a_calls.items():
            pre = list(prefix)
            if m == "exit":
                pre.append({"op": "enter", "uid": s0["uid"]})
            for b in b_progs:
                if m == "exit" and b[0]["op"] == "enter":
                    # B's with-block nested into A's still-open one: fine, the stack is global
                    pass
                cases.append((m, Case(wseed, pre, [a, b])))
        worlds += 1
    return cases


# ---- the two critical preemption points of thread A, read off the source structure:
#      "has read self.state"  = stopped at the call event of a BackendRegistryState method
#      "is about to store"    = stopped at the return event of a public BackendRegistryState method
def after_read(pos):
    return pos[2] == "call" and pos[3].startswith("BackendRegistryState.") and not pos[3].split(".")[1].startswith("_")


def before_write(pos):
    return pos[2] == "return" and pos[3].startswith("BackendRegistryState.") and not pos[3].split(".")[1].startswith("_") \
        and pos[3].count(".") == 1


_first_line = {}


def coarse_points(frame, event):
    """Preemption points for the exhaustive enumeration, three per registry call: the first source line of the public
    BackendRegistry method (nothing read, lock not yet taken), the call of the public BackendRegistryState method
    (`self.state` has been read) and its return (the new state is about to be stored).  Steps between these points do not
    touch shared data, so every interleaving of the finer steps is equivalent to one of these."""
    code = frame.f_code
    q = getattr(code, "co_qualname", "")
    if q.startswith("BackendRegistry.") and q.count(".") == 1:
        if event != "line":
            return False
        fl = _first_line.get(code)
        if fl is None:
            fl = min(l for _, _, l in code.co_lines() if l is not None and l > code.co_firstlineno)
            _first_line[code] = fl
        return frame.f_lineno == fl
    if q.startswith("BackendRegistryState.") and q.count(".") == 1 and not q.split(".")[1].startswith("_"):
        return event in ("call", "return")
    return False


# =====================================================================================================
# checking one run
# =====================================================================================================

class Checker:
    def __init__(self, ctx):
        self.ctx = ctx
        self.found = 0
        self.runs = 0
        self.model_cache = {}
        self.reported_cases = set()
        facts = ctx.facts.get("Registry", {})
        self.rc = {"registerClearsMemo": bool(facts.get("registerClearsMemo", False))}
        locked = facts.get("locked", {})
        self.locks = {m: bool(locked.get(m, False)) for m in METHODS}
        self.all_locked = {m: True for m in METHODS}

    # ---- model requests
    def model_req(self, case, kind, **kw):
        w = case.world
        return {"kind": kind, "cfg": self.rc, "mods": [], "init": c11.to_model_ops(w, case.prefix),
                "progs": [c11.to_model_ops(w, p) for p in case.progs], **kw}

    def model_outcome(self, case, o):
        return {"outs": [[canon_model_out(x, case.world) for x in l] for l in o["outs"]], "state": canon_state(o["state"])}

    def model_sets(self, case):
        """(serial outcome keys, reachable outcome keys under the extracted lock cfg, any deadlock) from the driver."""
        k = key(case.to_json())
        if k not in self.model_cache:
            drv = self.ctx.driver()
            ser = drv.ask(self.model_req(case, "serial_outcomes"))["outcomes"]
            exp = drv.ask(self.model_req(case, "explore", locks=self.locks))["outcomes"]
            self.model_cache[k] = ({key(self.model_outcome(case, o["outcome"])) for o in ser},
                                   {key(self.model_outcome(case, o["outcome"])) for o in exp if not o["deadlock"]},
                                   any(o["deadlock"] for o in exp))
            self.ctx.count("model_explore_requests")
        return self.model_cache[k]

    # ---- one concurrent run, all comparisons
    def check(self, case, policy, family, point_filter=None, compare_model=True):
        ctx = self.ctx
        outcome, choices, info = case.run_conc(policy, point_filter)
        self.runs += 1
        switches = max(0, len(rle(choices)) - 1)
        ctx.case([case.to_json(), choices], nontrivial=switches >= 2)
        ctx.count("family:" + family)
        ctx.count("switches:" + (str(switches) if switches < 6 else "6+"))
        ctx.count("threads:" + str(len(case.progs)))
        if info["blocked"]:
            ctx.count("runs_with_lock_contention")
        bad = case.verdict(outcome, info)
        if bad is None:
            ser_order = case.serial_outcomes()[key(outcome)]
            ctx.count("linearized_as_program_order" if list(ser_order) == sorted(ser_order) else "linearized_interleaved")
        if compare_model and ctx.driver_ok and case.model_ok() and sum(len(p) for p in case.progs) <= 8:
            ser_m, reach_m, dead_m = self.model_sets(case)
            ser_r = set(case.serial_outcomes())
            if ser_m != ser_r:
                ctx.tie_broken("correspondence:serial-outcomes",
                               f"serial outcomes of the model and of the real registry differ for {key(case.to_json())[:600]}")
            if bad is None and key(outcome) not in reach_m:
                ctx.tie_broken("correspondence:sched-model",
                               f"real outcome under schedule {sched_str(choices)} is not reachable in the interleaving model: {key(case.to_json())[:600]}")
            # the model run in the observed commit order must reproduce the observed outcome exactly
            ev = info["events"]
            per = [sum(1 for _, t in ev if t == i) for i in range(len(case.progs))]
            has_env = any(o["op"] == "import" for p in case.progs for o in p)   # an import commits when sys.modules is read, not at an acquisition
            if bad is None and not has_env and per == [len(p) for p in case.progs]:
                msched = []
                for kind, t in ev:
                    msched += [t] if kind == "env" else [t] * 4
                r = ctx.driver().ask(self.model_req(case, "sched", locks=self.all_locked, schedule=msched))
                ctx.count("model_sched_requests")
                if not r["finished"] or key(self.model_outcome(case, r["outcome"])) != key(outcome):
                    ctx.tie_broken("correspondence:commit-order",
                                   f"model run in lock-acquisition order {[t for _, t in ev]} differs from the real outcome: {key(case.to_json())[:600]}")
        if bad is not None:
            self.report(case, choices, outcome, bad, point_filter)
        return bad

    def fails(self, case, choices, point_filter):
        outcome, actual, info = case.run_conc(from_list(choices), point_filter)
        self.runs += 1
        return case.verdict(outcome, info) is not None, actual, outcome, info

    def shrink(self, case, choices, point_filter):
        """Fewer context switches: drop segments of the run-length encoded schedule while the run still fails
        (the remaining steps are appended by the completion rule 'lowest enabled thread first')."""
        best = choices
        budget = 80
        improved = True
        while improved and budget > 0:
            improved = False
            segs = rle(best)
            cands = [segs[:i] + segs[i + 1:] for i in range(len(segs) - 1, -1, -1)]
            cands += [segs[:i] for i in range(len(segs) - 1, 0, -1)]
            for c in cands:
                if budget <= 0:
                    break
                budget -= 1
                f, actual, _, _ = self.fails(case, unrle(c), point_filter)
                if f and len(rle(actual)) < len(rle(best)):
                    best = actual
                    improved = True
                    break
        return best

    def report(self, case, choices, outcome, why, point_filter):
        ck = key(case.to_json())
        if self.found >= 3 or ck in self.reported_cases:
            return
        self.reported_cases.add(ck)
        self.found += 1
        small = self.shrink(case, choices, point_filter)
        f, actual, out2, info2 = self.fails(case, small, point_filter)
        if not f:   # cannot happen (runs are deterministic); keep the original
            actual, out2 = choices, outcome
            why2 = why
        else:
            why2 = case.verdict(out2, info2)
        sig = "schedule:" + core.digest([case.to_json(), sched_str(actual), "coarse" if point_filter else "fine"])
        self.ctx.violation(sig, {
            "kind": "registry: " + why2,
            "case": case.to_json(),
            "points": "coarse" if point_filter else "fine",
            "schedule": actual,
            "schedule_rle": sched_str(actual),
            "observed": out2,
            "serial_outcomes": [{"order": list(o), "outcome": json.loads(k)} for k, o in list(case.serial_outcomes().items())[:6]],
            "how_to_read": "threads A,B,.. run the listed programs on a fresh BackendRegistry after the sequential prefix; 'A3 B35' = A runs 3 "
                           "preemption steps (line/call/return events of frontend/backend.py), then B 35, ...; remaining steps: lowest enabled thread first",
        })


# =====================================================================================================
# end-to-end programs on the global registry (einx.sum / einx.id / einx.dot + `with backend:`)
# =====================================================================================================

def e2e_files():
    import einx._src.frontend.backend as m1
    import einx._src.frontend.api as m2
    import einx._src.util.lru_cache as m3
    import einx._src.tracer.graph as m4
    return [m.__file__ for m in (m1, m2, m3, m4)]


class E2E:
    """Three threads on the process-wide registry.  Every run uses fresh axis names, so every einx call misses the
    graph cache and traces/compiles for the first time while the other threads are in the same code."""

    def __init__(self, tag, nthreads=3):
        self.tag = tag
        self.nthreads = nthreads

    def programs(self):
        import einx
        t = self.tag
        x = np.arange(24, dtype=np.int64).reshape(2, 3, 4)
        y = np.arange(12, dtype=np.int64).reshape(3, 4) + 1
        # the last call of each thread: the same operation and description with keyword values -1 / -2, which are different
        # arguments whose CPython hashes coincide (two first-time compilations that only a hash-keyed table would confuse);
        # the id calls need consecutive reshapes, so both threads are inside the graph optimiser's patterns at the same time
        calls_a = [("sum", lambda: einx.sum(f"a{t} [b{t}] c{t}", x), x.sum(axis=1)),
                   ("sum", lambda: einx.sum(f"a{t} [b{t}] c{t}", x), x.sum(axis=1)),
                   ("id", lambda: einx.id(f"p{t} q{t} -> q{t} p{t}", y), y.T),
                   ("id", lambda: einx.id(f"(g{t} h{t}) r{t} -> g{t} (h{t} r{t})", y.reshape(6, 2), **{f"g{t}": 2}), y.reshape(2, 6)),
                   ("roll", lambda: einx.roll(f"m{t} [n{t}]", y, shift=-1), np.roll(y, -1, axis=1))]
        calls_b = [("sum", lambda: einx.sum(f"a{t} [b{t}] c{t}", x), x.sum(axis=1)),   # same key as A: racing first compilation
                   ("dot", lambda: einx.dot(f"i{t} j{t}, k{t} j{t} -> i{t} k{t}", y, y), y @ y.T),
                   ("sum", lambda: einx.sum(f"u{t} [v{t}]", y), y.sum(axis=1)),
                   ("id", lambda: einx.id(f"(e{t} f{t}) s{t} -> e{t} (f{t} s{t})", x.reshape(6, 4), **{f"e{t}": 3}), x.reshape(3, 8)),
                   ("roll", lambda: einx.roll(f"m{t} [n{t}]", y, shift=-2), np.roll(y, -2, axis=1))]
        return [calls_a, calls_b][: max(1, self.nthreads - 1)]

    def run(self, policy):
        import einx
        from einx._src.frontend.backend import registry
        progs = self.programs()
        sched = Scheduler(e2e_files())
        import importlib
        pset = ProxySet(sched, registry, [sys.modules[n] for n in ("einx._src.frontend.backend", "einx._src.frontend.api",
                                                                   "einx._src.util.lru_cache", "einx._src.tracer.graph") if n in sys.modules])
        proxy = pset.main
        before = (list(registry.state.use_stack), [id(b) for b in registry.state.backends])
        results = [[] for _ in range(self.nthreads)]
        alt = einx.backend.get("numpy.einsum")

        def caller(i):
            def fn():
                for name, f, want in progs[i]:
                    try:
                        got = f()
                        ok = isinstance(got, np.ndarray) and got.shape == want.shape and bool(np.array_equal(got, want))
                        results[i].append((name, "ok" if ok else f"wrong result {np.asarray(got).tolist()!r}"))
                    except Exception as e:
                        results[i].append((name, f"{type(e).__name__}: {str(e)[:200]}"))
            return fn

        def with_thread():
            for _ in range(2):
                try:
                    with alt:
                        r = einx.backend.get(None, [np.zeros(2)])
                        results[self.nthreads - 1].append(("with", "ok" if r is alt else f"inside `with numpy.einsum:` the lookup returned {getattr(r, 'name', r)!r}"))
                except Exception as e:
                    results[self.nthreads - 1].append(("with", f"{type(e).__name__}: {str(e)[:200]}"))
        for i in range(len(progs)):
            sched.add(caller(i))
        if self.nthreads > len(progs):
            sched.add(with_thread)
        try:
            choices = sched.run(policy)
        finally:
            pset.restore()
        for w in sched.workers:
            if w.error is not None:
                raise core.MachineryError(f"e2e worker {w.idx} died: {w.error!r}")
        problems = [f"thread {'ABC'[i]} call {j} ({n}): {r}" for i, rs in enumerate(results) for j, (n, r) in enumerate(rs) if r != "ok"]
        if sched.deadlock:
            problems.append("deadlock")
        if pset.any_owned():
            problems.append("registry lock still owned after all threads finished")
        after = (list(registry.state.use_stack), [id(b) for b in registry.state.backends])
        if after != before:
            problems.append(f"global registry changed: use_stack {len(before[0])}->{len(after[0])} entries, backends {len(before[1])}->{len(after[1])}")
            # repair for the following runs (the check itself must not leave the process in a bad state)
            from einx._src.frontend.backend import BackendRegistryState
            ns = BackendRegistryState(registry.state)
            ns.use_stack = []
            registry.state = ns
        return problems, choices


def e2e_search(ctx, n, found_cap=2):
    rng = ctx.rng
    found = 0
    for k in range(n):
        tag = f"x{ctx.seed}x{k}"
        e = E2E(tag, nthreads=rng.choice([2, 3, 3]))
        p = rng.choice([0.01, 0.03, 0.1, 0.3])
        problems, choices = e.run(random_policy(random.Random(rng.getrandbits(32)), p))
        switches = max(0, len(rle(choices)) - 1)
        ctx.case(["e2e", tag, choices], nontrivial=switches >= 2)
        ctx.count("family:e2e-random")
        ctx.count("e2e_steps", len(choices))
        if problems:
            # shrink (fresh tag per attempt: cold cache every time): shortest failing prefix of the schedule (the rest is
            # completed serially, lowest thread first), then drop segments while some problem remains
            best = choices
            attempt = [0]

            def still(cand):
                attempt[0] += 1
                pr2, act = E2E(f"{tag}s{attempt[0]}", e.nthreads).run(from_list(cand))
                return pr2, act
            lo, hi = 0, len(best)
            while hi - lo > 1 and attempt[0] < 14:
                mid = (lo + hi) // 2
                pr2, act = still(best[:mid])
                if pr2:
                    hi, problems = mid, pr2
                else:
                    lo = mid
            if hi < len(best):
                pr2, act = still(best[:hi])
                if pr2:
                    best, problems = act, pr2
            budget = 30
            improved = True
            while improved and budget > 0:
                improved = False
                segs = rle(best)
                # only the segments before the serial tail matter
                for i in range(len(segs) - 1, -1, -1):
                    budget -= 1
                    pr2, act = still(unrle(segs[:i] + segs[i + 1:]))
                    if pr2 and len(rle(act)) < len(rle(best)):
                        best, problems, improved = act, pr2, True
                        break
                    if budget <= 0:
                        break
            sig = "e2e-schedule:" + core.digest([e.nthreads, sched_str(best)])
            ctx.violation(sig, {"kind": "end-to-end: a call failed or returned a wrong value under a concurrent schedule although every call succeeds sequentially",
                                "threads": e.nthreads, "tag": tag, "schedule": best, "schedule_rle": sched_str(best), "problems": problems,
                                "how_to_read": "thread A: sum,sum,id; thread B: sum (same cache key as A), dot, sum; thread C: twice `with numpy.einsum: get()`; all einx calls are "
                                               "first-time compilations; steps = line/call/return events in frontend/backend.py, frontend/api.py, util/lru_cache.py, tracer/graph.py"})
            found += 1
            if found >= found_cap:
                break
    return found


# =====================================================================================================
# run / replay
# =====================================================================================================

def exhaustive(chk, case, cap, point_filter):
    """All maximal schedules (stateless DFS over the choices of enabled threads).  Returns (#runs, complete?)."""
    stack = [[]]
    runs = 0
    while stack and runs < cap and chk.found < 3:
        prefix = stack.pop()

        def pol(s, en, it=iter(prefix)):
            for c in it:
                if c not in en:
                    raise core.MachineryError("exhaustive: replayed prefix is not enabled (non-deterministic run)")
                return c
            return en[0]
        outcome, choices, info = case.run_conc(pol, point_filter)
        runs += 1
        chk.runs += 1
        chk.ctx.case([case.to_json(), choices, "coarse"], nontrivial=len(rle(choices)) >= 3)
        chk.ctx.count("family:exhaustive")
        bad = case.verdict(outcome, info)
        if bad is not None:
            chk.report(case, choices, outcome, bad, point_filter)
        en_sets = info["enabled"]
        for k in range(len(prefix), len(choices)):
            for alt in en_sets[k]:
                if alt != choices[k]:
                    stack.append(choices[:k] + [alt])
    return runs, not stack


def run(ctx):
    rng = ctx.rng
    chk = Checker(ctx)
    broken = bool(ctx.broken)
    quick = ctx.quick
    t0 = time.time()
    ctx.extra["rule"] = (
        "a case = synthetic world (2-6 backends, c11 generator) + sequential prefix + 2-3 thread programs of 1-3 registry calls "
        "(get by types/name, get_by_tensors, register, register_on_import, import, enter/exit pairs) on a fresh BackendRegistry, run under the "
        "deterministic scheduler with one schedule; families: critical (thread A preempted right after it read self.state / right before it "
        "stores, for each public method), sweep (A runs k steps, then B completely, then A; every k), random (switch probability 0.02-0.4), "
        "exhaustive (all schedules at coarse points, thorough tier), e2e (einx.sum/id/dot first-time compilations + `with backend:` on "
        "the global registry); a run counts as non-trivial when its schedule has at least 2 context switches; distinct by digest of (case, schedule)")
    ctx.assumptions.append("CPython executes one thread at a time (GIL) and switches threads only between bytecodes; preemption is exercised at "
                           "line/call/return granularity of frontend/backend.py (+ api.py, util/lru_cache.py, tracer/graph.py end to end), not inside C functions")
    ctx.assumptions.append("the model reads sys.modules once per registry call (atomically with the store step); the real code reads it several times per call")
    ctx.extra["extracted_lock_table"] = chk.locks
    unlocked = [m for m in METHODS if not chk.locks[m]]

    # (i) critical schedules for every public method, (ii) sweeps
    fixed = fixed_cases(rng)
    if not fixed:
        raise core.MachineryError("no fixed cases could be generated")
    suspicious = set(unlocked)
    if not all(ok for _, ok in ctx.facts.get("Registry", {}).get("sysModulesIterations", [("?", False)])):
        suspicious.add("get+import")
    order = sorted(fixed, key=lambda mc: (mc[0] not in suspicious))   # what the extracted facts point at comes first
    for m, case in order:
        if chk.found >= 3:
            break
        for first in (0, 1):
            chk.check(case, critical_policy(first, after_read), "critical-after-read")
            chk.check(case, critical_policy(first, before_write), "critical-before-write")
    # what the interleaving model predicts for the extracted lock table (only interesting when a method is unlocked)
    if unlocked and ctx.driver_ok:
        pred = []
        for m, case in order:
            if m in unlocked and case.model_ok() and len(pred) < 4:
                ser_m, reach_m, dead_m = chk.model_sets(case)
                exp = ctx.driver().ask(chk.model_req(case, "explore", locks=chk.locks))["outcomes"]
                for o in exp:
                    if o["deadlock"] or key(chk.model_outcome(case, o["outcome"])) not in ser_m:
                        pred.append({"unlocked_method": m, "programs": case.progs, "model_schedule": o["schedule"],
                                     "model_outcome": o["outcome"]["outs"], "deadlock": o["deadlock"]})
                        break
        ctx.extra["model_predicted_anomalies"] = pred
    n_sweep_cases = (len(order) if (broken or not quick) else 6)
    if n_sweep_cases >= len(order):
        sweep_cases = order[:]
    else:
        always = [i for i, (m, _) in enumerate(order) if m in suspicious or m == "get+import"][:6]
        rest = [i for i in range(len(order)) if i not in always]
        sweep_cases = [order[i] for i in sorted(always + rng.sample(rest, max(0, n_sweep_cases - len(always))))]
    for m, case in sweep_cases:
        if chk.found >= 3:
            break
        for first in (0, 1):
            # number of steps of `first` when it runs alone first
            _, choices, _ = case.run_conc(sweep_policy(first, 10 ** 9))
            n_first = sum(1 for c in choices if c == first)
            ks = range(1, n_first)
            cap_k = 30 if (quick and not broken) else 60
            if n_first - 1 > cap_k:
                ks = sorted(rng.sample(range(1, n_first), cap_k))
            for k in ks:
                if chk.found >= 3:
                    break
                chk.check(case, sweep_policy(first, k), "sweep", compare_model=(k % 4 == 0))

    ctx.extra["phase_s"] = {"critical+sweep": round(time.time() - t0, 1)}
    # (iii) end to end on the global registry
    n_e2e = (20 if quick else 150) * (2 if broken else 1)
    found_e2e = e2e_search(ctx, n_e2e)

    ctx.extra["phase_s"]["e2e"] = round(time.time() - t0, 1)
    # (iii b) the compiled-function cache under the scheduler (model Cache/Concurrent.lean, theorems Props/C10Cache.lean)
    from props import c10_cache
    try:
        c10_cache.run(ctx)
    except core.MachineryError as e:
        # the cache harness follows the call/return structure of util/lru_cache.py; when that structure is not the one it
        # knows, the tie is broken (the e2e schedules above and below still search for a failing input)
        if "timeout" in str(e) or "did not finish" in str(e) or "could not be joined" in str(e):
            raise
        ctx.tie_broken("correspondence:cache-interleaving-harness", str(e)[:300])

    def enough():
        # something is broken and a concrete failing input has been found: the expensive phases add nothing
        return broken and (chk.found > 0 or found_e2e > 0)

    # (iv) random cases and schedules
    n_rand = 0 if enough() else (200 if quick else 1000) * (3 if broken else 1)
    for i in range(n_rand):
        if chk.found >= 3:
            break
        case = gen_case(rng, rng.choice([2, 2, 3]))
        if len(case.orders()) > (150 if quick else 300):
            continue
        for _ in range(1 if quick else 2):
            p = rng.choice([0.02, 0.05, 0.1, 0.2, 0.4])
            bad = chk.check(case, random_policy(random.Random(rng.getrandbits(32)), p), "random")
        if i < 2:
            oc, ch, _ = case.run_conc(random_policy(random.Random(1), 0.2))
            ctx.sample({"case": case.to_json(), "schedule": sched_str(ch), "outcome": oc["outs"]})

    ctx.extra["phase_s"]["random"] = round(time.time() - t0, 1)
    # (v) exhaustive interleavings at coarse points (thorough, or when something is broken and nothing was found so far)
    if (not quick or broken) and not enough():
        cap_total = 9000 if not quick else 1000
        done = 0
        complete = 0
        cases_ex = [c for _, c in order if sum(len(p) for p in c.progs) <= 4]
        for _ in range(40):
            c = gen_case(rng, 2, max_calls=3)
            if len(c.orders()) <= 20:
                cases_ex.append(c)
        for case in cases_ex:
            if done >= cap_total or chk.found >= 3:
                break
            r, comp = exhaustive(chk, case, min(1500 if not quick else 300, cap_total - done), coarse_points)
            done += r
            complete += int(comp)
        ctx.extra["exhaustive"] = {"runs": done, "program_pairs_fully_enumerated": complete, "program_pairs": len(cases_ex)}

    ctx.extra["phase_s"]["exhaustive"] = round(time.time() - t0, 1)
    ctx.extra["scheduler_runs"] = chk.runs
    ctx.extra["search_wall_s"] = round(time.time() - t0, 1)


def replay(ctx, path):
    with open(path) as f:
        doc = json.load(f)
    r = doc["replay"]
    print(json.dumps({k: v for k, v in r.items() if k not in ("case", "serial_outcomes")}, indent=1)[:3000])
    if "cache_case" in r:
        from props import c10_cache
        return c10_cache.replay(ctx, r)
    if "case" in r:
        case = Case.from_json(r["case"])
        pf = coarse_points if r.get("points") == "coarse" else None
        outcome, actual, info = case.run_conc(from_list(r["schedule"]), pf)
        bad = case.verdict(outcome, info)
        print("programs:", json.dumps(case.progs))
        print("replayed schedule:", sched_str(actual))
        print("observed outcome:", json.dumps(outcome["outs"]), "final stack", outcome["state"]["stack"])
        print("REPRODUCED: " + bad if bad else "not reproduced: the outcome is that of a serial order")
        return 1 if bad else 0
    if "tag" in r:
        e = E2E(r["tag"] + "r", r["threads"])
        problems, actual = e.run(from_list(r["schedule"]))
        print("replayed schedule:", sched_str(actual))
        print("REPRODUCED: " + "; ".join(problems) if problems else "not reproduced")
        return 1 if problems else 0
    return 0
