"""C02, CSE part — correspondence of the model's `valueRange` / `hasRepeatedAxis` (Lean, `Solve/Cse.lean`, driver kind
`value_range`) with the real `_value_range` / `_has_repeated_axis` of `einx/_src/namedtensor/stage2/cse.py`, and an
independent brute-force oracle for `_value_range`.

 (A) captured: `_value_range` and `_has_repeated_axis` are wrapped from outside (module globals of stage2/cse.py, which
     `cse` and the recursion look up at call time) while real `einx.solve_shapes` / `einx.matches` / `einx.id` calls run
     (fixed CSE-typical descriptions incl. the D3 inputs, plus the generator of the C02 check); every (argument, result)
     pair — arguments are stage-2 trees built by the real stage-2 code — is compared with the model.
 (B) generated: random stage-2 trees built with the real constructors (`stage2.Axis/List/FlattenedAxis/
     ConcatenatedAxis/Brackets`, Python lists at the top), incl. values 0, `min_value > 1` and repeated names.
 (C) oracle (does not use the Lean model): for generated trees without a repeated name and with positive constants, the
     set of values under all assignments `min_value <= axis <= N` is enumerated; below `N` this is the exact value set
     (a product/sum of positive terms is at least each of its axes).  A non-None `_value_range` must describe it exactly
     — the statement `valueRange_spec` proves for the model.

 (D) whole `cse`: the real `stage2.cse` is wrapped during the same real calls; every (expressions, options, result) is
     compared structurally with the model `cseTrees` (Lean, `Solve/CseTrees.lean`, driver kind `cse_trees`): candidate
     search, filters, selection order and tree surgery.  `unnamed.<uuid>` names are renamed canonically (first
     occurrence) on both sides.  Plus generated forests built with the real constructors (shared sub-expressions,
     slices, concatenations, brackets, `min_value > 1`, valued axes, both options) on which the real `cse` is called
     directly; an exception of the real code must be an `ok: false` of the model and vice versa.

A disagreement is a broken tie (`ctx.tie_broken`), which enlarges the budget of the C02 search; a value wrongly claimed by
`_value_range` is also turned into a concrete call (`matches("(E), (E)", n, n)`) that `run_cse` returns and the C02 check
judges with its own oracle like any other case.
"""
import itertools

N_ORACLE = 12


# ------------------------------------------------------------------ serialisation of real stage-2 trees

def vexpr_json(e, S):
    if isinstance(e, list):
        return {"t": "list", "c": [vexpr_json(c, S) for c in e]}
    if isinstance(e, S.Axis):
        return {"t": "axis", "n": e.name, "v": None if e.value is None else int(e.value), "min": int(e.min_value)}
    if isinstance(e, S.List):
        return {"t": "list", "c": [vexpr_json(c, S) for c in e.children]}
    if isinstance(e, S.ConcatenatedAxis):
        return {"t": "concat", "c": [vexpr_json(c, S) for c in e.children]}
    if isinstance(e, S.FlattenedAxis):
        return {"t": "flat", "e": vexpr_json(e.inner, S)}
    if isinstance(e, S.Brackets):
        return {"t": "br", "e": vexpr_json(e.inner, S)}
    raise TypeError(type(e))


def rename_json(j, ren):
    """canonical names for `unnamed.<uuid>` axes (first occurrence in `ren`, which is extended)"""
    if j is None:
        return None
    t = j["t"]
    if t == "axis":
        n = j["n"]
        if n.startswith("unnamed."):
            n = ren.setdefault(n, f"unnamed.{len(ren)}")
        return {"t": "axis", "n": n, "v": j["v"], "min": j["min"]}
    if t in ("list", "concat"):
        return {"t": t, "c": [rename_json(c, ren) for c in j["c"]]}
    return {"t": t, "e": rename_json(j["e"], ren)}


def forest_json(exprs, S, ren):
    return [None if e is None else rename_json(vexpr_json(e, S), ren) for e in exprs]


def canon_range(r):
    return None if r is None else [int(r[0]), bool(r[1])]


def render(j):
    t = j["t"]
    if t == "axis":
        s = j["n"] if j["v"] is None else str(j["v"])
        return s if j["min"] == 1 else f"{s}>={j['min']}"
    if t == "list":
        return " ".join(render(c) for c in j["c"])
    if t == "concat":
        return "(" + " + ".join(render(c) for c in j["c"]) + ")"
    if t == "flat":
        return "(" + render(j["e"]) + ")"
    return "[" + render(j["e"]) + "]"


# ------------------------------------------------------------------ (A) capture from real calls

class Wrap:
    def __init__(self):
        import sys
        import einx._src.namedtensor.stage2 as S
        M = sys.modules["einx._src.namedtensor.stage2.cse"]      # the attribute `stage2.cse` is the function, not the module
        self.M, self.S = M, S
        self.vr, self.rep = M._value_range, M._has_repeated_axis
        self.seen_vr, self.seen_rep = {}, {}
        self.cse = S.cse
        self.seen_cse = {}

    def __enter__(self):
        import json

        def vr(expr):
            r = self.vr(expr)
            j = vexpr_json(expr, self.S)
            self.seen_vr.setdefault(json.dumps(j, sort_keys=True), (j, canon_range(r)))
            return r

        def rep(exprlist):
            r = self.rep(exprlist)
            j = vexpr_json(list(exprlist), self.S)
            self.seen_rep.setdefault(json.dumps(j, sort_keys=True), (j, bool(r)))
            return r
        def cse(expressions, cse_concat=True, cse_in_brackets=False, verbose=False):
            expressions = list(expressions)
            ren = {}
            jin = forest_json(expressions, self.S, ren)
            r = self.cse(expressions, cse_concat=cse_concat, cse_in_brackets=cse_in_brackets, verbose=verbose)
            rec = {"roots": jin, "cse_concat": bool(cse_concat), "cse_in_brackets": bool(cse_in_brackets)}
            self.seen_cse.setdefault(json.dumps(rec, sort_keys=True), (rec, {"ok": True, "out": forest_json(list(r), self.S, ren)}))
            return r
        self.M._value_range = vr
        self.M._has_repeated_axis = rep
        self.S.cse = cse
        return self

    def __exit__(self, *a):
        self.M._value_range = self.vr
        self.M._has_repeated_axis = self.rep
        self.S.cse = self.cse


FIXED_CALLS = [
    ("matches", "a (b c), (b c) d", [[2, 6], [6, 5]], {}),
    ("solve_shapes", "a (b c), (b c) d", [[2, 6], None], {"d": 5}),
    ("matches", "(b 3)", [[4]], {}),
    ("matches", "(b 3), (b 3)", [[6], [6]], {}),
    ("matches", "(a a)", [[8]], {}),
    ("matches", "(a a), (a a)", [[9], [9]], {}),
    ("matches", "c (a + b)", [[2, 1]], {}),
    ("matches", "c (a + b), (a + b)", [[2, 5], [5]], {}),
    ("matches", "((a + b) c), ((a + b) c)", [[6], [6]], {}),
    ("matches", "(a b c) d, (a b c)", [[8, 2], [8]], {}),
    ("matches", "(a b 1), (a b 1)", [[6], [6]], {}),
    ("matches", "(2 3 a), (2 3 a)", [[12], [12]], {}),
    ("matches", "((a + 2) (b + 3)), ((a + 2) (b + 3))", [[12], [12]], {}),
    ("matches", "(a (b c)) d, (a (b c))", [[8, 2], [8]], {}),
    ("solve_shapes", "(a b) (a b) c", [[4, 4, 3]], {}),
    ("id", "a (b c) -> (b c) a", [[2, 6]], {}),
    ("id", "(a + b) c -> c (a + b)", [[5, 2]], {}),
    ("sum", "a [(b c)]", [[2, 6]], {}),
    ("matches", "(a... ) b, (a...)", [[6, 2], [6]], {}),
    # whole-cse stream (D): slices, overlapping slices, nested candidates, single occurrences, both options
    ("matches", "(a b c 3) d, (a b c 3)", [[18, 2], [18]], {}),
    ("matches", "(a b c) (a b), d", [[8, 4], [3]], {}),
    ("matches", "(x a b) (a b) y", [[8, 4, 3]], {}),
    ("solve_shapes", "((a + b) c (d + e)) f", [[12, 2]], {"a": 1, "d": 1}),
    ("solve_shapes", "(a b) cse..., (a b)", [[6, 2, 3], [6]], {}),
    ("id", "a... (b c) -> (b c) a...", [[2, 3, 6]], {"b": 2}),
    ("id", "(a b) (c d) -> (c d) (a b)", [[6, 4]], {}),
    ("id", "b (s p) c -> b s (p c)", [[2, 6, 3]], {"p": 2}),
    ("sum", "a [(b c)] (d e)", [[2, 6, 4]], {}),
    ("sum", "a [c d] ([c d])", [[4, 2, 3, 6]], {}),
    ("sum", "a ([c d]) [c d]", [[4, 6, 2, 3]], {}),
    ("sum", "([b c] d) [e]", [[12, 5]], {"d": 2}),
    ("mean", "b [s...] (c d)", [[2, 3, 4, 6]], {"c": 2}),
    ("add", "(a b) c, (a b) -> (a b) c", [[6, 2], [6]], {}),
    ("add", "a (b + c), (b + c) -> a (b + c)", [[2, 5], [5]], {}),
    ("dot", "a (b c), (b c) d -> a d", [[2, 6], [6, 5]], {}),
    # D21 (work package cse2): overlapping slice candidates `a 1` / `1 d`
    ("solve_shapes", "(a 1 d), (1 d) c", [[6], [3, 2]], {}),
    ("matches", "(a 1 d), (1 d) c, (a 1)", [[12], [2, 2], [4]], {}),
]


def run_captured(ctx):
    from props import c02
    cases = [{"api": a, "desc": d, "shapes": [None if s is None else list(s) for s in sh], "params": dict(p)} for a, d, sh, p in FIXED_CALLS]
    n_gen = 120 if ctx.quick else 1500
    for _ in range(n_gen):
        c = c02.gen_case(ctx.rng)
        if c["api"] != "solve_axes":          # solve_axes runs with cse=False
            cases.append(c)
    from props import c02_sys
    with Wrap() as w, c02_sys.SysWrap() as sw:       # stream (E): the equations of the real stage 3 during the same calls
        for c in cases:
            r = c02.call_real(c)
            ctx.count("cse:real-calls")
            if r.get("exc") == "timeout":
                ctx.count("cse:real-call-timeout")
    w.sys = sw
    return w


# ------------------------------------------------------------------ (B) generated stage-2 trees (real constructors)

def gen_tree(rng, S, names, depth, counter):
    """A stage-2 expression of ndim 1 (or an Axis), built with the real classes; respects their assertions."""
    k = rng.random()
    if depth <= 0 or k < 0.45:
        if rng.random() < 0.3:
            counter[0] += 1
            return S.Axis(f"unnamed.{counter[0]}", rng.choice([1, 1, 1, 2, 3, 0, 4]), [])
        mn = 1 if rng.random() < 0.75 else rng.choice([2, 3, 5])
        return S.Axis(rng.choice(names), None, [], min_value=mn)
    if k < 0.7:
        n = rng.choice([0, 2, 2, 3, 3, 4])
        ch = [gen_tree(rng, S, names, depth - 1, counter) for _ in range(n)]
        return S.FlattenedAxis(S.List(ch, []), [])
    if k < 0.9:
        n = rng.choice([1, 2, 2, 3])
        return S.ConcatenatedAxis([gen_tree(rng, S, names, depth - 1, counter) for _ in range(n)], [])
    inner = gen_tree(rng, S, names, depth - 1, counter)
    return S.Brackets(inner, [])


def gen_arg(rng, S):
    """An argument of `_value_range`: an expression or a Python list of expressions (a run of children of a List)."""
    pool = ["a", "b", "c", "d", "e", "f", "g", "h"]
    names = pool[:rng.choice([2, 3, 5, 8])]
    counter = [0]
    depth = rng.choice([1, 2, 2, 3])
    if rng.random() < 0.5:
        return [gen_tree(rng, S, names, depth, counter) for _ in range(rng.choice([1, 2, 2, 3, 4]))]
    return gen_tree(rng, S, names, depth, counter)


# ------------------------------------------------------------------ (D) whole `cse`: generated forests

# Real calls (both in FIXED_CALLS) on which the side conditions `cseCheck` of `cseTrees_preserves_sols_partial` are known
# not to hold on the pinned tree, because einx itself is wrong there (docs/wp/cse.md, section (e)):
#  1. a user axis `cse...` expands to `cse.0`, `cse.1` and collides with the fresh axis `cse.0`;
#  2. the root-level filter of `cse` looks only at the first exprlist of a candidate, so `[c d]` at root level is
#     replaced by one axis and stage 3 fails its `ndim` assertion;
#  3. (D21) two slice candidates overlap in a node without a shared name (`a 1` and `1 d` in `a 1 d`): `d` is copied
#     in one place and replaced as part of `1 d` in another.
# Any *other* real call that does not meet the side conditions is a broken tie (premise of the theorem not established).
# The value is the list of parts of `cseCheckReduced` that fail (exactly the one that is false for the real code).
DOCUMENTED_NOT_MET = {
    ("(a b) cse.0 cse.1, (a b), , 6 2 3, 6, None", True, False): ["fresh_ok"],          # D19
    ("a ([c d]) [c d], a (), 4 6 2 3, None", False, True): ["root_dims_ok"],           # D20
    ("(a 1 d), (1 d) c, , 6, 3 2, None", True, False): ["copied_ok"],                   # D21 (must succeed, raises)
    ("(a 1 d), (1 d) c, (a 1), , 12, 2 2, 4, None", True, False): ["copied_ok"],        # D21 (must fail, accepted)
}


def gen_forest(rng, S):
    """Expressions for `cse`, built with the real classes: a pool of sub-expressions is placed (as deep copies) several
    times, inside flattened axes / brackets / concatenations and as runs of children of longer lists, so that dict
    entries with several exprlists, overlapping slices and nested candidates occur; plus shape-like roots and `None`."""
    names = ["a", "b", "c", "d", "e", "f", "g", "h"][:rng.choice([3, 4, 6, 8])]
    counter = [0]

    def axis():
        k = rng.random()
        if k < 0.22:
            counter[0] += 1
            return S.Axis(f"unnamed.{counter[0]}", rng.choice([1, 1, 2, 3]), [])
        if k < 0.226:
            return S.Axis(rng.choice(["cse.0", "cse.1"]), None, [])
        mn = 1 if rng.random() < 0.88 else rng.choice([2, 3])
        return S.Axis(rng.choice(names), None, [], min_value=mn)

    def unit(depth):
        """ndim-1 node"""
        k = rng.random()
        if depth <= 0 or k < 0.5:
            return axis()
        if k < 0.8:
            return S.FlattenedAxis.create(S.List.create(run(depth - 1), []), [])
        if k < 0.92:
            return S.ConcatenatedAxis.create([unit(depth - 1) for _ in range(rng.choice([2, 2, 3]))], [])
        return S.Brackets.create(unit(depth - 1), [])

    def run(depth):
        return [unit(depth) for _ in range(rng.choice([0, 1, 2, 2, 3, 3, 4]))]

    pool = [run(rng.choice([0, 1, 1, 2])) for _ in range(rng.choice([1, 2, 3]))]
    pool = [p for p in pool if p]

    def with_pool(depth):
        """a run of nodes containing pool copies"""
        out = []
        for _ in range(rng.choice([1, 2, 2, 3])):
            k = rng.random()
            if pool and k < 0.55:
                out += [c.__deepcopy__() for c in rng.choice(pool)]
            else:
                out.append(unit(depth))
        return out

    roots = []
    for _ in range(rng.choice([1, 2, 2, 3])):
        items = []
        for _ in range(rng.choice([1, 2, 2, 3])):
            k = rng.random()
            if k < 0.55:
                items.append(S.FlattenedAxis.create(S.List.create(with_pool(1), []), []))
            elif k < 0.7:
                inner = S.List.create(with_pool(1), [])
                items.append(S.Brackets.create(inner, []))
            elif k < 0.8 and pool:
                items += [c.__deepcopy__() for c in rng.choice(pool)]
            else:
                items.append(unit(2))
        roots.append(S.List.create(items, []))
    second = []
    for r in roots:
        k = rng.random()
        if k < 0.4:
            second.append(None)
        else:
            dims = []
            for _ in range(r.ndim):
                counter[0] += 1
                dims.append(S.Axis(f"unnamed.{counter[0]}", rng.choice([1, 2, 3, 4, 6]), []))
            second.append(S.List.create(dims, []))
    if rng.random() < 0.3:
        counter[0] += 1
        roots.append(S.Axis(rng.choice(names), None, []))
        second.append(S.Axis(f"unnamed.{counter[0]}", rng.choice([2, 3]), []))
    return roots + second


def count_cse_axes(forest):
    n = 0

    def walk(j):
        nonlocal n
        if j is None:
            return
        if j["t"] == "axis":
            n += j["n"].startswith("cse.")
        elif j["t"] in ("list", "concat"):
            for c in j["c"]:
                walk(c)
        else:
            walk(j["e"])
    for j in forest:
        walk(j)
    return n


def render_forest(forest):
    return ", ".join("None" if j is None else render(j) for j in forest)


def run_cse_trees(ctx, w, S, M):
    """(D): model `cseTrees` vs the real `cse` on captured and generated expressions."""
    import json
    items = list(w.seen_cse.values())
    ctx.count("cse_trees:captured-calls", len(items))
    n_gen = 300 if ctx.quick else 4000
    for _ in range(n_gen):
        forest = gen_forest(ctx.rng, S)
        opts = {"cse_concat": ctx.rng.random() < 0.7, "cse_in_brackets": ctx.rng.random() < 0.4}
        ren = {}
        rec = {"roots": forest_json(forest, S, ren), **opts}
        try:
            out = {"ok": True, "out": forest_json(list(w.cse(forest, **opts)), S, ren)}
        except (ValueError, TypeError) as e:
            out = {"ok": False, "error": type(e).__name__}
        items.append((rec, out))
    ctx.count("cse_trees:generated-forests", n_gen)
    if not ctx.driver_ok:
        return
    drv = ctx.driver()
    answers = drv.ask_many([{"kind": "cse_trees", **rec} for rec, _ in items])
    n_sub = 0
    for (rec, real), a in zip(items, answers):
        nontrivial = False
        if real["ok"]:
            k = count_cse_axes(real["out"]) - count_cse_axes(rec["roots"])
            n_sub += max(k, 0)
            nontrivial = k > 0
            ctx.count("cse_trees:substitutions=" + ("<0" if k < 0 else str(k) if k < 3 else "3+"))
        else:
            ctx.count("cse_trees:real-raises:" + real["error"])
        ctx.count(f"cse_trees:opts:concat={rec['cse_concat']},in_brackets={rec['cse_in_brackets']}")
        ctx.case("cse_trees:" + json.dumps(rec, sort_keys=True), nontrivial=nontrivial)
        same = (a["ok"] == real["ok"]) and (not real["ok"] or a["out"] == real["out"])
        if not same:
            ctx.tie_broken("correspondence:cse_trees",
                           f"cse({render_forest(rec['roots'])!r}, cse_concat={rec['cse_concat']}, cse_in_brackets={rec['cse_in_brackets']}): "
                           f"real {render_forest(real['out']) if real['ok'] else real['error']!r}, "
                           f"model {render_forest(a['out']) if a['ok'] else a['error']!r}")
    ctx.extra["cse_trees_substitutions_compared"] = n_sub
    # side conditions of `cseTrees_preserves_sols_partial` on the same inputs (proved checker in the driver)
    checks = drv.ask_many([{"kind": "cse_check", **rec} for rec, _ in items])
    n_cap = len(w.seen_cse)
    uncovered = []
    for idx, ((rec, real), c) in enumerate(zip(items, checks)):
        src = "captured" if idx < n_cap else "generated"
        ctx.count(f"cse_check:{src}:" + ("ok" if c["check"] else "not-met"))
        if c["used"] > 0:
            ctx.count(f"cse_check:{src}:with-replacements:" + ("ok" if c["check"] else "not-met"))
        if not c["filter_ok"]:
            # decidable form of the proved fact `cse_trees_is_cse_step`: must hold for every input whatsoever
            ctx.tie_broken("model:cse_filter_ok", f"a replacement of the model did not pass the filter for cse({render_forest(rec['roots'])!r}) [{src}]")
        # work package cse2: the parts of `cseCheckReduced` (Solve/CseCheck2.lean).  `reduced -> check` is proved
        # (`cseCheck_of_reduced`) for runs that do not raise; its decidable form must hold on every input whatsoever.
        parts = [k for k in ("input_ok", "fresh_ok", "root_dims_ok", "copied_ok", "shared_ok") if not c[k]]
        ctx.count(f"cse_reduced:{src}:" + ("ok" if c["reduced"] else "not-met:" + "+".join(parts)))
        if real["ok"] and c["reduced"] and not c["check"]:
            ctx.tie_broken("model:cse_reduced", f"cseCheckReduced holds but cseCheck does not for cse({render_forest(rec['roots'])!r}) [{src}]")
        if src == "captured" and not (c["input_ok"] and c["shared_ok"]):
            # `inputOK` is a fact about the output of stage 2; `sharedOK` is not proved: on a real call both must hold
            # — also on the documented defect inputs (which fail exactly one other part)
            ctx.tie_broken("premise:cse_reduced", f"{'+'.join(k for k in ('input_ok', 'shared_ok') if not c[k])} does not hold for the real call "
                           f"cse({render_forest(rec['roots'])!r}, cse_concat={rec['cse_concat']}, cse_in_brackets={rec['cse_in_brackets']})")
        if not c["check"]:
            why = [k for k in ("wf", "used_ok", "pairs_ok") if not c[k]]
            ctx.count(f"cse_check:{src}:not-met:" + "+".join(why))
            if src == "captured":
                sig = (render_forest(rec["roots"]), rec["cse_concat"], rec["cse_in_brackets"])
                uncovered.append({"cse_of": sig[0], "cse_concat": sig[1], "cse_in_brackets": sig[2], "failed": why,
                                  "failed_reduced_parts": parts, "documented": sig in DOCUMENTED_NOT_MET})
                if sig not in DOCUMENTED_NOT_MET:
                    ctx.tie_broken("premise:cse_check", f"the side conditions of cseTrees_preserves_sols_partial ({'+'.join(why)}; reduced parts: {'+'.join(parts)}) do not hold for the real call "
                                   f"cse({sig[0]!r}, cse_concat={sig[1]}, cse_in_brackets={sig[2]})")
                elif parts != DOCUMENTED_NOT_MET[sig]:
                    ctx.tie_broken("premise:cse_check", f"the documented defect input cse({sig[0]!r}) fails {parts}, documented is {DOCUMENTED_NOT_MET[sig]}")
    ctx.extra["cse_check_not_met_on_captured_calls"] = uncovered[:20]
    if len(w.seen_cse) == 0:
        ctx.tie_broken("correspondence:cse_trees", "no call of stage2.cse was captured (the wrapper on the package attribute was never reached)")
    for rec, real in items[:2]:
        if real["ok"]:
            ctx.sample({"cse_of": render_forest(rec["roots"]), "real": render_forest(real["out"])})


# ------------------------------------------------------------------ C16: adversarial enumeration of the dict

def canon_cse_numbers(forest):
    """rename the axes `cse.<n>` by first occurrence (pre-order over the forest)"""
    import re
    ren = {}

    def walk(j):
        if j is None:
            return None
        t = j["t"]
        if t == "axis":
            n = j["n"]
            if re.fullmatch(r"cse\.\d+", n):
                n = ren.setdefault(n, f"cse#{len(ren)}")
            return {"t": "axis", "n": n, "v": j["v"], "min": j["min"]}
        if t in ("list", "concat"):
            return {"t": t, "c": [walk(c) for c in j["c"]]}
        return {"t": t, "e": walk(j["e"])}
    return [walk(j) for j in forest]


def run_cse_order(ctx):
    """C16: the model `cseTreesEnum` with the dict enumerated in reverse / rotated order must return the expressions the
    real `cse` returns, up to the numbering of the new axes (`cseTrees_order_independent_partial`); the hypothesis
    `uniqueIds` of that theorem must hold for every real input."""
    import json
    import sys
    import einx._src.namedtensor.stage2 as S
    M = sys.modules["einx._src.namedtensor.stage2.cse"]
    from props import c02
    cases = [{"api": a, "desc": d, "shapes": [None if s is None else list(s) for s in sh], "params": dict(p)} for a, d, sh, p in FIXED_CALLS]
    for _ in range(60 if ctx.quick else 800):
        c = c02.gen_case(ctx.rng)
        if c["api"] != "solve_axes":
            cases.append(c)
    with Wrap() as w:
        for c in cases:
            c02.call_real(c)
    items = list(w.seen_cse.values())
    n_cap = len(items)
    for _ in range(200 if ctx.quick else 3000):
        forest = gen_forest(ctx.rng, S)
        opts = {"cse_concat": ctx.rng.random() < 0.7, "cse_in_brackets": ctx.rng.random() < 0.4}
        ren = {}
        rec = {"roots": forest_json(forest, S, ren), **opts}
        try:
            out = {"ok": True, "out": forest_json(list(w.cse(forest, **opts)), S, ren)}
        except (ValueError, TypeError) as e:
            out = {"ok": False, "error": type(e).__name__}
        items.append((rec, out))
    ctx.count("tie:cse_trees_enum:captured-calls", n_cap)
    if n_cap == 0:
        ctx.tie_broken("correspondence:cse_trees_enum", "no call of stage2.cse was captured")
    drv = ctx.driver()
    for order in ("reverse", "rotate"):
        answers = drv.ask_many([{"kind": "cse_enum", "order": order, **rec} for rec, _ in items])
        for idx, ((rec, real), a) in enumerate(zip(items, answers)):
            src = "captured" if idx < n_cap else "generated"
            ctx.count(f"tie:cse_trees_enum:{order}")
            ctx.count(f"tie:cse_trees_enum:candidates={min(a['candidates'], 3)}" + ("+" if a["candidates"] > 3 else ""))
            if not a["unique_ids"]:
                ctx.tie_broken("premise:cse_unique_ids", f"an exprlist belongs to two candidates for cse({render_forest(rec['roots'])!r}) [{src}]")
            if count_cse_axes(rec["roots"]) > 0:
                ctx.count("tie:cse_trees_enum:skipped-input-has-cse-names")    # the renumbering is not canonical then
                continue
            ctx.case(("cse_enum", order, json.dumps(rec, sort_keys=True)), nontrivial=a["candidates"] > 1)
            m = a["result"]
            same = (m["ok"] == real["ok"]) and (not real["ok"] or canon_cse_numbers(m["out"]) == canon_cse_numbers(real["out"]))
            if not same:
                ctx.tie_broken("correspondence:cse_trees_enum",
                               f"enumeration {order}: cse({render_forest(rec['roots'])!r}, cse_concat={rec['cse_concat']}, cse_in_brackets={rec['cse_in_brackets']}): "
                               f"real {render_forest(real['out']) if real['ok'] else real['error']!r}, "
                               f"model {render_forest(m['out']) if m['ok'] else m['error']!r} [{src}]")


# ------------------------------------------------------------------ (C) brute-force oracle

def free_axes(j, out):
    if j["t"] == "axis":
        if j["v"] is None:
            out.append((j["n"], j["min"]))
    elif j["t"] in ("list", "concat"):
        for c in j["c"]:
            free_axes(c, out)
    else:
        free_axes(j["e"], out)
    return out


def all_names(j, out):
    if j["t"] == "axis":
        out.append(j["n"])
    elif j["t"] in ("list", "concat"):
        for c in j["c"]:
            all_names(c, out)
    else:
        all_names(j["e"], out)
    return out


def constants(j, out):
    if j["t"] == "axis":
        if j["v"] is not None:
            out.append(j["v"])
    elif j["t"] in ("list", "concat"):
        for c in j["c"]:
            constants(c, out)
    else:
        constants(j["e"], out)
    return out


def evaluate(j, sigma):
    t = j["t"]
    if t == "axis":
        return sigma[j["n"]] if j["v"] is None else j["v"]
    if t == "list":
        p = 1
        for c in j["c"]:
            p *= evaluate(c, sigma)
        return p
    if t == "concat":
        return sum(evaluate(c, sigma) for c in j["c"])
    return evaluate(j["e"], sigma)


def oracle_applicable(j):
    names = all_names(j, [])
    fa = free_axes(j, [])
    return (len(names) == len(set(names)) and all(m >= 1 for _, m in fa) and all(v >= 1 for v in constants(j, []))
            and len(fa) <= 4)


def value_set(j, n):
    """exact value set of j intersected with [0, n] (see module docstring)"""
    fa = free_axes(j, [])
    vals = set()
    for combo in itertools.product(*[range(m, n + 1) for _, m in fa]):
        v = evaluate(j, {nm: x for (nm, _), x in zip(fa, combo)})
        if v <= n:
            vals.add(v)
    return vals


def oracle_check(j, r):
    """-> None if the claimed range r of the real `_value_range` is exact on [0, N]; else (description, directed case or None)"""
    if r is None:
        return None
    s = value_set(j, N_ORACLE)
    m, ub = r
    want = set(range(m, N_ORACLE + 1)) if ub else ({m} if m <= N_ORACLE else set())
    if s != want:
        return (f"_value_range({render(j)!r}) = {tuple(r)} but the values up to {N_ORACLE} are {sorted(s)}",
                directed_case(j, sorted(want - s)))
    return None


def notation(j):
    """einx notation of a tree (None if it has no notation: min_value > 1, brackets, empty composition)"""
    t = j["t"]
    if t == "axis":
        if j["v"] is None:
            return j["n"] if j["min"] == 1 else None
        return str(j["v"])
    if t in ("list", "concat"):
        parts = [notation(c) for c in j["c"]]
        if not parts or any(p is None for p in parts):
            return None
        return " ".join(parts) if t == "list" else "(" + " + ".join(parts) + ")"
    if t == "flat":
        inner = notation(j["e"])
        return None if inner is None else "(" + inner + ")"
    return None


def directed_case(j, wrongly_claimed):
    """A concrete einx call on which a wrongly claimed value matters: the expression twice (so that CSE considers it)
    against a size it cannot take.  Judged by the C02 oracle like every other case."""
    e = notation(j)
    if e is None or not wrongly_claimed:
        return None
    if j["t"] == "list":
        e = "(" + e + ")"
    n = wrongly_claimed[0]
    return {"api": "matches", "desc": f"{e}, {e}", "shapes": [[n], [n]], "params": {}}


# ------------------------------------------------------------------ entry

def run_cse(ctx):
    import json
    import sys
    import einx._src.namedtensor.stage2 as S
    M = sys.modules["einx._src.namedtensor.stage2.cse"]
    ctx.extra["cse_rule"] = ("value_range: (A) every argument/result of the real _value_range and _has_repeated_axis observed during real solve_shapes/matches/id/sum "
                             "calls (19 fixed CSE-typical descriptions incl. D3's, plus the C02 generator) vs the Lean model; (B) random stage-2 trees built with the real "
                             "constructors (values 0..4, min_value 1/2/3/5, repeated names, Python-list arguments) vs the Lean model; (C) brute-force value sets up to "
                             f"{N_ORACLE} vs the real _value_range on the repetition-free positive ones; (D) whole cse: every (expressions, options, result) of the real "
                             "stage2.cse observed during the same real calls, plus generated forests (real constructors; shared sub-expressions, slices, concatenations, brackets, "
                             "min_value > 1, both options) on which the real cse is called directly, compared structurally with the model cseTrees (driver kind cse_trees); the "
                             "side conditions cseCheck of cseTrees_preserves_sols_partial are evaluated by the driver on the same inputs (kind cse_check): not met on a real "
                             "call other than the two documented ones = broken tie")
    w = run_captured(ctx)
    items_vr = list(w.seen_vr.values())
    items_rep = list(w.seen_rep.values())
    ctx.count("cse:captured-value_range-args", len(items_vr))
    ctx.count("cse:captured-has_repeated-args", len(items_rep))
    n_gen = 400 if ctx.quick else 5000
    gen = []
    for _ in range(n_gen):
        e = gen_arg(ctx.rng, S)
        try:
            r = M._value_range(e)
        except AssertionError:
            continue
        j = vexpr_json(e, S)
        gen.append((j, canon_range(r)))
        items_rep.append((j, bool(M._has_repeated_axis(e if isinstance(e, list) else [e]))))
    ctx.count("cse:generated-trees", len(gen))
    # (C) oracle on the real function
    n_or = 0
    directed = []
    for j, r in gen + items_vr:
        if oracle_applicable(j):
            n_or += 1
            bad = oracle_check(j, r)
            ctx.count("cse:oracle:" + ("none" if r is None else ("unbounded" if r[1] else "fixed")))
            if bad is not None:
                ctx.tie_broken("oracle:value_range", bad[0])
                if bad[1] is not None and len(directed) < 6 and bad[1] not in directed:
                    directed.append(bad[1])
    ctx.count("cse:oracle-checked", n_or)
    # (A)+(B) model vs real
    if not ctx.driver_ok:
        return directed
    drv = ctx.driver()
    allv = items_vr + gen
    answers = drv.ask_many([{"kind": "value_range", "expr": j} for j, _ in allv])
    for (j, r), a in zip(allv, answers):
        ctx.case("vr:" + json.dumps(j, sort_keys=True), nontrivial=j["t"] != "axis")
        ctx.count("cse:range:" + ("none" if r is None else ("unbounded" if r[1] else "fixed")))
        if a["range"] != r:
            ctx.tie_broken("correspondence:value_range", f"{render(j)!r}: real {r}, model {a['range']}")
    answers = drv.ask_many([{"kind": "value_range", "expr": j} for j, _ in items_rep])
    for (j, r), a in zip(items_rep, answers):
        ctx.count("cse:repeated:" + str(r))
        if a["repeated"] != r:
            ctx.tie_broken("correspondence:has_repeated_axis", f"{render(j)!r}: real {r}, model {a['repeated']}")
    run_cse_trees(ctx, w, S, M)
    if items_vr:
        j, r = items_vr[min(len(items_vr) - 1, 3)]
        ctx.sample({"value_range_of": render(j), "real": r})
    # (E) `forestSys` of the CSE theorems vs the equations the real stage 3 hands to its solver (props/c02_sys.py)
    from props import c02_sys
    c02_sys.run_forest_sys(ctx, w.sys)
    return directed
