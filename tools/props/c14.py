"""C14 — indexed updates apply every update exactly once and touch nothing else.

Tie (T-src): Extracted/Update.lean — per operation the numpy primitive and whether the wrapper is registered with
`broadcast=`; the multiplier loop of `_ravel` translated into Lean (obligations `extracted_scatter_broadcasts`,
`extracted_scatter_primitives`, `ravel_index_correct` in Props/C14.lean).
Tie (T-beh):
  * primitive conformance: Lean `npPut` / `npUfuncAt` against real numpy on random small integer inputs (short, long and
    empty value arrays, out-of-range indices);
  * real `einx.set_at/add_at/subtract_at/get_at` on the numpy backends against the Lean lowering model (exact, including
    the order in which competing `set` values are written) and of the ravelled addresses (`get_at` on a ramp tensor).
Search: an explicit nested-loop interpreter written from the property statement (no ravel, no flat addresses: it indexes
  the un-flattened numpy arrays) applied to the real calls.  `set` with competing values accepts any of them, add/subtract
  are exact sums.  The Lean denotation must agree with that interpreter as well (otherwise MachineryError).
"""
import itertools
import json

import numpy as np

from lib import core

EXTRACTORS = ["Update"]
EXTRA_PROPS = ["C14Join", "C14Dtype"]   # lower_update_correct_partial, lower_get_at_correct, intermediate_spec; index dtype obligations
MODES = ("set", "add", "sub")
OPNAME = {"set": "set_at", "add": "add_at", "sub": "subtract_at"}
BACKENDS = ("numpy", "numpy.numpylike")


# ------------------------------------------------------------------------------------------------ cases
# An expression is a list of groups; a group is a list of atoms; an atom is (name, bracketed) or ("#", n) for the
# anonymous bracketed coordinate axis `[n]`.  A group of several atoms is a flattened axis `(x y)`.

def atom_str(a):
    if a[0] == "#":
        return f"[{a[1]}]"
    name = a[0].rstrip("'")
    return f"[{name}]" if a[1] else name


def expr_str(e):
    return " ".join(atom_str(g[0]) if len(g) == 1 else "(" + " ".join(atom_str(a) for a in g) + ")" for g in e)


def atoms(e):
    return [a for g in e for a in g]


def atom_size(a, sizes):
    return a[1] if a[0] == "#" else sizes[a[0]]


def expr_shape(e, sizes):
    return tuple(int(np.prod([atom_size(a, sizes) for a in g], dtype=np.int64)) for g in e)


def flat_shape(e, sizes):
    return tuple(atom_size(a, sizes) for a in atoms(e))


def description(case):
    d = ", ".join(expr_str(e) for e in [case["target"]] + case["coords"] + [case["update"]])
    if case["out"] is not None:
        d += " -> " + expr_str(case["out"])
    return d


def get_description(case, out_names):
    return ", ".join(expr_str(e) for e in [case["target"]] + case["coords"]) + " -> " + " ".join(out_names)


def vec_names(case):
    """All un-bracketed axes of target, coordinate and update expressions, in order of first occurrence."""
    out = []
    for e in [case["target"]] + case["coords"] + [case["update"]]:
        for a in atoms(e):
            if a[0] != "#" and not a[1] and a[0] not in out:
                out.append(a[0])
    return out


def maybe_flatten(rng, e, p):
    if len(e) >= 2 and rng.random() < p:
        i = rng.randrange(len(e) - 1)
        return e[:i] + [e[i] + e[i + 1]] + e[i + 2:]
    return e


def gen_case(rng, small=False):
    sizes = {}
    tv = ["a", "b"][: rng.choice([0, 1, 1, 2])]
    tb = ["h", "w"][: rng.choice([1, 1, 2])]
    if len(tb) == 2 and rng.random() < 0.2:
        # the same axis name at two bracketed positions of the target (e.g. `b [h h] c`, `[h] a [h]`): internally the
        # second occurrence is the distinct atom "h'" (printed as "h", same length), so that layouts stay positional
        tb = ["h", "h'"]
    for n in tv:
        sizes[n] = rng.choice([1, 2, 2, 3] if not small else [1, 2])
    for n in tb:
        sizes[n] = sizes["h"] if n == "h'" else rng.choice([1, 2, 3, 4] if not small else [1, 2, 3])
    order = tv + tb
    rng.shuffle(order)
    # keep the bracketed axes in the order h, w (the coordinate components address them in expression order)
    it = iter(tb)
    target = [[(n, True)] if n in tb else [(n, False)] for n in order]
    target = [[(next(it), True)] if g[0][1] else g for g in target]
    target = maybe_flatten(rng, target, 0.25)
    extra = []
    for n in ["p", "q"][: rng.choice([0, 1, 1, 2])]:
        sizes[n] = rng.choice([1, 2, 3, 3] if not small else [1, 2])
        extra.append(n)
    pool = tv + extra
    # split the bracketed target axes over the coordinate tensors
    if len(tb) == 2:
        parts = rng.choice([[2], [2], [1, 1]])
    else:
        parts = [1]
    coords = []
    for n in parts:
        k = rng.choice([0, 1, 1, 2, 2])
        ax = rng.sample(pool, min(k, len(pool)))
        e = [[(a, False)] for a in ax]
        if n > 1 or rng.random() < 0.35:
            e.insert(rng.randrange(len(e) + 1), [("#", n)])
        e = maybe_flatten(rng, e, 0.15)
        coords.append(e)
    used = [a for a in pool if any((a, False) in atoms(e) for e in coords) or a in tv]
    upool = list(used)
    if rng.random() < 0.2:
        sizes["e"] = rng.choice([2, 3] if not small else [2])
        upool.append("e")
    k = rng.randint(0, min(3, len(upool)))
    uax = rng.sample(upool, k)
    if "e" in upool and "e" not in uax:
        uax.append("e")
    update = maybe_flatten(rng, [[(a, False)] for a in uax], 0.15)
    r = rng.random()
    if r < 0.4:
        out = None
    elif r < 0.7:
        out = [list(g) for g in target]
    else:
        # bracketed axes must keep their relative order in the output (einx rejects anything else)
        out = [list(g) for g in target]
        for _ in range(5):
            cand = list(out)
            rng.shuffle(cand)
            if [a for a in atoms(cand) if a[1]] == [a for a in atoms(target) if a[1]]:
                out = cand
                break
    sizes = {n: s for n, s in sizes.items() if any(a[0] == n for e in [target] + coords + [update] for a in atoms(e))}
    if extra and extra[0] in sizes and rng.random() < 0.04:
        # a zero-sized coordinate/update tensor: einx returns the target as it is (`op_with_zerosized_args`), which is the
        # meaning of the operation only when the output expression is the target expression
        sizes[extra[0]] = 0
        if out is not None:
            out = [list(g) for g in target]
    case = {"sizes": sizes, "target": target, "coords": coords, "update": update, "out": out}
    fill_data(rng, case)
    return case


def fill_data(rng, case):
    sizes = case["sizes"]
    tshape = expr_shape(case["target"], sizes)
    n = int(np.prod(tshape, dtype=np.int64))
    if rng.random() < 0.3:
        t = np.zeros(n, dtype=np.int64)
    else:
        t = np.array([rng.randint(-9, 9) for _ in range(n)], dtype=np.int64)
    case["tdata"] = t.reshape(tshape)
    # coordinate component k addresses the k-th bracketed target axis
    bsizes = [sizes[a[0]] for a in atoms(case["target"]) if a[1]]
    k = 0
    cdata = []
    dup = rng.random() < 0.5
    for e in case["coords"]:
        fs = flat_shape(e, sizes)
        arr = np.zeros(fs, dtype=np.int64)
        br = [i for i, a in enumerate(atoms(e)) if a[0] == "#"]
        ncomp = atoms(e)[br[0]][1] if br else 1
        for i in range(ncomp):
            hi = bsizes[k]
            k += 1
            m = int(np.prod(fs, dtype=np.int64)) // ncomp
            if dup:
                few = [rng.randrange(hi) for _ in range(2)]
                vals = [rng.choice(few) for _ in range(m)]
            else:
                vals = [rng.randrange(hi) for _ in range(m)]
            if br:
                sl = [slice(None)] * len(fs)
                sl[br[0]] = i
                arr[tuple(sl)] = np.array(vals, dtype=np.int64).reshape([s for j, s in enumerate(fs) if j != br[0]])
            else:
                arr[...] = np.array(vals, dtype=np.int64).reshape(fs)
        cdata.append(arr.reshape(expr_shape(e, sizes)))
    case["cdata"] = cdata
    ushape = expr_shape(case["update"], sizes)
    m = int(np.prod(ushape, dtype=np.int64))
    vals = list(range(1, m + 1))
    rng.shuffle(vals)
    base = rng.choice([0, 10, 100])
    case["udata"] = (np.array(vals, dtype=np.int64) + base).reshape(ushape)


def case_sig(case):
    sizes = case["sizes"]
    return "{} | shapes {} | data {}".format(
        description(case),
        [list(expr_shape(e, sizes)) for e in [case["target"]] + case["coords"] + [case["update"]]],
        core.digest([case["tdata"].tolist(), [c.tolist() for c in case["cdata"]], case["udata"].tolist()]))


def case_json(case):
    return {"description": description(case), "sizes": case["sizes"], "target": case["tdata"].tolist(),
            "coordinates": [c.tolist() for c in case["cdata"]], "updates": case["udata"].tolist(),
            "structure": {"target": case["target"], "coords": case["coords"], "update": case["update"], "out": case["out"]}}


def case_from_json(j):
    st = j["structure"]

    def ex(e):
        return [[tuple(a) for a in g] for g in e]
    case = {"sizes": j["sizes"], "target": ex(st["target"]), "coords": [ex(e) for e in st["coords"]], "update": ex(st["update"]),
            "out": None if st["out"] is None else ex(st["out"])}
    case["tdata"] = np.array(j["target"], dtype=np.int64).reshape(expr_shape(case["target"], case["sizes"]))
    case["cdata"] = [np.array(c, dtype=np.int64).reshape(expr_shape(e, case["sizes"])) for c, e in zip(j["coordinates"], case["coords"])]
    case["udata"] = np.array(j["updates"], dtype=np.int64).reshape(expr_shape(case["update"], case["sizes"]))
    return case


# ------------------------------------------------------------------------------------------------ oracle
# Written from the property statement: for every combination of indices of all un-bracketed axes of the target, coordinate
# and update expressions, the element addressed by the coordinates in the matching target slice receives the matching update.

def oracle(case):
    """-> (target in target layout un-flattened, {target multi-index: [update values in iteration order]})"""
    sizes = case["sizes"]
    T = case["tdata"].reshape(flat_shape(case["target"], sizes))
    C = [c.reshape(flat_shape(e, sizes)) for c, e in zip(case["cdata"], case["coords"])]
    U = case["udata"].reshape(flat_shape(case["update"], sizes))
    names = vec_names(case)
    hits = {}
    for combo in itertools.product(*[range(sizes[n]) for n in names]):
        s = dict(zip(names, combo))
        comps = []
        for c, e in zip(C, case["coords"]):
            at = atoms(e)
            br = [a for a in at if a[0] == "#"]
            if br:
                for i in range(br[0][1]):
                    comps.append(int(c[tuple(i if a[0] == "#" else s[a[0]] for a in at)]))
            else:
                comps.append(int(c[tuple(s[a[0]] for a in at)]))
        it = iter(comps)
        tidx = tuple(next(it) if a[1] else s[a[0]] for a in atoms(case["target"]))
        assert next(it, None) is None
        assert all(0 <= i < n for i, n in zip(tidx, T.shape)), "generator produced an out-of-range coordinate"
        v = int(U[tuple(s[a[0]] for a in atoms(case["update"]))])
        hits.setdefault(tidx, []).append(v)
    return T, hits


def to_out_layout(case, arr_flat_target_layout):
    """Array in un-flattened target layout -> array as the call returns it (output expression)."""
    sizes = case["sizes"]
    if case["out"] is None:
        return arr_flat_target_layout.reshape(expr_shape(case["target"], sizes))
    tat = atoms(case["target"])
    oat = atoms(case["out"])
    perm = [tat.index(a) for a in oat]
    return arr_flat_target_layout.transpose(perm).reshape(expr_shape(case["out"], sizes))


def from_out_layout(case, arr):
    """Inverse of `to_out_layout`: the returned array, flat in target layout."""
    sizes = case["sizes"]
    if case["out"] is None:
        return arr.reshape(-1)
    tat = atoms(case["target"])
    oat = atoms(case["out"])
    perm = [tat.index(a) for a in oat]
    inv = np.argsort(perm)
    return arr.reshape(flat_shape(case["out"], sizes)).transpose(inv).reshape(-1)


def check_against_oracle(case, mode, result_flat, T=None, hits=None):
    """result_flat: flat in target layout.  None if it satisfies the property, else a description of the first bad element."""
    if T is None:
        T, hits = oracle(case)
    R = np.asarray(result_flat).reshape(T.shape)
    for tidx in itertools.product(*[range(n) for n in T.shape]):
        old = int(T[tidx])
        got = R[tidx]
        hs = hits.get(tidx, [])
        if mode == "set":
            ok = (got == old) if not hs else any(got == v for v in hs)
            want = old if not hs else {"one of": sorted(set(hs))}
        elif mode == "add":
            want = old + sum(hs)
            ok = got == want
        else:
            want = old - sum(hs)
            ok = got == want
        if not ok:
            return {"element": list(tidx), "expected": want, "observed": got.item() if hasattr(got, "item") else got,
                    "original": old, "updates_addressed_to_it": hs}
    return None


# ------------------------------------------------------------------------------------------------ real code

def einx_mod():
    import einx
    return einx


def call_real(case, mode, backend, as_float=False):
    einx = einx_mod()
    f = getattr(einx, OPNAME[mode])
    t = case["tdata"].copy()
    u = case["udata"].copy()
    if as_float:
        t = t.astype(np.float64) + 0.5
        u = u.astype(np.float64) + 0.25
    args = [t] + [c.copy() for c in case["cdata"]] + [u]
    return np.asarray(f(description(case), *args, backend=backend, **{k: v for k, v in case["sizes"].items() if not k.endswith("'")}))


def is_rejection(e):
    """The call was refused at the level of the description (documented einx errors): no result, nothing for C14 to say."""
    import einx.errors as E
    return isinstance(e, (E.SyntaxError, E.RankError, E.AxisSizeError, E.SemanticError, E.OperationNotSupportedError))


def real_outcome(case, mode, backend):
    """('ok', flat result in target layout) | ('rejected', text) | ('error', 'Class: message')"""
    try:
        r = call_real(case, mode, backend)
    except Exception as e:  # a failing call is an outcome (the model must predict it or the oracle flags it)
        kind = "rejected" if is_rejection(e) else "error"
        return kind, f"{type(e).__name__}: {str(e).splitlines()[0][:200] if str(e) else ''}"
    want_shape = expr_shape(case["out"] if case["out"] is not None else case["target"], case["sizes"])
    if tuple(r.shape) != tuple(want_shape):
        return "error", f"result shape {tuple(r.shape)} instead of {tuple(want_shape)}"
    return "ok", from_out_layout(case, r)


def join_order(case):
    """The iteration order of the un-bracketed axes that the real `update_at_ravelled` uses (`_join_exprs` of the coordinate,
    update and target expressions without brackets, length-1 axes left out); axes of length 1 are appended."""
    import einx._src.namedtensor.stage3 as stage3
    from einx._src.adapter.decomposednamedtensor_from_classical import _join_exprs
    sizes = case["sizes"]
    exprs = []
    for e in case["coords"] + [case["update"], case["target"]]:
        exprs.append(stage3.List.create([stage3.Axis(a[0], sizes[a[0]]) for a in atoms(e) if a[0] != "#" and not a[1]]))
    joined = [a.name for a in _join_exprs(exprs)]
    names = vec_names(case)
    if sorted(joined) != sorted(n for n in names if sizes[n] != 1):
        raise core.MachineryError(f"_join_exprs returned {joined} for axes {names}")
    return joined + [n for n in names if sizes[n] == 1]


# ------------------------------------------------------------------------------------------------ model requests

def model_op(case, order):
    sizes = case["sizes"]
    pos = {n: i for i, n in enumerate(order)}
    return {
        "axes": [sizes[n] for n in order],
        "tdims": [{"idx": sizes[a[0]]} if a[1] else {"vec": pos[a[0]]} for a in atoms(case["target"])],
        "coords": [{"dims": [{"br": a[1]} if a[0] == "#" else {"ax": pos[a[0]]} for a in atoms(e)], "data": c.reshape(-1).tolist()}
                   for e, c in zip(case["coords"], case["cdata"])],
        "udims": [pos[a[0]] for a in atoms(case["update"])],
        "udata": case["udata"].reshape(-1).tolist(),
        "target": case["tdata"].reshape(-1).tolist(),
    }


def model_answer(r):
    return ("ok", np.array(r["ok"], dtype=np.int64)) if "ok" in r else ("error", "model: undefined")


# ------------------------------------------------------------------------------------------------ one case

def evaluate_real(case, backends=BACKENDS):
    """Real calls against the oracle.  -> list of failures [{mode, backend, ...}]"""
    T, hits = oracle(case)
    fails = []
    for backend in backends:
        for mode in MODES:
            kind, val = real_outcome(case, mode, backend)
            if kind == "rejected":
                continue
            if kind == "error":
                fails.append({"mode": mode, "backend": backend, "error": val})
                continue
            bad = check_against_oracle(case, mode, val, T, hits)
            if bad is not None:
                fails.append({"mode": mode, "backend": backend, **bad})
    return fails


def readback_fail(case, backend):
    """get_at with the same coordinates after set_at returns, for every assignment, one of the values written to that element."""
    einx = einx_mod()
    T, hits = oracle(case)
    if 0 in case["sizes"].values():
        return None  # einx has no zero-sized axes outside the update shortcut
    kind, val = real_outcome(case, "set", backend)
    if kind != "ok":
        return None  # reported by evaluate_real
    if check_against_oracle(case, "set", val, T, hits) is not None:
        return None  # likewise
    sizes = case["sizes"]
    names = [n for n in vec_names(case) if any(a[0] == n for e in [case["target"]] + case["coords"] for a in atoms(e))]
    written = val.reshape(expr_shape(case["target"], sizes))
    try:
        got = np.asarray(einx.get_at(get_description(case, names), written, *[c.copy() for c in case["cdata"]], backend=backend, **{k: v for k, v in sizes.items() if k != "e" or "e" in names}))
    except Exception as e:
        return {"mode": "get_after_set", "backend": backend, "error": f"{type(e).__name__}: {str(e).splitlines()[0][:200] if str(e) else ''}"}
    C = [c.reshape(flat_shape(e, sizes)) for c, e in zip(case["cdata"], case["coords"])]
    for combo in itertools.product(*[range(sizes[n]) for n in names]):
        s = dict(zip(names, combo))
        comps = []
        for c, e in zip(C, case["coords"]):
            at = atoms(e)
            br = [a for a in at if a[0] == "#"]
            for i in range(br[0][1] if br else 1):
                comps.append(int(c[tuple(i if a[0] == "#" else s[a[0]] for a in at)]))
        it = iter(comps)
        tidx = tuple(next(it) if a[1] else s[a[0]] for a in atoms(case["target"]))
        if int(got[combo]) not in hits[tidx]:
            return {"mode": "get_after_set", "backend": backend, "assignment": s, "element": list(tidx),
                    "expected": {"one of": sorted(set(hits[tidx]))}, "observed": int(got[combo])}
    return None


# ------------------------------------------------------------------------------------------------ shrinking

def restrict_axis(case, name, new_size):
    """Copy of the case with axis `name` cut to its first `new_size` entries (coordinates are clamped)."""
    sizes = dict(case["sizes"])
    old = sizes[name]
    if new_size >= old or new_size < 1:
        return None
    new = {k: case[k] for k in ("target", "coords", "update", "out")}
    new["sizes"] = {**sizes, name: new_size}

    def cut(arr, e):
        at = atoms(e)
        a = arr.reshape(flat_shape(e, sizes))
        sl = tuple(slice(0, new_size) if (x[0] == name) else slice(None) for x in at)
        return a[sl].reshape(expr_shape(e, new["sizes"])).copy()
    new["tdata"] = cut(case["tdata"], case["target"])
    new["cdata"] = [cut(c, e) for c, e in zip(case["cdata"], case["coords"])]
    new["udata"] = cut(case["udata"], case["update"])
    # clamp coordinate components that address this (bracketed) axis
    tb = [a[0] for a in atoms(case["target"]) if a[1]]
    if name in tb:
        k = tb.index(name)
        j = 0
        for ci, e in enumerate(case["coords"]):
            at = atoms(e)
            br = [i for i, a in enumerate(at) if a[0] == "#"]
            n = at[br[0]][1] if br else 1
            if j <= k < j + n:
                arr = new["cdata"][ci].reshape(flat_shape(e, new["sizes"]))
                arr = np.array(arr)
                if br:
                    sl = [slice(None)] * arr.ndim
                    sl[br[0]] = k - j
                    arr[tuple(sl)] = np.minimum(arr[tuple(sl)], new_size - 1)
                else:
                    arr = np.minimum(arr, new_size - 1)
                new["cdata"][ci] = arr.reshape(expr_shape(e, new["sizes"]))
            j += n
    return new


def drop_axis(case, name):
    """Copy of the case without the un-bracketed axis `name` (slice 0 of it everywhere)."""
    if not case["sizes"].get(name) or any(a == (name, True) for a in atoms(case["target"])):
        return None
    c1 = restrict_axis(case, name, 1) if case["sizes"][name] > 1 else case
    if c1 is None:
        return None

    def strip(e):
        out = []
        for g in e:
            g2 = [a for a in g if a[0] != name]
            if g2:
                out.append(g2)
        return out
    new = {"sizes": {k: v for k, v in c1["sizes"].items() if k != name}, "target": strip(c1["target"]),
           "coords": [strip(e) for e in c1["coords"]], "update": strip(c1["update"]),
           "out": None if c1["out"] is None else strip(c1["out"])}
    new["tdata"] = c1["tdata"].reshape(expr_shape(new["target"], new["sizes"]))
    new["cdata"] = [c.reshape(expr_shape(e, new["sizes"])) for c, e in zip(c1["cdata"], new["coords"])]
    new["udata"] = c1["udata"].reshape(expr_shape(new["update"], new["sizes"]))
    return new


def unflatten(case):
    new = dict(case)
    changed = False
    for k in ("target", "update", "out"):
        if case[k] is not None and any(len(g) > 1 for g in case[k]):
            new[k] = [[a] for a in atoms(case[k])]
            changed = True
    if any(len(g) > 1 for e in case["coords"] for g in e):
        new["coords"] = [[[a] for a in atoms(e)] for e in case["coords"]]
        changed = True
    if not changed:
        return None
    s = case["sizes"]
    new["tdata"] = case["tdata"].reshape(expr_shape(new["target"], s))
    new["cdata"] = [c.reshape(expr_shape(e, s)) for c, e in zip(case["cdata"], new["coords"])]
    new["udata"] = case["udata"].reshape(expr_shape(new["update"], s))
    return new


def simplify_data(case):
    new = dict(case)
    if not np.any(case["tdata"]):
        return None
    new["tdata"] = np.zeros_like(case["tdata"])
    return new


def plain_out(case):
    if case["out"] is None:
        return None
    new = dict(case)
    new["out"] = None
    return new


def shrink(case, fails, budget=150):
    """Greedy: fewer axes, smaller sizes, no flattening, zero target, as long as `fails(case)` stays true."""
    steps = 0
    changed = True
    while changed and steps < budget:
        changed = False
        cands = [lambda: unflatten(case), lambda: plain_out(case)]
        cands += [lambda n=n: drop_axis(case, n) for n in list(case["sizes"])]
        for n, s in list(case["sizes"].items()):
            cands += [lambda n=n, k=k: restrict_axis(case, n, k) for k in range(1, s)]
        cands.append(lambda: simplify_data(case))
        for mk in cands:
            c = mk()
            if c is None:
                continue
            steps += 1
            try:
                ok = fails(c)
            except core.MachineryError:
                raise
            except Exception:
                ok = False
            if ok:
                case = c
                changed = True
                break
    return case


def witness_case():
    """The input of `put_cycles_counterexample`: updates lack the axis `p` of the coordinates."""
    return {"sizes": {"a": 2, "h": 5, "p": 3}, "target": [[("a", False)], [("h", True)]], "coords": [[[("a", False)], [("p", False)]]],
            "update": [[("a", False)]], "out": [[("a", False)], [("h", True)]],
            "tdata": np.zeros((2, 5), dtype=np.int64), "cdata": [np.array([[0, 1, 2], [3, 4, 0]], dtype=np.int64)],
            "udata": np.array([10, 20], dtype=np.int64)}


# ------------------------------------------------------------------------------------------------ primitive conformance

def prim_conformance(ctx, drv, n):
    rng = ctx.rng
    reqs, wants = [], []
    for _ in range(n):
        size = rng.randint(1, 6)
        t = [rng.randint(-5, 5) for _ in range(size)]
        if rng.random() < 0.5:
            # numpy.put: flattened indices, values cycled / truncated / empty
            ni = rng.randint(0, 7)
            oob = rng.random() < 0.1
            idx = [rng.randrange(size + (2 if oob else 0)) for _ in range(ni)]
            nv = rng.choice([0, 1, 2, 3, ni, ni + 2])
            vals = [rng.randint(-20, 20) for _ in range(nv)]
            a = np.array(t, dtype=np.int64)
            try:
                np.put(a, np.array(idx, dtype=np.int64), np.array(vals, dtype=np.int64))
                want = ("ok", a.tolist())
            except IndexError:
                want = ("error", None)
            reqs.append({"kind": "np_put", "target": t, "idx": idx, "vals": vals})
            wants.append(want)
            ctx.count("prim:put:" + ("short" if nv < ni else "long" if nv > ni else "equal"))
        else:
            rank = rng.randint(0, 3)
            ishape = [rng.randint(1, 3) for _ in range(rank)]
            vshape = [s if rng.random() < 0.6 else 1 for s in ishape]
            bad = rng.random() < 0.1 and rank > 0
            if bad:
                k = rng.randrange(rank)
                vshape[k] = ishape[k] + 1
            oob = rng.random() < 0.1
            ni = int(np.prod(ishape, dtype=np.int64))
            idx = [rng.randrange(size + (2 if oob else 0)) for _ in range(ni)]
            vals = [rng.randint(-20, 20) for _ in range(int(np.prod(vshape, dtype=np.int64)))]
            uf = rng.choice(["add", "subtract"])
            a = np.array(t, dtype=np.int64)
            try:
                getattr(np, uf).at(a, np.array(idx, dtype=np.int64).reshape(ishape), np.array(vals, dtype=np.int64).reshape(vshape))
                want = ("ok", a.tolist())
            except (IndexError, ValueError):
                want = ("error", None)
            reqs.append({"kind": "np_ufunc_at", "ufunc": uf, "target": t, "idx_shape": ishape, "idx": idx, "val_shape": vshape, "vals": vals})
            wants.append(want)
            ctx.count(f"prim:{uf}.at")
    answers = drv.ask_many(reqs)
    bad = 0
    for rq, w, a in zip(reqs, wants, answers):
        got = ("ok", a["ok"]) if "ok" in a else ("error", None)
        ctx.case(["prim", rq], nontrivial=len(rq["idx"]) > 0)
        if got != w:
            bad += 1
            if bad <= 3:
                ctx.tie_broken("correspondence:numpy-primitive", f"{rq}: numpy {w}, model {got}")
    return bad


# ------------------------------------------------------------------------------------------------ run

def nontrivial(case, hits):
    return len(hits) > 0 and any(len(v) > 1 for v in hits.values()) or len(vec_names(case)) >= 2


def report_violation(ctx, case, fail_pred, first_fail):
    small = shrink(case, fail_pred)
    fails = evaluate_real(small)
    rb = None
    if not fails:
        for b in BACKENDS:
            rb = readback_fail(small, b)
            if rb:
                fails = [rb]
                break
    if not fails:       # should not happen (shrink keeps the predicate true); report the unshrunk case
        small, fails = case, [first_fail]
    f = fails[0]
    sig = case_sig(small) + " | " + OPNAME.get(f["mode"], f["mode"])
    ctx.violation(sig, {"kind": "indexed update differs from the loop-notation meaning",
                        "call": f"einx.{OPNAME.get(f['mode'], 'set_at + get_at')}({description(small)!r}, target, *coordinates, updates, backend={f['backend']!r}, **sizes)",
                        "case": case_json(small), "failures": fails,
                        "how_to_replay": "tools/check.py C14 --replay <this file>"})


def narrow_dtype_stream(ctx):
    """Coordinates given in a narrow integer dtype whose range is smaller than the number of target elements (the flat
    address of an element does not fit the coordinate dtype although every coordinate value does): `b [h] c, b q, b q`
    and `b [h w], b q [2], b q` against explicit loops.  Returns the number of violations reported."""
    einx = einx_mod()
    found = 0
    rng = np.random.RandomState(ctx.seed + 14)
    for dt, (B, H, C) in [(np.int8, (12, 3, 4)), (np.uint8, (20, 4, 4)), (np.int16, (40, 30, 30)), (np.uint16, (50, 40, 35)), (np.int32, (12, 3, 4))]:
        for mode in MODES:
            for backend in BACKENDS:
                Q = 2
                t = rng.randint(-9, 9, size=(B, H, C)).astype(np.int64)
                idx = np.stack([rng.permutation(H)[:Q] for _ in range(B)]).astype(dt)     # distinct per row: `set` is deterministic
                u = rng.randint(1, 50, size=(B, Q)).astype(np.int64)
                want = t.copy()
                for b in range(B):
                    for q in range(Q):
                        h = int(idx[b, q])
                        if mode == "set":
                            want[b, h, :] = u[b, q]
                        elif mode == "add":
                            want[b, h, :] += u[b, q]
                        else:
                            want[b, h, :] -= u[b, q]
                ctx.count("narrow_dtype_cases")
                sig = f"einx.{OPNAME[mode]}('b [h] c, b q, b q') target {B}x{H}x{C} coordinates dtype={np.dtype(dt).name} backend={backend}"
                try:
                    got = np.asarray(getattr(einx, OPNAME[mode])("b [h] c, b q, b q", t.copy(), idx.copy(), u.copy(), backend=backend))
                    bad = None if (got.shape == want.shape and np.array_equal(got, want)) else f"{int((got != want).sum()) if got.shape == want.shape else 'all'} elements differ from the loop-notation result"
                except Exception as e:
                    bad = None if is_rejection(e) else f"{type(e).__name__}: {str(e)[:150]}"
                ctx.case(sig, True)
                if bad is not None and found < 2:
                    found += 1
                    ctx.violation(sig, {"kind": "indexed update with narrow-dtype coordinates differs from the loop-notation meaning", "detail": bad,
                                        "description": "b [h] c, b q, b q", "shapes": [[B, H, C], [B, Q], [B, Q]], "coordinate_dtype": np.dtype(dt).name,
                                        "mode": mode, "backend": backend, "coordinates": idx.tolist()[:6], "updates": u.tolist()[:6]})
    # updates in a narrower / unsigned dtype than the target (the update value is applied in the TARGET's arithmetic: a uint8
    # update of 3 subtracted from a float target is -3, not 253), and targets that are not C-contiguous (a flattening reshape
    # of such a target is a copy: the scatter must still reach the returned tensor)
    idx2 = np.array([[0, 2], [4, 1]], dtype=np.int64)
    for tdt, udt, uvals in (("float64", "uint8", [[1, 6], [15, 3]]), ("int64", "uint16", [[1, 6], [15, 3]]), ("int32", "int8", [[-128, 6], [15, 3]]),
                            ("float64", "int64", [[1, 6], [15, 3]])):
        for layout in ("contiguous", "transposed", "fortran", "column-slice"):
            base = (np.arange(10) * 10).reshape(2, 5).astype(tdt)
            if layout == "contiguous":
                t = base.copy()
            elif layout == "transposed":
                t = np.ascontiguousarray(base.T).T
            elif layout == "fortran":
                t = np.asfortranarray(base)
            else:
                wide = np.zeros((2, 10), dtype=tdt)
                wide[:, ::2] = base
                t = wide[:, ::2]
            u = np.array(uvals, dtype=udt)
            for mode in MODES:
                for backend in BACKENDS:
                    want = np.array(t, dtype=tdt, copy=True)
                    for a in range(2):
                        for q in range(2):
                            v = np.asarray(u[a, q]).astype(tdt)
                            if mode == "set":
                                want[a, idx2[a, q]] = v
                            elif mode == "add":
                                want[a, idx2[a, q]] += v
                            else:
                                want[a, idx2[a, q]] -= v
                    ctx.count("dtype_layout_cases")
                    sig = f"einx.{OPNAME[mode]}('a [h], a q, a q') target {tdt} (2,5) {layout}, updates {udt} {uvals} backend={backend}"
                    ctx.case(sig, True)
                    try:
                        got = np.asarray(getattr(einx, OPNAME[mode])("a [h], a q, a q", t.copy(order="K") if layout == "contiguous" else t, idx2.copy(), u.copy(), backend=backend))
                        bad = None if (got.shape == want.shape and np.array_equal(got.astype(np.float64), want.astype(np.float64))) else f"returned {got.tolist()} instead of {want.tolist()}"
                    except Exception as e:
                        bad = None if is_rejection(e) else f"{type(e).__name__}: {str(e)[:150]}"
                    if layout != "contiguous":
                        # the caller's (non-contiguous) target may have been updated in place by the call: rebuild it for the next one
                        if layout == "transposed":
                            t = np.ascontiguousarray(base.T).T
                        elif layout == "fortran":
                            t = np.asfortranarray(base)
                        else:
                            wide = np.zeros((2, 10), dtype=tdt)
                            wide[:, ::2] = base
                            t = wide[:, ::2]
                    if bad is not None and found < 4:
                        found += 1
                        ctx.violation(sig, {"kind": "indexed update differs from the loop-notation meaning (update dtype / target layout)", "detail": bad,
                                            "target_dtype": tdt, "update_dtype": udt, "layout": layout, "mode": mode, "backend": backend})
    # the coordinates themselves in a dtype that cannot hold the flat address (the multiplication by the stride happens in
    # the coordinates' dtype): get_at and set_at on a 20x20 target with int8 coordinates
    tgt = np.arange(400, dtype=np.int64).reshape(20, 20)
    co = np.array([[10, 5], [19, 19], [0, 3]], dtype=np.int8)
    for fn, extra in (("get_at", []), ("set_at", [np.array([-1, -2, -3], dtype=np.int64)])):
        for backend in BACKENDS:
            desc = "[b c], p [2] -> p" if fn == "get_at" else "[b c], p [2], p -> [b c]"
            sig = f"einx.{fn}('{desc}') target 20x20 coordinates dtype=int8 values [[10,5],[19,19],[0,3]] backend={backend}"
            ctx.count("narrow_dtype_cases")
            ctx.case(sig, True)
            try:
                got = np.asarray(getattr(einx, fn)(desc, tgt.copy(), co.copy(), *[e.copy() for e in extra], backend=backend))
                if fn == "get_at":
                    want = np.array([tgt[10, 5], tgt[19, 19], tgt[0, 3]])
                else:
                    want = tgt.copy()
                    want[10, 5], want[19, 19], want[0, 3] = -1, -2, -3
                bad = None if (got.shape == want.shape and np.array_equal(got, want)) else f"returned {got.reshape(-1)[:6].tolist()}… instead of {want.reshape(-1)[:6].tolist()}…" if fn == "set_at" else f"returned {got.tolist()} instead of {want.tolist()}"
            except Exception as e:
                bad = None if is_rejection(e) else f"{type(e).__name__}: {str(e)[:150]}"
            if bad is not None:
                ctx.violation(sig, {"kind": "coordinates in a narrow integer dtype address wrong elements", "detail": bad, "description": desc,
                                    "coordinate_dtype": "int8", "backend": backend})
    return found


def run(ctx):
    rng = ctx.rng
    facts = ctx.facts.get("Update", {})
    ctx.extra["rule"] = (
        "generated descriptions: target with 1-2 bracketed axes anywhere among 0-2 vectorised axes (adjacent dims flattened with p=.25), "
        "1-2 coordinate tensors over 0-2 of the axes {target vectorised, p, q} with the coordinate axis [n] at a random position (absent or [1] "
        "for a single component), update tensor over 0-3 of the used axes in random order plus an update-only axis e with p=.2, output omitted / "
        "same / permuted; lengths 1-4; in-range integer coordinates, half of the cases drawn from two values per component (duplicates); "
        "distinct update values.  Every case is run for set/add/subtract on backends numpy and numpy.numpylike against the loop interpreter, "
        "the Lean denotation (vs interpreter) and the Lean lowering model (vs real, exact).  non-trivial = at least two un-bracketed axes or an element "
        "addressed more than once; distinct by digest of (description, shapes, data)")
    ctx.assumptions.append("numpy semantics of put / add.at / subtract.at / broadcast_to / reshape are modelled (Update/Model.lean) and sampled by the primitive conformance run, not verified")
    ctx.assumptions.append("the order of the intermediate axes is taken from the real `_join_exprs` (any order satisfies the theorems; it only fixes which competing `set` value survives)")
    ctx.assumptions.append("coordinates are non-negative and in range; the property says nothing about other coordinates")
    ctx.extra["extracted"] = {k: facts.get(k) for k in ("broadcasts", "primitive", "wrapper_ok", "kernel_translated")}
    for op in OPNAME.values():
        if not facts.get("broadcasts", {}).get(op, False):
            ctx.notes.append(f"T-src: numpy `{op}` is registered without broadcast= (obligation extracted_scatter_broadcasts fails)")

    drv = ctx.driver() if ctx.driver_ok else None

    # -- primitive conformance
    if drv is not None:
        prim_conformance(ctx, drv, 300 if ctx.quick else 5000)

    broken_before = bool(ctx.broken)
    found = 0
    if broken_before or not all(facts.get("broadcasts", {}).get(op, False) for op in OPNAME.values()):
        # replay the witness of `put_cycles_counterexample` (Props/C14.lean) on the real code first
        w = witness_case()
        fails = evaluate_real(w)
        ctx.case(case_sig(w), True)
        ctx.count("witness_replayed")
        if fails:
            found += 1
            ctx.count("violations_found")
            report_violation(ctx, w, lambda c: bool(evaluate_real(c)), fails[0])
    n_cases = (140 if ctx.quick else 2500)
    if broken_before:
        n_cases = (400 if ctx.quick else 6000)
    model_bad = 0
    base_cases = 140 if ctx.quick else 2500
    for i in range(n_cases):
        if i >= base_cases and found >= 3:
            break   # the enlarged search has what it was looking for
        case = gen_case(rng, small=(i % 3 == 0))
        T, hits = oracle(case)
        ctx.case(case_sig(case), nontrivial(case, hits))
        ctx.count("bracketed_target_axes:%d" % sum(1 for a in atoms(case["target"]) if a[1]))
        ctx.count("coordinate_tensors:%d" % len(case["coords"]))
        ctx.count("duplicates" if any(len(v) > 1 for v in hits.values()) else "no_duplicates")
        if 0 in case["sizes"].values():
            ctx.count("zero_sized_argument")
        if any(len(g) > 1 for e in [case["target"]] + case["coords"] + [case["update"]] for g in e):
            ctx.count("flattened")
        un = set(a[0] for a in atoms(case["update"]))
        if any(n not in un for n in vec_names(case)):
            ctx.count("update_missing_axis")
        if "e" in un:
            ctx.count("update_only_axis")
        if i < 3:
            ctx.sample({"description": description(case), "sizes": case["sizes"], "coordinates": [c.tolist() for c in case["cdata"]],
                        "updates": case["udata"].tolist(), "target": case["tdata"].tolist(),
                        "set_at(numpy)": (lambda k, v: v.tolist() if k == "ok" else v)(*real_outcome(case, "set", "numpy"))})

        # (1) search: real code against the loop interpreter
        if found < 3:
            fails = evaluate_real(case)
            if not fails:
                for b in BACKENDS:
                    rb = readback_fail(case, b)
                    if rb:
                        fails = [rb]
                        break
            if fails:
                found += 1
                ctx.count("violations_found")
                report_violation(ctx, case, lambda c: bool(evaluate_real(c)) or any(readback_fail(c, b) for b in BACKENDS), fails[0])

        # (2) the Lean models
        if drv is None or model_bad >= 3:
            continue
        try:
            order = join_order(case)
        except core.MachineryError:
            raise
        except Exception as e:
            ctx.tie_broken("correspondence:_join_exprs", f"{type(e).__name__}: {e}")
            model_bad = 3
            continue
        mop = model_op(case, order)
        reqs = []
        for mode in MODES:
            reqs.append({"kind": "update_denote", "mode": mode, **mop})
            reqs.append({"kind": "update_lower", "mode": mode, **mop})
        reqs.append({"kind": "update_addr", **mop})
        ans = drv.ask_many(reqs)
        for k, mode in enumerate(MODES):
            dk, dv = model_answer(ans[2 * k])
            if dk != "ok":
                raise core.MachineryError(f"Lean denotation undefined on a generated case: {case_sig(case)}")
            bad = check_against_oracle(case, mode, dv, T, hits)
            if bad is not None:
                raise core.MachineryError(f"Lean denotation disagrees with the loop interpreter on {case_sig(case)} ({mode}): {bad}")
            lk, lv = model_answer(ans[2 * k + 1])
            for backend in BACKENDS:
                rk, rv = real_outcome(case, mode, backend)
                if rk == "rejected":
                    ctx.count("rejected_by_einx")
                    continue
                same = (rk == lk) and (rk == "error" or np.array_equal(rv, lv))
                ctx.count("lowering_model_compared")
                if not same:
                    model_bad += 1
                    ctx.tie_broken("correspondence:update-lowering",
                                   f"{OPNAME[mode]} {description(case)} backend={backend}: real {rv.tolist() if rk == 'ok' else rv} vs model {lv.tolist() if lk == 'ok' else lv}")
                    ctx.sample({"DISAGREEMENT": True, "case": case_json(case), "mode": mode, "backend": backend})
                    break
        # ravelled addresses: the translated kernel against get_at on a ramp
        addr = ans[-1]
        if addr["lowered"] != addr["denoted"]:
            ctx.tie_broken("correspondence:ravel-kernel-vs-denotation", f"{description(case)}: kernel {addr['lowered']} vs ravel {addr['denoted']}")
            model_bad += 1
        names = [n for n in order if any(a[0] == n for e in [case["target"]] + case["coords"] for a in atoms(e))]
        if len(names) == len(order) and 0 not in case["sizes"].values():
            einx = einx_mod()
            ramp = np.arange(case["tdata"].size, dtype=np.int64).reshape(case["tdata"].shape)
            try:
                got = np.asarray(einx.get_at(get_description(case, names), ramp, *[c.copy() for c in case["cdata"]], backend="numpy", **{k: v for k, v in case["sizes"].items() if not k.endswith("'")})).reshape(-1).tolist()
            except Exception as e:
                got = f"{type(e).__name__}"
            ctx.count("ravel_kernel_compared")
            if got != addr["lowered"]:
                model_bad += 1
                ctx.tie_broken("correspondence:ravel-kernel", f"get_at({get_description(case, names)!r}) on a ramp: real {got} vs model {addr['lowered']}")

    # -- work package "join": the lowering as a function of the description alone (with the C16 model of `_join_exprs`)
    #    against the complete traced graph; index dtype of `_ravel` (Props/C14Join.lean, Props/C14Dtype.lean)
    if drv is not None:
        import random as _random
        from props import at_tie
        trng = _random.Random(f"c14-at:{ctx.seed}")
        calls = []
        for _ in range(60 if ctx.quick else 600):
            c = gen_case(trng, small=True)
            if 0 in c["sizes"].values():
                continue
            shapes, kwargs = at_tie.from_update_case(None, c)
            calls.append((OPNAME[trng.choice(MODES)], description(c), shapes, kwargs))
        at_tie.at_tie(ctx, 30 if ctx.quick else 400, calls, arange_dtype=facts.get("arange_dtype", "?"))
        if not facts.get("arange_dtype_wide", False):
            ctx.notes.append("T-src: the index ranges of `_ravel` are not created in a fixed dtype of at least 32 bits (obligation extracted_index_dtype_wide fails)")

    found += narrow_dtype_stream(ctx)

    # floats: only through allclose, against the integer run shifted by the same constants
    nf = 0
    for i in range(10 if ctx.quick else 100):
        case = gen_case(rng, small=True)
        T, hits = oracle(case)
        for mode in ("add", "sub"):
            try:
                r = from_out_layout(case, call_real(case, mode, "numpy", as_float=True))
            except Exception:
                continue   # already reported by the integer run of the same generator
            nf += 1
            want = np.zeros(T.shape, dtype=np.float64)
            for tidx in itertools.product(*[range(n) for n in T.shape]):
                s = sum(v + 0.25 for v in hits.get(tidx, []))
                want[tidx] = T[tidx] + 0.5 + (s if mode == "add" else -s)
            if not np.allclose(r.reshape(T.shape), want) and found < 3 and not ctx.violations:
                found += 1
                ctx.violation(case_sig(case) + " | float " + OPNAME[mode],
                              {"kind": "float run differs from the loop-notation meaning (allclose)", "case": case_json(case), "mode": mode,
                               "expected": want.tolist(), "observed": r.reshape(T.shape).tolist()})
    ctx.count("float_runs", nf)
    if ctx.hist.get("rejected_by_einx", 0) > 0.05 * max(1, ctx.hist.get("lowering_model_compared", 0) + ctx.hist.get("rejected_by_einx", 0)):
        raise core.MachineryError(f"einx rejects {ctx.hist['rejected_by_einx']} generated calls: the generator is out of step with the accepted notation")
    ctx.extra["model_disagreements"] = model_bad
    ctx.extra["traces_validated_against_impl"] = ctx.hist.get("lowering_model_compared", 0) + ctx.hist.get("ravel_kernel_compared", 0)


def replay(ctx, path):
    with open(path) as f:
        doc = json.load(f)
    r = doc["replay"]
    if "case" not in r:
        print(json.dumps(r, indent=1)[:4000])
        return 0
    case = case_from_json(r["case"])
    print("description:", description(case))
    print("sizes:", case["sizes"])
    print("target:", case["tdata"].tolist())
    print("coordinates:", [c.tolist() for c in case["cdata"]])
    print("updates:", case["udata"].tolist())
    fails = evaluate_real(case)
    for b in BACKENDS:
        rb = readback_fail(case, b)
        if rb:
            fails.append(rb)
    for mode in MODES:
        k, v = real_outcome(case, mode, "numpy")
        print(f"einx.{OPNAME[mode]} ->", to_out_layout(case, v.reshape(flat_shape(case['target'], case['sizes']))).tolist() if k == "ok" else v)
    if fails:
        for f in fails:
            print("STILL FAILS:", json.dumps(f, default=str))
        return 1
    print("the recorded input satisfies the property on the current tree")
    return 0
