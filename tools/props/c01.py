"""C01 — every built-in operation computes exactly its loop-notation meaning.

Proof: Props/C01.lean (`validate_sound`: acceptance by the symbolic validator implies equality with the
denotation for all tensor contents and all interpretations of the elementary functions).
Tie (T-str): the real traced graph (after optimisation, as compiled) of every generated id / elementwise
(incl. n-ary) / reduce / dot / flip / roll / argmax / argmin / get_at / sort / argsort call is serialised and
validated in the Lean driver against the denotation of einx's own solved expressions (softmax, log_softmax,
logsumexp: oracle only).  Tie (prim): the numpy primitive plans are compared with real numpy on random inputs;
the arithmetic normaliser behind the get_at fallback is self-checked.
Search / T-beh: every generated call of every family is executed by einx on integer iota/random data
and compared with the independent Python loop interpreter (lib.denote); the Lean denotation is
cross-checked against that interpreter as well (a disagreement there is a machinery error).
"""
import json

import numpy as np

from lib import core, gen, oracle, denote, graphcap

EXTRACTORS = ["Unravel", "Update"]
# Props/C01Lower.lean: correctness of the lowering algorithm of `id` for all descriptions (built and audited with C01)
# Props/C01Xlate.lean: `_unravel` (translated from /repo's source on every run) computes the coordinate form `Denote.peel`
EXTRA_PROPS = ["C01Lower", "C01LowerOps", "C01Xlate", "C14Join"]
BACKENDS = [None, "numpy", "numpy.numpylike", "numpy.einsum"]


def tens(a):
    a = np.asarray(a)
    return {"shape": [int(s) for s in a.shape], "data": [int(v) for v in a.reshape(-1)]}


def sig_of(call, backend):
    return f"call:einx.{call['op']}({call['desc']!r}) shapes={[list(s) for s in call['shapes']]} kwargs={sorted((k, str(v)) for k, v in call['kwargs'].items())} backend={backend}"


# ---------------------------------------------------------------- primitive conformance (Lean plans vs numpy)

def gen_prim(rng):
    rank = rng.randint(0, 4)
    shape = [rng.choice([1, 1, 2, 3, 4]) for _ in range(rank)]
    x = np.asarray([rng.randint(-50, 50) for _ in range(int(np.prod(shape)) if shape else 1)], dtype=np.int64).reshape(shape)
    k = rng.choice(["reshape", "transpose", "broadcast_to", "diagonal", "concat", "slice", "index", "ewise", "reduce", "einsum", "matmul", "flip", "roll",
                    "argfind", "sort", "arange", "take", "divmod"])
    if k == "argfind":
        # ties are frequent (values in a small range): numpy returns the first extremum
        x = np.asarray([rng.randint(-3, 3) for _ in range(int(np.prod(shape)) if shape else 1)], dtype=np.int64).reshape(shape)
        if rank < 1:
            return gen_prim(rng)
        axis = rng.randrange(rank) if rng.random() < 0.9 else rank  # sometimes out of range: both must reject
        f = rng.choice(["argmax", "argmin"])
        return [x], [{"i": "argfind", "f": f, "x": 0, "axis": axis}], lambda: getattr(np, f)(x, axis=axis)
    if k == "sort":
        if rank < 1:
            return gen_prim(rng)
        axis = rng.randrange(rank)
        f = rng.choice(["sort", "argsort"])
        if f == "argsort":
            # distinct values: the order of equal elements is not specified for numpy's default sort
            vals = rng.sample(range(-200, 200), int(np.prod(shape)))
            x = np.asarray(vals, dtype=np.int64).reshape(shape)
        return [x], [{"i": "sort", "f": f, "x": 0, "axis": axis}], lambda: getattr(np, f)(x, axis=axis)
    if k == "arange":
        n = rng.randint(0, 6)
        return [], [{"i": "arange", "n": n}], lambda: np.arange(n, dtype="int32")
    if k == "take":
        n = int(np.prod(shape)) if shape else 1
        ishape = [rng.choice([1, 2, 3]) for _ in range(rng.randint(0, 3))]
        idx = np.asarray([rng.randint(-n, n - 1) for _ in range(int(np.prod(ishape)) if ishape else 1)], dtype=np.int64).reshape(ishape)
        return [x, idx], [{"i": "take", "x": 0, "idx": 1}], lambda: np.take(x, idx)
    if k == "divmod":
        # np.divmod(x, k) = (floor_divide(x, k), remainder(x, k)); the translation emits these two instructions
        d = rng.choice([-4, -3, -2, -1, 1, 2, 3, 4, 5])
        which = rng.randrange(2)
        fs = ["floor_divide", "remainder"] if which else ["remainder", "floor_divide"]
        return [x], [{"i": "ewise", "f": f_, "args": [{"reg": 0}, {"lit": d}]} for f_ in fs], lambda: np.divmod(x, d)[which]
    if k == "reduce":
        if rank < 1:
            return gen_prim(rng)
        axes = sorted(rng.sample(range(rank), rng.randint(1, rank)))
        keep = rng.random() < 0.3
        f = rng.choice(["sum", "prod", "max", "min"])
        if f == "prod":
            x = np.asarray([rng.randint(-3, 3) for _ in range(int(np.prod(shape)) if shape else 1)], dtype=np.int64).reshape(shape)
        return [x], [{"i": "reduce", "f": f, "x": 0, "axes": axes, "keepdims": keep}], lambda: getattr(np, f)(x, axis=tuple(axes), keepdims=keep)
    if k == "einsum":
        labels = rng.sample(range(97, 103), rng.randint(1, 4))
        sizes = {l: rng.choice([1, 2, 3]) for l in labels}
        n_ops = rng.randint(1, 3)
        specs = [rng.sample(labels, rng.randint(1, len(labels))) for _ in range(n_ops)]
        if rng.random() < 0.2 and len(specs[0]) >= 1:
            specs[0] = specs[0] + [specs[0][0]]  # repeated label: diagonal
        used = sorted(set(l for sp in specs for l in sp))
        out = rng.sample(used, rng.randint(0, len(used)))
        xs = [np.asarray([rng.randint(-4, 4) for _ in range(int(np.prod([sizes[l] for l in sp])))], dtype=np.int64).reshape([sizes[l] for l in sp]) for sp in specs]
        spec = ",".join("".join(chr(l) for l in sp) for sp in specs) + "->" + "".join(chr(l) for l in out)
        return xs, [{"i": "einsum", "spec_in": specs, "spec_out": out, "xs": list(range(n_ops))}], lambda: np.einsum(spec, *xs)
    if k == "matmul":
        b = [rng.choice([1, 2, 3]) for _ in range(rng.randint(0, 2))]
        i_, k_, j_ = (rng.choice([1, 2, 3]) for _ in range(3))
        bx = [d if rng.random() < 0.7 else 1 for d in b]
        by = [d if rng.random() < 0.7 else 1 for d in b]
        mk = lambda s: np.asarray([rng.randint(-4, 4) for _ in range(int(np.prod(s)))], dtype=np.int64).reshape(s)
        x_, y_ = mk(bx + [i_, k_]), mk(by + [k_, j_])
        return [x_, y_], [{"i": "matmul", "x": 0, "y": 1}], lambda: np.matmul(x_, y_)
    if k == "flip":
        if rank < 1:
            return gen_prim(rng)
        axes = sorted(rng.sample(range(rank), rng.randint(1, rank)))
        return [x], [{"i": "flip", "x": 0, "axes": axes}], lambda: np.flip(x, axis=tuple(axes))
    if k == "roll":
        if rank < 1:
            return gen_prim(rng)
        axes = [rng.randrange(rank) for _ in range(rng.randint(1, 3))]
        shifts = [rng.randint(-4, 4) for _ in axes]
        return [x], [{"i": "roll", "x": 0, "shifts": shifts, "axes": axes}], lambda: np.roll(x, tuple(shifts), axis=tuple(axes))
    if k == "reshape":
        n = int(np.prod(shape)) if shape else 1
        facs = []
        m = n
        while m > 1 and rng.random() < 0.7:
            d = rng.choice([f for f in range(2, m + 1) if m % f == 0])
            facs.append(d)
            m //= d
        facs.append(m)
        while rng.random() < 0.3:
            facs.insert(rng.randrange(len(facs) + 1), 1)
        rng.shuffle(facs)
        if rng.random() < 0.1:
            facs[0] += 1  # ill-formed on purpose
        return [x], [{"i": "reshape", "x": 0, "shape": facs}], lambda: np.reshape(x, facs)
    if k == "transpose":
        perm = list(range(rank))
        rng.shuffle(perm)
        if rank and rng.random() < 0.1:
            perm[0] = perm[-1]
        return [x], [{"i": "transpose", "x": 0, "perm": perm}], lambda: np.transpose(x, perm)
    if k == "broadcast_to":
        s = list(shape)
        s = [rng.choice([2, 3]) if d == 1 and rng.random() < 0.6 else d for d in s]
        s = [rng.choice([1, 2, 3]) for _ in range(rng.randint(0, 2))] + s
        if s and rng.random() < 0.1:
            s[-1] += 1
        return [x], [{"i": "broadcast_to", "x": 0, "shape": s}], lambda: np.broadcast_to(x, s)
    if k == "diagonal":
        if rank < 2:
            return gen_prim(rng)
        a1, a2 = rng.sample(range(rank), 2)
        shape[a2] = shape[a1]
        x = np.asarray([rng.randint(-50, 50) for _ in range(int(np.prod(shape)))], dtype=np.int64).reshape(shape)
        return [x], [{"i": "diagonal", "x": 0, "a1": a1, "a2": a2}], lambda: np.diagonal(x, axis1=a1, axis2=a2)
    if k == "concat":
        if rank < 1:
            return gen_prim(rng)
        axis = rng.randrange(rank)
        xs = []
        for _ in range(rng.randint(1, 3)):
            s = list(shape)
            s[axis] = rng.choice([1, 2, 3])
            xs.append(np.asarray([rng.randint(-50, 50) for _ in range(int(np.prod(s)))], dtype=np.int64).reshape(s))
        return xs, [{"i": "concat", "xs": list(range(len(xs))), "axis": axis}], lambda: np.concatenate(xs, axis=axis)
    if k == "slice":
        if rank < 1:
            return gen_prim(rng)
        axis = rng.randrange(rank)
        lo = rng.randint(0, shape[axis])
        hi = rng.randint(lo, shape[axis])
        sl = [slice(None)] * rank
        sl[axis] = slice(lo, hi)
        return [x], [{"i": "slice", "x": 0, "axis": axis, "lo": lo, "hi": hi}], lambda: x[tuple(sl)]
    if k == "index":
        key = []
        pk = []
        for d in shape:
            while rng.random() < 0.15:
                key.append({"k": "newaxis"})
                pk.append(None)
            if rng.random() < 0.4:
                i = rng.randrange(d)
                key.append({"k": "idx", "i": i})
                pk.append(i)
            else:
                key.append({"k": "all"})
                pk.append(slice(None))
        return [x], [{"i": "index", "x": 0, "key": key}], lambda: x[tuple(pk)]
    # ewise with broadcasting
    s2 = [d if rng.random() < 0.6 else 1 for d in shape][rng.randint(0, rank):]
    y = np.asarray([rng.randint(-50, 50) for _ in range(int(np.prod(s2)) if s2 else 1)], dtype=np.int64).reshape(s2)
    f = rng.choice(["add", "subtract", "multiply", "maximum", "minimum"])
    if rng.random() < 0.2:
        lit = rng.randint(-5, 5)
        return [x], [{"i": "ewise", "f": f, "args": [{"reg": 0}, {"lit": lit}]}], lambda: getattr(np, f)(x, lit)
    return [x, y], [{"i": "ewise", "f": f, "args": [{"reg": 0}, {"reg": 1}]}], lambda: getattr(np, f)(x, y)


def prim_conformance(ctx, n):
    drv = ctx.driver()
    bad = 0
    for _ in range(n):
        inputs, prog, ref = gen_prim(ctx.rng)
        r = drv.ask({"kind": "ir_run", "prog": prog, "inputs": [tens(a) for a in inputs]})
        try:
            want = np.asarray(ref())
            werr = None
        except Exception as e:  # numpy rejects
            want, werr = None, type(e).__name__
        ctx.count("prim:" + prog[0]["i"] + (":err" if werr else ""))
        if werr is not None:
            ok = "err" in r
        else:
            ok = "ok" in r and r["ok"][-1]["shape"] == list(want.shape) and r["ok"][-1]["data"] == [int(v) for v in want.reshape(-1)]
        if not ok:
            bad += 1
            ctx.tie_broken("correspondence:numpy-primitive", f"{prog} on shapes {[list(a.shape) for a in inputs]}: numpy {'raises ' + werr if werr else tens(want)} vs model {json.dumps(r)[:300]}")
            if bad >= 3:
                break
    ctx.extra["primitive_cases"] = n
    return bad


# ---------------------------------------------------------------- arithmetic normaliser (self-check)

def _arith_expr(rng, depth):
    if depth == 0 or rng.random() < 0.25:
        r = rng.random()
        if r < 0.55:
            return {"s": [0, rng.randrange(4)]}
        if r < 0.9:
            return {"l": rng.randint(-3, 4)}
        return {"f": "negative", "a": [_arith_expr(rng, max(depth - 1, 0))]}
    return {"f": rng.choice(["add", "multiply"]), "a": [_arith_expr(rng, depth - 1), _arith_expr(rng, depth - 1)]}


def _arith_variant(rng, e):
    """An expression equal to `e` in every commutative ring: arguments swapped, sums/products re-associated,
    products distributed over sums -- at random places."""
    if "f" not in e:
        return e
    args = [_arith_variant(rng, a) for a in e["a"]]
    f = e["f"]
    if f not in ("add", "multiply"):
        return {"f": f, "a": args}
    x, y = args
    if rng.random() < 0.5:
        x, y = y, x
    if rng.random() < 0.5 and isinstance(x, dict) and x.get("f") == f:
        return {"f": f, "a": [x["a"][0], {"f": f, "a": [x["a"][1], y]}]}
    if f == "multiply" and rng.random() < 0.5 and isinstance(y, dict) and y.get("f") == "add":
        return {"f": "add", "a": [{"f": "multiply", "a": [x, y["a"][0]]}, {"f": "multiply", "a": [x, y["a"][1]]}]}
    return {"f": f, "a": [x, y]}


def arith_norm_selfcheck(ctx, n):
    """`IR.normArith` (used by the get_at fallback `validateArith`): values are preserved (this is also the theorem
    `normArith_sound`) and ring-equal variants have the same normal form."""
    drv = ctx.driver()
    rng = ctx.rng
    for _ in range(n):
        e = _arith_expr(rng, rng.randint(1, 4))
        v = _arith_variant(rng, e)
        data = [rng.randint(-5, 5) for _ in range(4)]
        r = drv.ask({"kind": "norm_arith", "cells": [e, v], "inputs": [{"shape": [4], "data": data}]})
        if "norm" not in r:
            raise core.MachineryError(f"norm_arith failed: {json.dumps(r)[:300]}")
        if r["values"] != r["norm_values"] or r["values"][0] != r["values"][1]:
            raise core.MachineryError(f"normArith changed a value: {json.dumps(e)} / {json.dumps(v)} on {data}: {r['values']} vs {r['norm_values']}")
        if r["norm"][0] != r["norm"][1]:
            raise core.MachineryError(f"normArith is not canonical: {json.dumps(e)} and {json.dumps(v)} -> {json.dumps(r['norm'])[:400]}")
        ctx.count("arith-norm:" + ("variant-differs" if e != v else "variant-identical"))
    ctx.extra["arith_norm_cases"] = n


# ---------------------------------------------------------------- call stream

def check_call(ctx, call, backend, args, validate=True):
    """Runs one call: oracle comparison (violation on difference) and, for supported families, validation."""
    import einx
    b = backend if backend is not None else call.get("backend")
    try:
        res, rec = oracle.run_captured(call, args, backend=b)
    except einx.errors.OperationNotSupportedError:
        ctx.count("not-supported")
        return "unsupported-op"
    except Exception as e:
        ctx.count("raised:" + type(e).__name__)
        # a generated call is meant to be valid; a raise here is not a C01 violation (C03/C02 own it)
        return "raised"
    if rec is None or not rec["solved"]:
        ctx.count("no-capture")
        return "nocapture"
    solved = rec["solved"][-1]
    try:
        exp = oracle.expected(call, args, solved)
    except denote.Unsupported as e:
        ctx.count("oracle-unsupported")
        return "oracle-unsupported"
    ok = oracle.compare(res, exp)
    if not ok:
        reslist = list(res) if isinstance(res, (tuple, list)) else [res]
        ctx.violation(sig_of(call, b), {"kind": "result differs from the loop-notation denotation", "call": {k: call[k] for k in ("op", "desc", "kwargs")},
                                       "shapes": [list(s) for s in call["shapes"]], "backend": b, "inputs": [np.asarray(a).tolist() for a in args],
                                       "observed": [np.asarray(r).tolist() for r in reslist], "expected": [np.asarray(e).tolist() for e in exp],
                                       "code": rec["code"]})
        return "DIFF"
    if not validate or not ctx.driver_ok:
        return "ok"
    fam = call["family"]
    # validated families; softmax / log_softmax / logsumexp rest on the oracle comparison above (their generated
    # code is a numerically stabilised composition that the documentation does not define)
    if not (fam in ("id", "elementwise", "dot", "argfind", "get_at") or (fam == "reduce" and call["op"] != "logsumexp")
            or (fam == "preserve_shape" and call["op"] in ("flip", "roll", "sort", "argsort"))):
        return "ok"
    drv = ctx.driver()
    gj, _ = graphcap.graph_to_json(rec["post"])
    ei, eo = solved
    req = {"kind": "validate", "graph": gj, "family": fam, "op": call["op"], "exprs_in": ei, "exprs_out": eo}
    if call["op"] == "roll":
        sh = call["kwargs"]["shift"]
        req["shifts"] = list(sh) if isinstance(sh, tuple) else [sh]
    r = drv.ask(req)
    ctx.count(f"validate:{fam}:{r['verdict']}")
    # finer histogram for the families added later: n-ary elementwise and sort/argsort share a family name with others
    if fam == "elementwise" and len(args) >= 3:
        ctx.count(f"validate:elementwise_nary:{r['verdict']}")
    if fam == "preserve_shape":
        ctx.count(f"validate:preserve_shape.{call['op']}:{r['verdict']}")
    if r["verdict"] == "unsupported":
        ctx.count(f"validate-unsupported:{fam}:{str(r.get('why'))[:70]}")
    if r["verdict"] == "accepted" and r.get("mode") == "arith":
        ctx.count(f"validate-modulo-arithmetic:{fam}")
    if r["verdict"] == "accepted":
        ctx.extra["graphs_validated"] = ctx.extra.get("graphs_validated", 0) + 1
    elif r["verdict"] in ("rejected", "denote-error"):
        ctx.tie_broken("validator:traced-graph", f"{sig_of(call, b)}: {json.dumps(r)[:600]}\ncode:\n{rec['code']}")
    # cross-check the Lean denotation against the Python oracle on this input (machinery self-check)
    if fam in ("id", "dot", "argfind", "get_at") or call["op"] in ("add", "subtract", "multiply", "maximum", "minimum", "sum", "prod", "max", "min", "flip", "roll", "sort", "argsort"):
        dreq = {"kind": "denote", "family": fam, "op": call["op"], "exprs_in": ei, "exprs_out": eo, "inputs": [tens(a) for a in args]}
        if "shifts" in req:
            dreq["shifts"] = req["shifts"]
        d = drv.ask(dreq)
        if "ok" in d:
            got = [np.asarray(t["data"], dtype=object).reshape(t["shape"]) for t in d["ok"]]
            exp = [np.asarray(e).astype(object) for e in exp]
            # numpy's int64 arithmetic wraps modulo 2**64, the model's integers are exact
            wrap = lambda a: [int(v) % 2 ** 64 for v in np.asarray(a, dtype=object).reshape(-1)]
            if not all(a.shape == b_.shape and wrap(a) == wrap(b_) for a, b_ in zip(got, exp)):
                raise core.MachineryError(f"Lean denotation and Python oracle disagree on {sig_of(call, b)}")
        elif "err" in d:
            raise core.MachineryError(f"Lean denotation fails on a call the oracle handles: {sig_of(call, b)}: {d}")
    return "ok"


def directed_calls():
    """Deterministic structural sweep: every non-empty subset of bracketed positions among 1..4 axes of pairwise
    distinct lengths, for argmax (coordinate output first and last), sum and flip; n-ary elementwise, get_at and
    sort/argsort forms; the non-adjacent diagonal; all arrangements of repeated names up to five axes."""
    import itertools
    sizes = [2, 3, 4, 5]
    names = ["a", "b", "c", "d"]
    for n in range(1, 5):
        for k in range(1, n + 1):
            for sub in itertools.combinations(range(n), k):
                items = [f"[{names[i]}]" if i in sub else names[i] for i in range(n)]
                keep = [names[i] for i in range(n) if i not in sub]
                shape = tuple(sizes[:n])
                e_in = " ".join(items)
                yield {"op": "argmax", "family": "argfind", "desc": f"{e_in} -> [{k}] {' '.join(keep)}".strip(), "shapes": [shape], "kwargs": {}, "note": ["directed"]}
                yield {"op": "argmin", "family": "argfind", "desc": f"{e_in} -> {' '.join(reversed(keep))} [{k}]".strip(), "shapes": [shape], "kwargs": {}, "note": ["directed"]}
                yield {"op": "sum", "family": "reduce", "desc": f"{e_in} -> {' '.join(reversed(keep))}", "shapes": [shape], "kwargs": {}, "note": ["directed"]}
                yield {"op": "flip", "family": "preserve_shape", "desc": e_in, "shapes": [shape], "kwargs": {}, "note": ["directed"]}
    # n-ary elementwise (left fold of the binary function), 3 and 4 operands, with broadcasting and transposition
    for op in ("add", "multiply", "maximum", "minimum", "logical_and", "logaddexp"):
        yield {"op": op, "family": "elementwise", "desc": "a b, b, a -> a b", "shapes": [(2, 3), (3,), (2,)], "kwargs": {}, "note": ["directed", "three-operands"]}
        yield {"op": op, "family": "elementwise", "desc": "a b, b, a, b a -> b a", "shapes": [(2, 3), (3,), (2,), (3, 2)], "kwargs": {}, "note": ["directed", "four-operands"]}
    for desc, shapes, kw in [("a b, b, a -> a b", [(2, 3), (3,), (2,)], {}), ("a e c, e c, c e a -> e a c", [(2, 3, 4), (3, 4), (4, 3, 2)], {}),
                             ("e,, e -> e", [(2,), (), (2,)], {}), ("(d e) b, ((e d)), b -> d b e", [(8, 4), (8,), (4,)], {"d": 2, "e": 4}),
                             ("a b, b, a, b a -> b a", [(2, 3), (3,), (2,), (3, 2)], {})]:
        # an n-ary product on the einsum backend is ONE einsum call (the plan folds the factors from the left, like the denotation)
        yield {"op": "multiply", "family": "elementwise", "desc": desc, "shapes": shapes, "kwargs": kw, "note": ["directed", "nary-einsum"], "backend": "numpy.einsum"}
    # get_at: several coordinate tensors, leading / trailing / absent coordinate axis, vectorised axes on both sides
    for desc, shapes, bounds, pos in [("[h w] c, p, p -> p c", [(3, 4, 2), (5,), (5,)], [3, 4], None),
                                      ("b [h] c, b p -> b p c", [(2, 3, 2), (2, 4)], [3], None),
                                      ("[h] w c, p -> p w c", [(3, 2, 2), (4,)], [3], None),
                                      ("[h w] c, [2] p -> c p", [(3, 4, 2), (2, 5)], [3, 4], 0),
                                      ("b [h w], b p [2] -> b p", [(2, 3, 4), (2, 5, 2)], [3, 4], 2),
                                      ("[a b c], p [3] -> p", [(2, 3, 4), (5, 3)], [2, 3, 4], 1),
                                      ("[h] 1 c, p [1] -> c p", [(3, 1, 2), (4, 1)], [3], 1)]:
        yield {"op": "get_at", "family": "get_at", "desc": desc, "shapes": shapes, "kwargs": {}, "note": ["directed"], "coord_bounds": bounds, "coord_axis_pos": pos}
    for op in ("sort", "argsort"):
        for desc, shape in [("[a]", (4,)), ("a [b] c", (2, 3, 2)), ("a [b] c -> c [b] a", (2, 3, 2)), ("[a] b", (3, 2))]:
            yield {"op": op, "family": "preserve_shape", "desc": desc, "shapes": [shape], "kwargs": {}, "note": ["directed"]}
    # reductions over an EMPTY set of axes (explicit output equal to the input, or an ellipsis of zero axes in the brackets):
    # the elementary operation still runs on one element (var/std = 0, count_nonzero/any/all change dtype and values)
    for op in gen.REDUCE:
        yield {"op": op, "family": "reduce", "desc": "a b -> a b", "shapes": [(2, 3)], "kwargs": {}, "note": ["directed", "empty-reduction"]}
        yield {"op": op, "family": "reduce", "desc": "a b -> b a", "shapes": [(2, 3)], "kwargs": {}, "note": ["directed", "empty-reduction"]}
        yield {"op": op, "family": "reduce", "desc": "a [s...] b", "shapes": [(2, 3)], "kwargs": {}, "note": ["directed", "empty-reduction"]}
        yield {"op": op, "family": "reduce", "desc": "(a [b]) c -> a c", "shapes": [(6, 2)], "kwargs": {"a": 2}, "note": ["directed", "length-one-after-split"]}
        yield {"op": op, "family": "reduce", "desc": "a [b] c", "shapes": [(2, 1, 3)], "kwargs": {}, "note": ["directed", "length-one-reduction"]}
    # dot: two and three batch axes in different relative orders in the operands and the output, contracted axes in
    # different orders, three operands; on every backend that implements dot
    for desc, shapes in [("a b c, b a c d -> a b d", [(2, 3, 4), (3, 2, 4, 5)]),
                         ("b a e c, e c a b -> e a", [(3, 2, 4, 5), (4, 5, 2, 3)]),
                         ("a b c, c b a -> b a", [(2, 3, 4), (4, 3, 2)]),
                         ("a b c d, d c b e -> b a e", [(2, 3, 4, 5), (5, 4, 3, 2)]),
                         ("a b [c], b a [c] -> b a", [(2, 3, 4), (3, 2, 4)]),
                         ("a b [c d], [d c] b a e -> e b a", [(2, 3, 4, 5), (5, 4, 3, 2, 2)]),
                         ("a 1 b c, b a c -> a b", [(2, 1, 3, 4), (3, 2, 4)]),
                         ("a b, b c, c d -> a d", [(2, 3), (3, 4), (4, 5)]),
                         ("b a, b c, a c d -> d b", [(3, 2), (3, 4), (2, 4, 5)])]:
        for backend in (None, "numpy.numpylike", "numpy.einsum"):
            yield {"op": "dot", "family": "dot", "desc": desc, "shapes": shapes, "kwargs": {}, "note": ["directed", "batch-order"], "backend": backend}
    # several concatenated axes in one output / input (the order in which the blocks are composed and split), three blocks,
    # a batched and flattened block matrix
    for desc, shapes, kw in [("a c, a d, b c, b d -> (a + b) (c + d)", [(2, 3), (2, 2), (3, 3), (3, 2)], {}),
                             ("a c, a d, b c, b d -> (a + b) (c + d)", [(2, 2), (2, 2), (2, 2), (2, 2)], {}),
                             ("n a c, n a d, n b c, n b d -> n ((a + b) (c + d))", [(2, 2, 3), (2, 2, 2), (2, 3, 3), (2, 3, 2)], {}),
                             ("(a + b) (c + d) -> a c, a d, b c, b d", [(5, 5)], {"a": 2, "c": 3}),
                             ("a, b, c -> (a + b + c)", [(2,), (3,), (4,)], {}),
                             ("a x, b x, c x -> x (a + b + c)", [(2, 2), (3, 2), (1, 2)], {}),
                             ("(a + b + c) -> c, b, a", [(6,)], {"a": 1, "b": 2}),
                             ("a c, b c, a d -> (a + b) c, a (c + d)", [(2, 3), (1, 3), (2, 2)], {})]:
        yield {"op": "id", "family": "id", "desc": desc, "shapes": shapes, "kwargs": kw, "note": ["directed", "multi-concat"]}
    # softmax / log_softmax / logsumexp on slices of very different magnitude (a stabilising shift must be taken per slice)
    far = np.array([[0, 1, 2, 3], [-800, -799, -798, -796], [700, 701, 699, 702]], dtype=np.float64)
    for op, fam in (("softmax", "preserve_shape"), ("log_softmax", "preserve_shape"), ("logsumexp", "reduce")):
        yield {"op": op, "family": fam, "desc": "a [b]", "shapes": [(3, 4)], "kwargs": {}, "note": ["directed", "slice-magnitudes"], "args": [far]}
        yield {"op": op, "family": fam, "desc": "[b] a", "shapes": [(4, 3)], "kwargs": {}, "note": ["directed", "slice-magnitudes"], "args": [far.T.copy()]}
    for desc, shape in [("a e a d -> a d e", (2, 3, 2, 4)), ("b a c a -> a b c", (3, 2, 4, 2)), ("a b a c -> c b a", (2, 3, 2, 4)), ("a a b a -> b a", (2, 2, 3, 2))]:
        yield {"op": "id", "family": "id", "desc": desc, "shapes": [shape], "kwargs": {}, "note": ["directed", "diagonal"]}
    # every arrangement (up to renaming) of up to five axes over three names in which a name repeats: one, two and three
    # diagonals in one input, adjacent or not, with a trailing axis as long as a repeated one (b and c both have length 3)
    length = {"a": 2, "b": 3, "c": 3}
    for n in range(2, 6):
        for word in itertools.product("abc", repeat=n):
            first = []
            for ch in word:
                if ch not in first:
                    first.append(ch)
            if first != sorted(first) or first[0] != "a" or (len(first) > 1 and first[1] != "b") or len(first) == n:
                continue
            shape = tuple(length[ch] for ch in word)
            out = " ".join(reversed(first))
            yield {"op": "id", "family": "id", "desc": f"{' '.join(word)} -> {out}", "shapes": [shape], "kwargs": {}, "note": ["directed", "diagonal"]}
            if n == 5:
                yield {"op": "add", "family": "elementwise", "desc": f"{' '.join(word)}, {first[-1]} -> {out}", "shapes": [shape, (length[first[-1]],)], "kwargs": {},
                       "note": ["directed", "diagonal"]}


def unravel_tie(ctx, n):
    """The translation of `_unravel` (Extracted/Unravel.lean, compiled into the driver) against the real `_unravel` on numpy
    arrays of flat indices (tie for the translator; `Props/C01Xlate.lean` proves the translation equal to `Denote.peel`)."""
    from types import SimpleNamespace
    from einx._src.adapter._util import _unravel
    xl = (getattr(ctx, "facts", {}) or {}).get("Unravel", {})
    ctx.extra["xlate_unravel"] = {"translated": xl.get("translated"), "readings": xl.get("notes", [])}
    ctx.assumptions.append("Python -> Lean translation of _unravel at the level of one element (tools/extract/_pylean.py, Basic/PyPrelude.lean): " + "; ".join(xl.get("notes", [])))
    classical = SimpleNamespace(divmod=np.divmod, reshape=np.reshape, concatenate=np.concatenate)
    rng = ctx.rng
    cases = []
    for _ in range(n):
        sizes = [rng.choice([1, 2, 3, 4, 5]) for _ in range(rng.randint(1, 4))]
        total = int(np.prod(sizes))
        ks = [rng.randrange(total) for _ in range(3)] + [total + rng.randint(0, 5)]     # also indices outside the block
        axis = rng.choice([None, 0])
        cases.append((sizes, ks, axis))
    reqs = [{"kind": "xlate_unravel", "k": k, "sizes": sizes, "axis": axis} for sizes, ks, axis in cases for k in ks]
    got = iter(ctx.driver().ask_many(reqs))
    for sizes, ks, axis in cases:
        try:
            real = np.asarray(_unravel(classical, np.asarray(ks, dtype=np.int64), tuple(sizes), axis=axis))
            real = real.reshape(len(sizes), len(ks))       # component i of element j (1-D shortcut with axis=None returns the indices themselves)
            err = None
        except Exception as ex:                            # several sizes with axis=None: `_stack` evaluates `axis < 0`
            err = type(ex).__name__
        for j, k in enumerate(ks):
            lean = next(got)
            want = {"err": err} if err else {"ok": {"v": [int(real[i, j]) for i in range(len(sizes))]}}
            ctx.count("xlate-unravel:" + (err or ("in-block" if k < int(np.prod(sizes)) else "outside-block")))
            if lean != want:
                ctx.tie_broken("correspondence:xlate-unravel", f"_unravel(k={k}, ravel_shape={sizes}, axis={axis}): real {want} vs translation {lean}")
                return


def run(ctx):
    rng = ctx.rng
    n_calls = 350 if ctx.quick else 6000
    n_prim = 400 if ctx.quick else 8000
    if ctx.driver_ok:
        # Props/C01LowerOps.lean: the lowering models of elementwise operations and reductions against really traced graphs,
        # with the recomputed instances of lower_elementwise_correct / lower_reduce_correct (a difference is a broken tie)
        from props import lower_tie
        from props.c17 import SizedCall, variants
        lower_tie.lower_tie(ctx, 24 if ctx.quick else 400, SizedCall, variants)
        # Props/C14Join.lean (`lower_get_at_correct`): the get_at lowering model (`AtLower.lowerGetAt`) against traced graphs
        import random as _random
        from props import at_tie
        grng = _random.Random(f"c01-at:{ctx.seed}")
        gcalls = []
        for _ in range(30 if ctx.quick else 400):
            c = gen.gen_get_at(grng)
            gcalls.append(("get_at", c["desc"], [tuple(s) for s in c["shapes"]], dict(c["kwargs"])))
        at_tie.at_tie(ctx, 20 if ctx.quick else 300, gcalls, arange_dtype=ctx.facts.get("Update", {}).get("arange_dtype"), only="get_at")
    if ctx.broken:
        n_calls *= 3
    ctx.extra["rule"] = ("grammar-directed einx calls (id with grouping/diagonal/1-axes/broadcast/concat/ellipsis, reductions, elementwise, dot, get_at, argmax/argmin, "
                         "flip/roll/sort/argsort/softmax) on the numpy backends; each executed on integer data and compared with the Python loop interpreter; traced graphs of "
                         "id/elementwise/reduce/dot/flip/roll/argmax/argmin/get_at/sort/argsort calls validated symbolically in Lean; non-trivial = at least two axes or a composition/diagonal/broadcast; distinct by (op, description, shapes, backend)")
    ctx.assumptions.append("solved stage-3 expression trees are taken from einx itself (front-trusted; tied by C02/C07/C12)")
    ctx.assumptions.append("numpy primitive plans in IR/Prim.lean describe numpy (conformance-tested on this run)")
    if ctx.driver_ok:
        prim_conformance(ctx, n_prim)
        arith_norm_selfcheck(ctx, 150 if ctx.quick else 3000)
        unravel_tie(ctx, 120 if ctx.quick else 2500)
    directed = list(directed_calls())
    for call in directed:
        args = call["args"] if "args" in call else gen.make_args(call, rng, "rand")
        for backend in ((call["backend"],) if "backend" in call else (None, "numpy.numpylike")):
            st = check_call(ctx, call, backend, args)
            ctx.case(sig_of(call, backend), st in ("ok", "DIFF"))
            ctx.count("directed:" + st)
    for i in range(n_calls):
        call = gen.gen_call(rng)
        mode = "iota" if rng.random() < 0.6 else "rand"
        args = gen.make_args(call, rng, mode)
        backend = rng.choice(BACKENDS) if "backend" not in call else call.get("backend")
        st = check_call(ctx, call, backend, args)
        nontrivial = st in ("ok", "DIFF") and (sum(len(s) for s in call["shapes"]) >= 2 or bool(call["note"]))
        ctx.case(sig_of(call, backend), nontrivial)
        ctx.count("family:" + call["family"])
        ctx.count("status:" + st)
        if i < 4:
            ctx.sample({"op": call["op"], "desc": call["desc"], "shapes": [list(s) for s in call["shapes"]], "kwargs": {k: str(v) for k, v in call["kwargs"].items()}, "backend": backend, "status": st})
        if len(ctx.violations) >= 5:
            break
    ctx.extra["traces_validated_against_impl"] = ctx.extra.get("graphs_validated", 0)


def replay(ctx, path):
    with open(path) as f:
        r = json.load(f)["replay"]
    if "call" not in r:
        print(json.dumps(r, indent=1)[:3000])
        return 0
    import einx
    args = [np.asarray(a) for a in r["inputs"]]
    kw = dict(r["call"]["kwargs"])
    if r.get("backend"):
        kw["backend"] = r["backend"]
    out = getattr(einx, r["call"]["op"])(r["call"]["desc"], *args, **kw)
    print("observed now:", np.asarray(out).tolist() if not isinstance(out, tuple) else [np.asarray(o).tolist() for o in out])
    print("expected    :", r["expected"])
    return 0
