"""C02, CSE part (work package cse2) — stream (E): **the system `forestSys` of the CSE theorems is the system the real
stage 3 states**.

`cseTrees_preserves_sols_(reduced_)partial` (Props/C02Cse*.lean) speak about `forestSys rs` (Lean, Solve/CseCheck.lean):
the value system of a list of stage-2 expressions `exprs1 ++ exprs2`.  Here that definition is tied to the code:

* `stage3.solve` (package attribute looked up by `namedtensor/solve.py` at call time) is wrapped from outside while the
  real einx calls of the CSE harness run: the stage-2 expressions it receives (after CSE, plus the additional equations
  of `equations_stage3`) are serialised exactly as for stream (D);
* `util.solver.solve` (module attribute looked up by `stage3/solve.py` at call time) is wrapped too: the list of
  equations `(lhs, rhs)` over `solver.Variable / Constant / Product / Sum` that the real stage 3 built for these
  expressions is recorded — these are the equations the real solver receives;
* canonicalisation of the real equations (Python, does not use the Lean model): the per-node variables
  `symbolic_expr_values[id]` are eliminated by substitution (a node variable is determined by its constant, by the name
  variable of its axis, by the `Product`/`Sum` of its children, or by an equal node variable), a name variable that
  is equated with a constant becomes that constant; every equation is then a pair of polynomials over the axis names in
  normal form (sorted monomials, like terms merged, zero terms dropped); identities are dropped; a pair is unordered;
  the result is a set;
* the model's `forestSys` for the same expressions (driver kind `forest_sys`) is canonicalised the same way, and the two
  sets must be equal; an `AssertionError` of the real `assert root1.ndim == root2.ndim` must correspond to the
  contradictory equation `1 = 0` of the model and vice versa;
* bounds: the real stage 3 rejects a solution with `value < min_value` for any `Axis` node; the model declares
  `(name, min_value)` for every unknown axis: the sets must be equal; for an axis with a value the test is static
  (`value >= min_value`), the model does not state it, and the harness checks that it holds on every real input.

A difference is the broken tie `correspondence:forest_sys`.
"""
import json


def _mono_key(m):
    return (tuple(m[0]), m[1])


class Poly:
    """polynomial over names with natural coefficients: {sorted tuple of names: coef}"""

    @staticmethod
    def const(c):
        return {(): int(c)} if int(c) != 0 else {}

    @staticmethod
    def var(x):
        return {(x,): 1}

    @staticmethod
    def add(p, q):
        r = dict(p)
        for k, v in q.items():
            r[k] = r.get(k, 0) + v
        return {k: v for k, v in r.items() if v != 0}

    @staticmethod
    def mul(p, q):
        r = {}
        for k1, v1 in p.items():
            for k2, v2 in q.items():
                k = tuple(sorted(k1 + k2))
                r[k] = r.get(k, 0) + v1 * v2
        return {k: v for k, v in r.items() if v != 0}

    @staticmethod
    def norm(p):
        return tuple(sorted((list(k), v) for k, v in p.items()))


def canon_pairs(pairs):
    """pairs of polynomials -> sorted list of unordered non-trivial pairs in normal form (JSON text)"""
    out = set()
    for a, b in pairs:
        na, nb = Poly.norm(a), Poly.norm(b)
        if na == nb:
            continue
        out.add(json.dumps(sorted([na, nb], key=json.dumps)))
    return sorted(out)


NODE = "symbolic_expr_values["
NAME = "sympy_axis_values["


def canon_real(equations, SV):
    """The equations handed to `util.solver.solve` -> (canonical set, problems).  `SV` is the module util.solver."""
    eqs = [(SV._to_expr(a), SV._to_expr(b)) for a, b in equations]
    problems = []
    assigned = {}        # node variable id -> polynomial
    name_const = {}      # axis name -> constant (the name of an axis with a value)

    def is_node(e):
        return isinstance(e, SV.Variable) and e.id.startswith(NODE)

    def is_name(e):
        return isinstance(e, SV.Variable) and e.id.startswith(NAME)

    def name_of(e):
        return e.id[len(NAME):-1]

    for a, b in eqs:
        for e in (a, b):
            for v in e:
                if isinstance(v, SV.Variable) and not (is_node(v) or is_name(v)):
                    problems.append(f"unknown kind of variable {v.id!r}")

    # 1. constants of node variables
    for a, b in eqs:
        for x, y in ((a, b), (b, a)):
            if is_node(x) and isinstance(y, SV.Constant):
                if x.id in assigned and assigned[x.id] != Poly.const(y.value):
                    problems.append(f"two constants for {x.name}")
                assigned.setdefault(x.id, Poly.const(y.value))
    # 1b. a name variable equated with a node variable that is a constant is that constant
    for a, b in eqs:
        for x, y in ((a, b), (b, a)):
            if is_node(x) and is_name(y) and x.id in assigned:
                name_const.setdefault(name_of(y), assigned[x.id])

    def val(e):
        if isinstance(e, SV.Constant):
            return Poly.const(e.value)
        if isinstance(e, SV.Variable):
            if is_name(e):
                return name_const.get(name_of(e), Poly.var(name_of(e)))
            return assigned.get(e.id)
        if isinstance(e, (SV.Product, SV.Sum)):
            vs = [val(c) for c in e.children]
            if any(v is None for v in vs):
                return None
            r = Poly.const(1) if isinstance(e, SV.Product) else {}
            for v in vs:
                r = Poly.mul(r, v) if isinstance(e, SV.Product) else Poly.add(r, v)
            return r
        problems.append(f"unknown kind of term {type(e).__name__}")
        return None

    # 2. elimination of the node variables, by priority: name variable, Product/Sum, equal node variable
    def sweep(pred):
        progress = False
        for a, b in eqs:
            for x, y in ((a, b), (b, a)):
                if is_node(x) and x.id not in assigned and pred(y):
                    v = val(y)
                    if v is not None:
                        assigned[x.id] = v
                        progress = True
        return progress

    while True:
        if sweep(is_name):
            continue
        if sweep(lambda y: isinstance(y, (SV.Product, SV.Sum))):
            continue
        if sweep(is_node):
            continue
        break

    # 3. what is left
    pairs = []
    for a, b in eqs:
        va, vb = val(a), val(b)
        if va is None or vb is None:
            problems.append(f"undetermined: {a} = {b}")
            continue
        pairs.append((va, vb))
    return canon_pairs(pairs), sorted(set(problems))


def canon_model(ans):
    def poly(p):
        r = {}
        for m in p:
            r = Poly.add(r, {tuple(sorted(m["v"])): int(m["c"])})
        return r
    return canon_pairs([(poly(l), poly(r)) for l, r in ans["eqns"]])


CONTRA = canon_pairs([(Poly.const(1), {})])[0]


def real_bounds(exprs, S):
    """-> (sorted set of (name, min_value) of the unknown axes, list of valued axes with value < min_value)"""
    unknown, bad = set(), []
    for root in exprs:
        if root is None:
            continue
        for e in root.nodes():
            if isinstance(e, S.Axis):
                if e.value is None:
                    unknown.add((e.name, int(e.min_value)))
                elif int(e.value) < int(e.min_value):
                    bad.append((e.name, int(e.value), int(e.min_value)))
    return sorted(unknown), bad


class SysWrap:
    """records, for every call of the real `stage3.solve`, the stage-2 expressions and the equations of its first call of
    `util.solver.solve`"""

    def __init__(self):
        import sys
        import einx._src.namedtensor.stage2 as S
        import einx._src.namedtensor.stage3 as S3
        self.S, self.S3 = S, S3
        self.SV = sys.modules["einx._src.util.solver"]
        self.solve3, self.solve = S3.solve, self.SV.solve
        self.seen = {}
        self.cur = None

    def __enter__(self):
        from props import c02_cse

        def solve3(equations, *a, **k):
            equations = list(equations)
            exprs = [eq.expr1 for eq in equations] + [eq.expr2 for eq in equations]
            rec = None
            if all(e is None or isinstance(e, self.S.Expression) for e in exprs):
                rec = {"roots": c02_cse.forest_json(exprs, self.S, {}), "eqs": None, "assert": False,
                       "bounds": real_bounds(exprs, self.S)}
            self.cur = rec
            try:
                return self.solve3(equations, *a, **k)
            except AssertionError:
                if rec is not None and rec["eqs"] is None:
                    rec["assert"] = True
                raise
            finally:
                self.cur = None
                if rec is not None and (rec["eqs"] is not None or rec["assert"]):
                    self.seen.setdefault(json.dumps(rec["roots"], sort_keys=True), rec)

        def solve(equations, *a, **k):
            equations = list(equations)
            if self.cur is not None and self.cur["eqs"] is None:
                self.cur["eqs"] = canon_real(equations, self.SV)
            return self.solve(equations, *a, **k)
        self.S3.solve = solve3
        self.SV.solve = solve
        return self

    def __exit__(self, *a):
        self.S3.solve = self.solve3
        self.SV.solve = self.solve


def run_forest_sys(ctx, sw):
    """(E): `forestSys` of the model vs the equations of the real stage 3 on every captured call."""
    from props import c02_cse
    items = list(sw.seen.values())
    ctx.count("forest_sys:captured-stage3-calls", len(items))
    if not items:
        ctx.tie_broken("correspondence:forest_sys", "no call of stage3.solve / util.solver.solve was captured (the wrappers were never reached)")
        return
    if not ctx.driver_ok:
        return
    answers = ctx.driver().ask_many([{"kind": "forest_sys", "roots": rec["roots"]} for rec in items])
    n_eq = 0
    for rec, a in zip(items, answers):
        what = c02_cse.render_forest(rec["roots"])
        model = canon_model(a)
        ctx.case("forest_sys:" + json.dumps(rec["roots"], sort_keys=True), nontrivial=len(model) > 0)
        if rec["assert"]:
            ctx.count("forest_sys:real-ndim-assertion")
            if CONTRA not in model:
                ctx.tie_broken("correspondence:forest_sys", f"stage 3 of {what!r}: the real code fails `assert root1.ndim == root2.ndim`, the model's system has no contradictory equation")
            continue
        real, problems = rec["eqs"]
        for p in problems:
            ctx.tie_broken("correspondence:forest_sys", f"stage 3 of {what!r}: canonicalisation of the real equations: {p}")
        n_eq += len(real)
        ctx.count("forest_sys:equations=" + (str(len(real)) if len(real) < 4 else "4+"))
        if real != model:
            only_real = [e for e in real if e not in model][:3]
            only_model = [e for e in model if e not in real][:3]
            ctx.tie_broken("correspondence:forest_sys", f"stage 3 of {what!r}: equations only in the real system {only_real}, only in forestSys {only_model}")
        bounds, bad = rec["bounds"]
        mvars = sorted({(n, int(m)) for n, m in a["vars"]})
        if mvars != bounds:
            ctx.tie_broken("correspondence:forest_sys", f"stage 3 of {what!r}: bounds of the real axes {bounds}, declared by forestSys {mvars}")
        if bad:
            ctx.tie_broken("correspondence:forest_sys", f"stage 3 of {what!r}: an axis with a value below its min_value {bad} (a test forestSys does not state)")
    ctx.extra["forest_sys_equations_compared"] = n_eq
    for rec in items[:1]:
        if not rec["assert"]:
            ctx.sample({"stage3_of": c02_cse.render_forest(rec["roots"]), "canonical_equations": rec["eqs"][0][:4]})
