"""Independent search oracle for C02 (no Lean): brute-force enumeration of `Sols`.

Input is the same front-trusted material the Lean model gets: einx's own stage-1 trees (as JSON),
the tensor shapes (None = unknown) and the keyword constraints.  `Sols` = all (repetition counts,
positive axis lengths) satisfying: every root dimension of a tensor of known shape equals the
product / sum its expression denotes, equal names have equal lengths (and live under the same
number of ellipses with the same counts), keyword sizes are honoured.

The enumeration is complete for inputs whose tensor ranks are <= `count_cap` and whose dimensions are
< 2**count_cap (see `enumerate_counts`); axes that no equation bounds are reported as FREE.
All arithmetic is exact Python integer arithmetic.
"""
import itertools
import math

FREE = "FREE"
NODE_BUDGET = 4000      # search nodes per count assignment; beyond it the oracle abstains (Incomplete)


class Incomplete(Exception):
    pass


def nodes(t):
    yield t
    k = t["t"]
    if k in ("list", "concat"):
        for c in t["c"]:
            yield from nodes(c)
    elif k in ("flat", "br", "ell"):
        yield from nodes(t["e"])


def occurrences(t, stack, under_flat, out, ells):
    k = t["t"]
    if k == "axis":
        out.append((t["n"], tuple(stack)))
    elif k == "num":
        pass
    elif k == "list" or k == "concat":
        for c in t["c"]:
            occurrences(c, stack, under_flat or k == "concat", out, ells)
    elif k == "flat":
        occurrences(t["e"], stack, True, out, ells)
    elif k == "br":
        occurrences(t["e"], stack, under_flat, out, ells)
    elif k == "ell":
        ells.append((t["id"], under_flat, len(stack)))
        occurrences(t["e"], stack + [t["id"]], under_flat, out, ells)
    else:
        raise ValueError(k)


def width(t, r):
    k = t["t"]
    if k in ("axis", "num", "flat", "concat"):
        return 1
    if k == "list":
        return sum(width(c, r) for c in t["c"])
    if k == "br":
        return width(t["e"], r)
    if k == "ell":
        return r[t["id"]] * width(t["e"], r)
    raise ValueError(k)


def expand(t, r, idx):
    """-> list of value expressions ('v', name) | ('c', n) | ('p', [..]) | ('s', [..])"""
    k = t["t"]
    if k == "axis":
        return [("v", t["n"] + "".join(f".{i}" for i in idx))]
    if k == "num":
        return [("c", t["v"])]
    if k == "list":
        return [x for c in t["c"] for x in expand(c, r, idx)]
    if k == "br":
        return expand(t["e"], r, idx)
    if k == "flat":
        return [("p", expand(t["e"], r, idx))]
    if k == "concat":
        return [("s", [x for c in t["c"] for x in expand(c, r, idx)])]
    if k == "ell":
        return [x for i in range(r[t["id"]]) for x in expand(t["e"], r, idx + [i])]
    raise ValueError(k)


def expr_vars(e, out):
    if e[0] == "v":
        out.append(e[1])
    elif e[0] in ("p", "s"):
        for c in e[1]:
            expr_vars(c, out)


def ev(e, asg):
    t = e[0]
    if t == "c":
        return e[1]
    if t == "v":
        return asg.get(e[1])
    vals = [ev(c, asg) for c in e[1]]
    if any(v is None for v in vals):
        return None
    return math.prod(vals) if t == "p" else sum(vals)


def push(e, n, asg):
    """Enforce e == n.  False = contradiction, True = something new was assigned, None = nothing."""
    t = e[0]
    if t == "c":
        return None if e[1] == n else False
    if t == "v":
        if e[1] in asg:
            return None if asg[e[1]] == n else False
        if n < 1:
            return False
        asg[e[1]] = n
        return True
    vals = [ev(c, asg) for c in e[1]]
    unk = [c for c, v in zip(e[1], vals) if v is None]
    known = [v for v in vals if v is not None]
    if t == "p":
        K = math.prod(known)
        if K == 0 or n % K != 0:
            return False
        rest = n // K
        if not unk:
            return None if rest == 1 else False
        if len(unk) == 1:
            return push(unk[0], rest, asg)
        return None
    K = sum(known)
    rest = n - K
    if not unk:
        return None if rest == 0 else False
    if rest < len(unk):
        return False
    if len(unk) == 1:
        return push(unk[0], rest, asg)
    return None


def propagate(eqs, asg):
    changed = True
    while changed:
        changed = False
        for e, n in eqs:
            r = push(e, n, asg)
            if r is False:
                return False
            if r:
                changed = True
    return True


def solve_values(eqs, consts, allvars, cap):
    """All positive solutions of the value equations; variables that no equation bounds are FREE."""
    asg0 = {}
    for x, v in consts:
        if v < 1:
            return []
        if x in asg0 and asg0[x] != v:
            return []
        asg0[x] = v
    bound = {}
    for e, n in eqs:
        vs = []
        expr_vars(e, vs)
        for x in vs:
            bound[x] = min(bound.get(x, n), n)
    order = [x for x in dict.fromkeys(allvars) if x in bound]
    free = [x for x in dict.fromkeys(allvars) if x not in bound and x not in asg0]
    sols = []
    budget = [NODE_BUDGET]

    def rec(asg):
        budget[0] -= 1
        if budget[0] < 0:
            raise Incomplete("search budget exhausted")
        if not propagate(eqs, asg):
            return
        nxt = next((x for x in order if x not in asg), None)
        if nxt is None:
            for e, n in eqs:
                if ev(e, asg) != n:
                    return
            sols.append(dict(asg))
            if len(sols) > cap:
                raise Incomplete("too many solutions")
            return
        for v in range(1, bound[nxt] + 1):
            a2 = dict(asg)
            a2[nxt] = v
            rec(a2)

    rec(asg0)
    for s in sols:
        for x in free:
            s[x] = FREE
    return sols


def ravel(shape, idx):
    k = 0
    for d, i in zip(shape, idx):
        if i >= d:
            return None
        k = k * d + i
    return k


class Problem:
    def __init__(self, tensors, constraints, count_cap=5, sol_cap=3000):
        """tensors: [{'expr': tree, 'shape': [..]|None}], constraints: [{'name','shape','vals'}]"""
        self.tensors = tensors
        self.count_cap = count_cap
        self.sol_cap = sol_cap
        self.occ = []
        self.ells = []
        for t in tensors:
            occurrences(t["expr"], [], False, self.occ, self.ells)
        used = {n for n, _ in self.occ}
        self.constraints = [c for c in constraints if c["name"] in used]   # unused constraints are dropped

    def enumerate_counts(self):
        """All count assignments satisfying the rank-level constraints (None if inconsistent depths)."""
        ids = list(dict.fromkeys(i for i, _, _ in self.ells))
        parent = {i: i for i in ids}

        def find(i):
            while parent[i] != i:
                parent[i] = parent[parent[i]]
                i = parent[i]
            return i

        first = {}
        for n, st in self.occ:
            if n in first:
                if len(first[n]) != len(st):
                    return []          # a name lives at one ellipsis depth
                for a, b in zip(first[n], st):
                    parent[find(a)] = find(b)
            else:
                first[n] = st
        pinned = {}
        for c in self.constraints:
            st = first[c["name"]]
            m = len(c["shape"])
            if m > len(st):
                return []              # the rank of a constraint may not exceed the depth
            for i, s in zip(st[len(st) - m:], c["shape"]):
                k = find(i)
                if pinned.get(k, s) != s:
                    return []
                pinned[k] = s
        classes = list(dict.fromkeys(find(i) for i in ids))
        # bound: an ellipsis at root level (not under a flattened axis) of a tensor of known rank
        ub = {k: self.count_cap for k in classes}
        for t in self.tensors:
            if t["shape"] is not None:
                es = []
                occurrences(t["expr"], [], False, [], es)
                for i, under_flat, _ in es:
                    if not under_flat:
                        ub[find(i)] = min(ub[find(i)], len(t["shape"]))
        doms = [[pinned[k]] if k in pinned else list(range(0, ub[k] + 1)) for k in classes]
        out = []
        for combo in itertools.product(*doms):
            cv = dict(zip(classes, combo))
            r = {i: cv[find(i)] for i in ids}
            if all(t["shape"] is None or width(t["expr"], r) == len(t["shape"]) for t in self.tensors):
                out.append(r)
        return out

    def solutions(self):
        """-> list of {'counts': {id: n}, 'values': {axis: n|FREE}, 'shapes': [tuple|None-containing tuple]}"""
        res = []
        for r in self.enumerate_counts():
            items = [expand(t["expr"], r, []) for t in self.tensors]
            allvars = []
            for its in items:
                for e in its:
                    expr_vars(e, allvars)
            eqs = []
            for t, its in zip(self.tensors, items):
                if t["shape"] is not None:
                    for e, d in zip(its, t["shape"]):
                        eqs.append((e, d))
            consts = []
            ok = True
            for c in self.constraints:
                m = len(c["shape"])
                for x in dict.fromkeys(allvars):
                    parts = x.split(".")
                    # expanded axis of this name?  (names never contain '.', except the anonymous one which starts with it)
                    base, idx = split_axis(x)
                    if base != c["name"]:
                        continue
                    k = ravel(c["shape"], idx[len(idx) - m:]) if m <= len(idx) else None
                    if k is None:
                        ok = False
                    else:
                        consts.append((x, c["vals"][k]))
            if not ok:
                continue
            for s in solve_values(eqs, consts, allvars, self.sol_cap):
                shapes = []
                for its in items:
                    sh = []
                    for e in its:
                        vs = []
                        expr_vars(e, vs)
                        sh.append(FREE if any(s.get(v) == FREE for v in vs) else ev(e, s))
                    shapes.append(tuple(sh))
                res.append({"counts": dict(r), "values": s, "shapes": shapes})
                if len(res) > self.sol_cap:
                    raise Incomplete("too many solutions")
        return res


def split_axis(x):
    """'a.0.1' -> ('a', [0, 1]); '.anonymous_ellipsis_axis.0' -> ('.anonymous_ellipsis_axis', [0])"""
    parts = x.split(".")
    idx = []
    while len(parts) > 1 and parts[-1].isdigit():
        idx.append(int(parts.pop()))
    return ".".join(parts), idx[::-1]


def unit_solve(tensors, constraints, counts):
    """Exact unit propagation for the big-number stream (no enumeration): -> (ok, values, shapes)."""
    items = [expand(t["expr"], counts, []) for t in tensors]
    eqs = []
    for t, its in zip(tensors, items):
        if t["shape"] is not None:
            for e, d in zip(its, t["shape"]):
                eqs.append((e, d))
    asg = {}
    for c in constraints:
        for its in items:
            vs = []
            for e in its:
                expr_vars(e, vs)
            for x in vs:
                base, idx = split_axis(x)
                if base == c["name"]:
                    m = len(c["shape"])
                    asg[x] = c["vals"][ravel(c["shape"], idx[len(idx) - m:])]
    ok = propagate(eqs, asg)
    shapes = [tuple(ev(e, asg) for e in its) for its in items]
    return ok, asg, shapes
