"""C03, stream R — defect-by-construction inputs for every rejection theorem of Props/C03Reject.lean and Props/C03Elab.lean.

For every theorem "any input with defect D is rejected with <class>" this stream generates descriptions that have D *by
construction* (a valid call of the family, one edit), and checks, per case:

  spec     the Lean predicate that is the theorem's hypothesis (driver kinds `reject_spec` / `elab_rules`: `alphabetChar`,
           `balanced`, `Einx.Elab.defects`, `flagsSafe`) holds on this input — so the theorem speaks about this very input;
           a difference between the generator's claim and the Lean predicate is a broken tie (`correspondence:spec-predicate`);
  instance the model's outcome is what the theorem says (`theorem-instance:*`; false only if the driver does not run the
           model the theorem is about);
  T-beh    real `stage1.parse_op` / real `_parse_op` (called as the family's wrapper calls it) raises the same class at the
           same raise site as the model (`correspondence:rule-site`);
  oracle   (independent of the Lean model) the public entry point, called with tensors of the rank the expression suggests,
           raises `einx.errors.SyntaxError` resp. `einx.errors.SemanticError`, and no numpy function has been applied to an
           argument.  Anything else is a VIOLATION with the concrete call as signature.
"""
import json
import re

from lib import core
from props import c07, c12

NAMES = list("abcdefghkmn")
# candidates; the harness keeps those its mirror of `alphabetChar` rejects, the driver confirms with the Lean predicate
BAD_CHARS = "é²|!{}:*/\\'\"~#%^&=<?;@$`中α①٣Ａ\t\n"
LIT_CHARS = "->,+ ()[]."


def py_alphabet(c):
    return (c.isascii() and (c.isalnum() or c == "_")) or c in LIT_CHARS


def py_scan(s):
    """Mirror of `delimRun s []`: None (closer that does not match) or the string of closers still expected."""
    st = []
    for c in s:
        if c == "(":
            st.insert(0, ")")
        elif c == "[":
            st.insert(0, "]")
        elif c in ")]":
            if not st or st[0] != c:
                return None
            st.pop(0)
    return "".join(st)


def py_depth0(s, ch):
    """Mirror of `atDepth0 ch s []`: `ch` occurs where the bracket scan has an empty stack."""
    st = []
    for c in s:
        if not st and c == ch:
            return True
        if c == "(":
            st.insert(0, ")")
        elif c == "[":
            st.insert(0, "]")
        elif c in ")]":
            if not st or st[0] != c:
                return False
            st.pop(0)
    return False


def py_count_depth0(s, lit):
    """Mirror of `countDepth0 lit s []` (Notation/Grammar.lean): occurrences of `lit` where the bracket scan has an empty stack."""
    st, n = [], 0
    for i, c in enumerate(s):
        if not st and s.startswith(lit, i):
            n += 1
        if c == "(":
            st.insert(0, ")")
        elif c == "[":
            st.insert(0, "]")
        elif c in ")]":
            if not st or st[0] != c:
                return n
            st.pop(0)
    return n


# ------------------------------------------------------------------ valid base calls, structured

def _names(rng, k):
    return rng.sample(NAMES, k)


def _maybe_group(rng, dims):
    """Randomly put two adjacent plain axes into parentheses / add a unit axis (keeps the call valid at `_parse_op` level)."""
    dims = list(dims)
    if len(dims) >= 2 and rng.random() < 0.3:
        i = rng.randrange(len(dims) - 1)
        if all(re.fullmatch(r"[a-z]", d) for d in dims[i:i + 2]):
            dims[i:i + 2] = [f"({dims[i]} {dims[i + 1]})"]
    if rng.random() < 0.15:
        dims.insert(rng.randrange(len(dims) + 1), "1")
    return dims


def base_call(rng, fam):
    """-> {"fam", "op", "ins": [[dim]], "outs": [[dim]] | None, "fresh": [unused names]}; every dim is a plain axis name, `[x]`, `(x y)` or `1`."""
    a, b, c, d, p, q, z, y = _names(rng, 8)
    fresh = [z, y, q]
    implicit = rng.random() < 0.4
    if fam == "id":
        dims = [a, b, c][: rng.randint(1, 3)]
        outs = list(dims)
        rng.shuffle(outs)
        return {"fam": fam, "op": "id", "ins": [_maybe_group(rng, dims)], "outs": None if implicit else [outs], "fresh": fresh}
    if fam == "elementwise":
        op = rng.choice(c07.FAMILY_OPS["elementwise"])
        ins = [[a, b], [a]] if rng.random() < 0.6 else [[a, b, c], [b], [a, c]]
        return {"fam": fam, "op": op, "ins": ins, "outs": None if implicit else [list(ins[0])], "fresh": fresh}
    if fam == "reduce":
        op = rng.choice(["sum", "max", "mean", "prod", "any"])
        return {"fam": fam, "op": op, "ins": [[a, f"[{b}]", c][: rng.randint(2, 3)]], "outs": None if implicit else [[a]], "fresh": fresh}
    if fam == "dot":
        return {"fam": fam, "op": "dot", "ins": [[a, f"[{b}]"], [f"[{b}]", c]], "outs": [[a, c]], "fresh": fresh}
    if fam == "get_at":
        return {"fam": fam, "op": "get_at", "ins": [[a, f"[{b}]", c], [a, p, "[1]"]], "outs": [[a, p, c]], "fresh": fresh}
    if fam == "update_at":
        op = rng.choice(c07.FAMILY_OPS["update_at"])
        return {"fam": fam, "op": op, "ins": [[a, f"[{b}]", c], [a, p, "[1]"], [a, p, c]], "outs": None if implicit else [[a, f"[{b}]", c]], "fresh": fresh}
    if fam == "argfind":
        op = rng.choice(c07.FAMILY_OPS["argfind"])
        return {"fam": fam, "op": op, "ins": [[a, f"[{b}]"]], "outs": None if implicit else [[a]], "fresh": fresh}
    if fam == "preserve_shape":
        op = rng.choice(["flip", "sort", "softmax"])
        return {"fam": fam, "op": op, "ins": [[a, f"[{b}]"]], "outs": None if implicit else [[a, f"[{b}]"]], "fresh": fresh}
    raise core.MachineryError(f"unknown family {fam}")


def render(call):
    s = ", ".join(" ".join(e) for e in call["ins"])
    if call["outs"] is not None:
        s += " -> " + ", ".join(" ".join(e) for e in call["outs"])
    return s


def _plain_slots(call, side):
    """(expr index, dim index) of dims that are a plain axis name, on `ins`/`outs`."""
    exprs = call[side] or []
    return [(i, k) for i, e in enumerate(exprs) for k, dm in enumerate(e) if re.fullmatch(r"[a-z]", dm)]


def _copy(call):
    return {**call, "ins": [list(e) for e in call["ins"]], "outs": None if call["outs"] is None else [list(e) for e in call["outs"]]}


def _bracketed_names(call):
    return set(re.findall(r"\[([a-z])\]", render(call)))


# ------------------------------------------------------------------ one edit per rule

def case_for_rule(rng, rule):
    """-> (family, op, description) having the defect of `rule` by construction, or None if the draw does not allow it."""
    F = c07.FAMILIES
    if rule == "concat_not_allowed_rule":
        fam = rng.choice([f for f in F if f != "id"])
        call = _copy(base_call(rng, fam))
        side = rng.choice(["ins", "outs"]) if call["outs"] else "ins"
        slots = [(i, k) for (i, k) in _plain_slots(call, side) if call[side][i][k] not in _bracketed_names(call)]
        if not slots:
            return None
        i, k = rng.choice(slots)
        call[side][i][k] = f"({call[side][i][k]} + {call['fresh'][0]})"
        return fam, call["op"], render(call)
    if rule == "concat_brackets_rule":
        fam = "id" if rng.random() < 0.6 else rng.choice(F)      # only `id` allows concatenation at all
        call = _copy(base_call(rng, fam))
        side = rng.choice(["ins", "outs"]) if call["outs"] else "ins"
        slots = _plain_slots(call, side)
        if not slots:
            return None
        i, k = rng.choice(slots)
        z, y = call["fresh"][:2]
        # `+` only takes axes and parenthesised expressions as operands (a bare `[z]` operand is a SyntaxError of the parser), so the
        # bracket is put around the concatenation, or inside a parenthesised operand
        call[side][i][k] = rng.choice([f"[({z} + {y})]", f"(([{z}]) + {y})", f"[{z} ({y} + 1)]", f"(({z} [{y}]) + 1)", f"({z} + ([{y}] 1))"])
        return fam, call["op"], render(call)
    if rule == "input_count_rule":
        fam = rng.choice(["reduce", "argfind", "preserve_shape", "update_at"])
        call = _copy(base_call(rng, fam))
        if fam == "update_at":
            call["ins"] = call["ins"][:1]
            call["outs"] = None if rng.random() < 0.5 else [list(call["ins"][0])]
        else:
            call["ins"] = call["ins"] + [list(call["ins"][0])] * rng.randint(1, 2)
        return fam, call["op"], render(call)
    if rule == "output_count_rule":
        fam = rng.choice([f for f in F if f != "id"])
        call = _copy(base_call(rng, fam))
        if call["outs"] is None:
            call["outs"] = [[d for d in call["ins"][0] if re.fullmatch(r"[a-z]", d)][:1]]
        call["outs"] = call["outs"] + [list(call["outs"][0])] * rng.randint(1, 2)
        return fam, call["op"], render(call)
    if rule == "elementwise_no_bracket_rule":
        fam = rng.choice(["elementwise", "id"])
        call = _copy(base_call(rng, fam))
        z = call["fresh"][0]
        i = rng.randrange(len(call["ins"]))
        if rng.random() < 0.5:
            call["ins"][i].insert(rng.randrange(len(call["ins"][i]) + 1), f"[{z}]")      # a new bracketed axis
        else:
            # bracket an existing axis everywhere it occurs (the parser demands consistent bracket usage)
            slots = _plain_slots(call, "ins")
            if not slots:
                return None
            nm = call["ins"][slots[0][0]][slots[0][1]]
            for side in ("ins", "outs"):
                for e in call[side] or []:
                    for k, dm in enumerate(e):
                        if dm == nm:
                            e[k] = f"[{nm}]"
        return fam, call["op"], render(call)
    if rule == "scalar_output_no_bracket_rule":
        fam = rng.choice(["elementwise", "reduce", "dot", "get_at", "id"])
        call = _copy(base_call(rng, fam))
        z = call["fresh"][0]
        if call["outs"] is None:
            call["outs"] = [[d for d in call["ins"][0] if re.fullmatch(r"[a-z]", d)]]
        call["outs"][0].insert(rng.randrange(len(call["outs"][0]) + 1), f"[{z}]")
        return fam, call["op"], render(call)
    if rule == "update_output_brackets_rule":
        call = _copy(base_call(rng, "update_at"))
        z = call["fresh"][0]
        if rng.random() < 0.5:
            # first input uses brackets, the written output does not
            call["outs"] = [[z if d.startswith("[") else d for d in call["ins"][0]]]
        else:
            # first input without brackets, the written output with
            call["outs"] = [[f"[{z}]" if d.startswith("[") else d for d in call["ins"][0]]]
            call["ins"][0] = [call["fresh"][1] if d.startswith("[") else d for d in call["ins"][0]]
        return "update_at", call["op"], render(call)
    if rule == "auto_mark_duplicate_rule":
        fam = rng.choice(["reduce", "dot"])
        a, b, c = _names(rng, 3)
        if fam == "reduce":
            ins = [rng.choice([[a, a, b], [a, b, a], [f"({a} {a})", b], [a, b, b]])]
            outs = rng.choice([[[b]], [[a]], [[]]])
            op = rng.choice(["sum", "max", "mean"])
        else:
            ins = [[a, a, b], [b, c]] if rng.random() < 0.5 else [[a, b], [b, c, c]]
            outs = [[a, c]]
            op = "dot"
        return fam, op, render({"ins": ins, "outs": outs})
    if rule == "output_duplicate_rule":
        fam = rng.choice(F)
        call = _copy(base_call(rng, fam))
        if call["outs"] is None:
            call["outs"] = [[d for d in call["ins"][0] if re.fullmatch(r"[a-z]", d)]]
        plain = [d for d in call["outs"][0] if re.fullmatch(r"[a-z]", d)]
        nm = rng.choice(plain) if plain else call["fresh"][0]
        if not plain:
            call["outs"][0].append(nm)
        call["outs"][0].insert(rng.randrange(len(call["outs"][0]) + 1), rng.choice([nm, f"({nm} 1)"]))
        return fam, call["op"], render(call)
    if rule == "dot_bracket_rule":
        a, b, c = _names(rng, 3)
        ins = rng.choice([[[a, f"[{b} {b}]"], [f"[{b}]", c]], [[a, f"[{b}]", f"[{b}]"], [f"[{b}]", c]], [[a, f"[{b}]"], [f"[{b}]", c, f"[{b}]"]]])
        return "dot", "dot", render({"ins": ins, "outs": [[a, c]]})
    if rule == "implicit_output_unique_rule":
        a, b, c = _names(rng, 3)
        ins = rng.choice([[[a], [b]], [[a, b], [b, a]], [[a, b], [b, c]], [[a], [b], [c]], [[a, b], [c]], [[a, b], [b, a], [a]]])
        return "elementwise", rng.choice(["add", "multiply", "maximum"]), render({"ins": ins, "outs": None})
    if rule == "implicit_output_one_bracket_rule":
        a, b, c = _names(rng, 3)
        ins = rng.choice([[[a, b]], [[f"[{a}]", f"[{b}]"]], [[a, f"[{b}]", f"[{c}]"]], [[a]], [[f"([{a}])", f"[{b}]"]]])
        return "argfind", rng.choice(["argmax", "argmin"]), render({"ins": ins, "outs": None})
    raise core.MachineryError(f"no generator for rule {rule}")


ELAB_RULES = ["concat_not_allowed_rule", "concat_brackets_rule", "input_count_rule", "output_count_rule", "elementwise_no_bracket_rule",
              "scalar_output_no_bracket_rule", "update_output_brackets_rule", "auto_mark_duplicate_rule", "output_duplicate_rule",
              "dot_bracket_rule", "implicit_output_unique_rule", "implicit_output_one_bracket_rule"]
# `missing_output_rule` (implicit_output=None) has no family in the source: it is a theorem about `_parse_op` for that flag value only.


def parser_case(rng, rule):
    """-> description with the string-level defect of `rule` by construction."""
    fam = rng.choice(c07.FAMILIES)
    desc = render(base_call(rng, fam)) if rng.random() < 0.6 else c12.gen_description(rng)
    if rule == "parse_rejects_bad_char":
        bad = [c for c in BAD_CHARS if not py_alphabet(c)]
        k = rng.randint(0, len(desc))
        return desc[:k] + rng.choice(bad) + desc[k:]
    if rule == "parse_rejects_unbalanced":
        for _ in range(8):
            present = [i for i, ch in enumerate(desc) if ch in "()[]"]
            r = rng.random()
            if present and r < 0.4:
                i = rng.choice(present)
                cand = desc[:i] + desc[i + 1:]
            elif present and r < 0.6:
                i = rng.choice(present)
                cand = desc[:i] + {"(": "[", "[": "(", ")": "]", "]": ")"}[desc[i]] + desc[i + 1:]
            else:
                k = rng.randint(0, len(desc))
                cand = desc[:k] + rng.choice("()[]") + desc[k:]
            if py_scan(cand) != "":
                return cand
        return desc + " )"
    if rule == "parse_rejects_unwrapped_concat":
        # a `+` at delimiter depth 0: between two top-level dimensions of a structured call, or at a random depth-0 position
        if rng.random() < 0.7:
            call = _copy(base_call(rng, fam))
            side = rng.choice(["ins", "outs"]) if call["outs"] else "ins"
            i = rng.randrange(len(call[side]))
            z, y = call["fresh"][:2]
            if rng.random() < 0.5:
                # the whole expression is a concatenation of valid operands, only the parentheses are missing (l.216)
                call[side][i] = [rng.choice([f"{z} + {y}", f"{z} + ({y} 2)", f"1 + {z} + {y}"])]
            else:
                k = rng.randint(0, len(call[side][i]))
                call[side][i].insert(k, rng.choice(["+", "+ " + z, z + " +"]))
            cand = render(call)
        else:
            slots = [k for k in range(len(desc) + 1) if py_scan(desc[:k]) == ""]
            k = rng.choice(slots)
            cand = desc[:k] + rng.choice(["+", " + ", "+ "]) + desc[k:]
        return cand if py_depth0(cand, "+") else "a + b"
    raise core.MachineryError(f"no generator for rule {rule}")


PARSER_RULES = ["parse_rejects_bad_char", "parse_rejects_unbalanced", "parse_rejects_unwrapped_concat"]

# Props/C03Grammar.lean (driver kind `grammar_spec`)
GRAMMAR_RULES = ["parse_rejects_multiple_arrows", "parse_args_rejects_arrow"]
# error kinds of the stages up to `parse` (lexer, delimiter stack, `parse`): exactly these mean "not WF0"
STAGE0_KINDS = ("invalidToken", "closingNotOpened", "openingNotClosed", "concatOperand", "concatNotWrapped", "invalidExpr", "invalidExpr+ws")


def grammar_case(rng, rule):
    """-> description with the string-level defect of a rule of Props/C03Grammar.lean by construction."""
    fam = rng.choice(c07.FAMILIES)
    if rule == "parse_rejects_multiple_arrows":
        # two `->` outside all delimiters: a valid call with a written output plus one more arrow at a depth-0 position
        call = _copy(base_call(rng, fam))
        if call["outs"] is None:
            call["outs"] = [[d for d in call["ins"][0] if re.fullmatch(r"[a-z]", d)]]
        desc = render(call) if rng.random() < 0.7 else c12.gen_description(rng) + " -> " + call["fresh"][0]
        slots = [k for k in range(len(desc) + 1) if py_scan(desc[:k]) == "" and not (k > 0 and desc[k - 1] == "-" and desc[k:k + 1] == ">")]
        k = rng.choice(slots)
        cand = desc[:k] + rng.choice(["->", " -> ", " -> " + call["fresh"][1] + " ", "-> 1"]) + desc[k:]
        return cand if py_count_depth0(cand, "->") >= 2 else "a -> b -> c"
    if rule == "parse_args_rejects_arrow":
        # a `->` outside all delimiters in a description given to `parse_args`: mostly an otherwise valid operation description
        call = _copy(base_call(rng, fam))
        if call["outs"] is None:
            call["outs"] = [[d for d in call["ins"][0] if re.fullmatch(r"[a-z]", d)]]
        r = rng.random()
        if r < 0.6:
            cand = render(call)
        elif r < 0.8:
            cand = rng.choice(["->", "a ->", "-> a", "a b -> (a b)", "a [b] -> a", "a... -> a..."])
        else:
            d = c12.gen_description(rng)
            slots = [k for k in range(len(d) + 1) if py_scan(d[:k]) == ""]
            k = rng.choice(slots)
            cand = d[:k] + " -> " + d[k:]
        return cand if py_count_depth0(cand, "->") >= 1 else "a -> b"
    raise core.MachineryError(f"no generator for rule {rule}")


def run_grammar(ctx, c03, n_per_rule, found, drv):
    """Stream R for Props/C03Grammar.lean: the two string-level rules, and the layer-0 grammar (`parse_stage_ok_iff`): on mixed
    valid / corrupted descriptions the model's `parseStage` succeeds exactly when the real parser gets past `parse` (returns a tree
    or raises one of the errors of the later passes)."""
    rng = ctx.rng
    disagreements = 0
    for rule in GRAMMAR_RULES:
        texts = []
        for _ in range(n_per_rule):
            t = grammar_case(rng, rule)
            if t not in texts:
                texts.append(t)
        answers = drv.ask_many([{"kind": "grammar_spec", "text": t} for t in texts]) if drv else [None] * len(texts)
        entry = "op" if rule == "parse_rejects_multiple_arrows" else "args"
        for t, m in zip(texts, answers):
            ctx.count(f"R:{rule}")
            ctx.case(("R", rule, t), nontrivial=True)
            real = c12.real_parse(t, entry)
            mine = py_count_depth0(t, "->")
            if m is not None:
                if m["arrows0"] != mine:
                    ctx.tie_broken("correspondence:spec-predicate", f"countDepth0 '->' on {t!r}: Lean {m['arrows0']}, harness {mine}")
                if rule == "parse_rejects_multiple_arrows":
                    hyp = m["arrows0"] >= 2
                    concl = m["parse"].get("error") == "syntax"
                    model = m["parse"]
                else:
                    hyp = m["arrows0"] >= 1
                    # never a tree; exactly l.412 whenever parse_op accepts
                    concl = m["args"].get("error") == "syntax" and ("ok" not in m["parse"] or m["args"].get("kind") == "argsHasArrow") \
                        and m["arg"].get("error") == "syntax"
                    model = m["args"]
                if not hyp:
                    ctx.tie_broken("correspondence:spec-predicate", f"{rule}: the Lean predicate does not see the defect built into {t!r}")
                elif not concl:
                    ctx.tie_broken(f"theorem-instance:{rule}", f"model outcome {json.dumps(model)[:160]} on {t!r} contradicts the theorem")
                d = c12.compare(real, model)
                if d is not None:
                    disagreements += 1
                    if disagreements <= 5:
                        ctx.tie_broken("correspondence:rule-site", f"{rule} {t!r}: {d}")
            ctx.count(f"R-real:{rule}:{real.get('kind', real.get('error', 'ok'))}")
            ops = ["id", "sum", "add", "dot", "get_at", "argmax", "sort", "set_at"] if rule == "parse_rejects_multiple_arrows" else ["solve_axes"]
            _oracle(ctx, c03, rule, rng.choice(ops), t, "SyntaxError", found)

    # ---- layer 0 of the grammar: `parseStage` ok  <=>  the real parser gets past `parse`
    texts = []
    for _ in range(4 * n_per_rule):
        fam = rng.choice(c07.FAMILIES)
        d = render(base_call(rng, fam)) if rng.random() < 0.4 else c12.gen_description(rng)
        r = rng.random()
        if r < 0.5 and d:
            k = rng.randint(0, len(d))
            d = d[:k] + rng.choice(["+", "...", "(", ")", "[", "]", " ", ",", "->", "a", "1", "(a + b)", "[]", "()"]) + d[k:]
        elif r < 0.65 and d:
            k = rng.randrange(len(d))
            d = d[:k] + d[k + 1:]
        if d not in texts:
            texts.append(d)
    answers = drv.ask_many([{"kind": "grammar_spec", "text": t} for t in texts]) if drv else []
    for t, m in zip(texts, answers):
        ctx.count("R:parse_stage_ok_iff")
        real = c12.real_parse(t, "op")
        past = "ok" in real or (real.get("error") == "syntax" and real.get("kind") not in STAGE0_KINDS)
        ctx.case(("R", "parse_stage_ok_iff", t), nontrivial=True)
        ctx.count(f"R-stage0:{'wf0' if m['stage_ok'] else 'not-wf0'}")
        if real.get("error") == "other":
            continue            # internal outcome of the real parser: reported by the C12 correspondence / search
        if m["stage_ok"] != past:
            disagreements += 1
            if disagreements <= 5:
                ctx.tie_broken("correspondence:grammar-stage0", f"{t!r}: model parseStage {'succeeds' if m['stage_ok'] else 'fails'}, real parse_op: "
                               f"{real.get('kind', 'tree')}")
        if ("ok" in m["parse"]) and not m["stage_ok"]:
            ctx.tie_broken("theorem-instance:parse_ok_wf", f"model accepts {t!r} but parseStage fails")
    return disagreements

UNBALANCED_KINDS = ("invalidToken", "closingNotOpened", "openingNotClosed")


# ------------------------------------------------------------------ the checks

_FIXED = {}


def _fixed_tensor_count(op):
    """Number of tensor parameters of the public function if it has no `*tensors` (then a wrong count is a TypeError of the call
    protocol, raised before the description is looked at), else None."""
    if op not in _FIXED:
        import inspect
        import einx
        ps = list(inspect.signature(getattr(einx, op)).parameters.values())
        if any(p.kind == inspect.Parameter.VAR_POSITIONAL for p in ps):
            _FIXED[op] = None
        else:
            _FIXED[op] = sum(1 for p in ps[1:] if p.kind in (inspect.Parameter.POSITIONAL_ONLY, inspect.Parameter.POSITIONAL_OR_KEYWORD))
    return _FIXED[op]


def _entry_example(c03, op, desc):
    exs = list(c03.examples_for_string(desc, [op], 1))
    ex = exs[0]
    k = _fixed_tensor_count(op)
    if k is not None:
        ex["shapes"] = (list(ex["shapes"]) + [(2,)] * k)[:k]
        ex["dtypes"] = (list(ex.get("dtypes") or []) + ["float64"] * k)[:k]
    if op in ("set_at", "add_at", "subtract_at") and len(ex["shapes"]) >= 2:
        ex["dtypes"] = ["float64"] + ["int64"] * (len(ex["shapes"]) - 2) + ["float64"]
    return ex


def _oracle(ctx, c03, rule, op, desc, want, found):
    """Public entry point: must raise `want` (an einx.errors class name) before any numpy call."""
    ex = _entry_example(c03, op, desc)
    r = c03.run_example(ex)
    ctx.evaluations += 1
    ok = r["outcome"] == "raise" and r["name"] == want and r.get("verdict") == "documented" and not r["log"]
    ctx.count(f"R-entry:{rule}:{'ok' if ok else 'BAD'}")
    if not ok:
        got = "returned a value" if r["outcome"] == "ok" else f"{r['name']} ({r.get('verdict')}) @ {c03.where_of(r)}" + (f", numpy calls {r['log'][:3]}" if r["log"] else "")
        key = (rule, got.split(" @ ")[0])
        if key not in found:
            found[key] = (ex, got)


def run(ctx, c03, n_per_rule):
    """Called from props/c03.py:run (quick: small n, intensive/thorough: larger)."""
    rng = ctx.rng
    found = {}
    drv = ctx.driver() if ctx.driver_ok else None
    s1 = c12._stage1()
    disagreements = 0

    # ---- parser rules
    for rule in PARSER_RULES:
        texts = []
        for _ in range(n_per_rule):
            t = parser_case(rng, rule)
            if t not in texts:
                texts.append(t)
        answers = drv.ask_many([{"kind": "reject_spec", "text": t} for t in texts]) if drv else [None] * len(texts)
        for t, m in zip(texts, answers):
            ctx.count(f"R:{rule}")
            ctx.case(("R", rule, t), nontrivial=True)
            real = c12.real_parse(t, "op")
            if m is not None:
                # spec: the Lean predicate sees the defect the generator built in
                if rule == "parse_rejects_bad_char":
                    mine = [i for i, ch in enumerate(t) if not py_alphabet(ch)]
                    if m["bad"] != mine:
                        ctx.tie_broken("correspondence:spec-predicate", f"alphabetChar on {t!r}: Lean flags {m['bad']}, harness {mine}")
                    hyp = bool(m["bad"])
                    concl = m["parse"].get("error") == "syntax" and m["parse"].get("kind") == "invalidToken"
                elif rule == "parse_rejects_unwrapped_concat":
                    if m["plus0"] != py_depth0(t, "+"):
                        ctx.tie_broken("correspondence:spec-predicate", f"atDepth0 '+' on {t!r}: Lean {m['plus0']}, harness {py_depth0(t, '+')}")
                    hyp = m["plus0"]
                    concl = m["parse"].get("error") == "syntax"
                else:
                    if m["scan"] != py_scan(t) or m["balanced"] != (py_scan(t) == ""):
                        ctx.tie_broken("correspondence:spec-predicate", f"delimRun on {t!r}: Lean {m['scan']!r}/{m['balanced']}, harness {py_scan(t)!r}")
                    hyp = not m["balanced"]
                    concl = m["parse"].get("error") == "syntax" and m["parse"].get("kind") in UNBALANCED_KINDS
                    if concl and m["parse"]["kind"] != "invalidToken":
                        want_kind = "closingNotOpened" if m["scan"] is None else "openingNotClosed"
                        concl = m["parse"]["kind"] == want_kind          # parse_unbalanced_kind
                if not hyp:
                    ctx.tie_broken("correspondence:spec-predicate", f"{rule}: the Lean predicate does not see the defect built into {t!r}")
                elif not concl:
                    ctx.tie_broken(f"theorem-instance:{rule}", f"model outcome {json.dumps(m['parse'])[:160]} on {t!r} contradicts the theorem")
                d = c12.compare(real, m["parse"])
                if d is not None:
                    disagreements += 1
                    if disagreements <= 5:
                        ctx.tie_broken("correspondence:rule-site", f"{rule} {t!r}: {d}")
            ctx.count(f"R-real:{rule}:{real.get('kind', real.get('error', 'ok'))}")
            _oracle(ctx, c03, rule, rng.choice(["id", "sum", "add", "dot", "get_at", "argmax", "sort", "set_at", "solve_axes"]), t, "SyntaxError", found)

    # ---- `_parse_op` rules
    for rule in ELAB_RULES:
        cases = []
        tries = 0
        while len(cases) < n_per_rule and tries < 6 * n_per_rule:
            tries += 1
            c = case_for_rule(rng, rule)
            if c is not None and c not in cases:
                cases.append(c)
        answers = drv.ask_many([{"kind": "elab_rules", "family": f, "description": d} for f, _, d in cases]) if drv else [None] * len(cases)
        for (fam, op, desc), m in zip(cases, answers):
            ctx.count(f"R:{rule}")
            ctx.case(("R", rule, fam, desc), nontrivial=True)
            real = c07.real_parse_op(fam, desc)
            ctx.count(f"R-real:{rule}:{real.get('error', 'ok')}")
            if m is not None:
                if not m["parsed"]:
                    ctx.tie_broken("correspondence:spec-predicate", f"{rule}: the description built for it does not parse in the model: {fam} {desc!r}")
                elif rule not in m["defects"]:
                    ctx.tie_broken("correspondence:spec-predicate", f"{rule}: Einx.Elab.defects = {m['defects']} on {fam} {desc!r} (the defect was built in)")
                elif not m["flags_safe"]:
                    ctx.tie_broken("theorem-instance:extracted_flags_safe", f"flagsSafe is false for family {fam}")
                elif not m["semantic"]:
                    ctx.tie_broken("theorem-instance:defects_rejected", f"model (tree mode) on {fam} {desc!r}: {json.dumps(m['tree'])[:160]} is not a SemanticError site")
                d = c07.compare_outcomes(real, m["string"])
                if d is not None:
                    disagreements += 1
                    if disagreements <= 5:
                        ctx.tie_broken("correspondence:rule-site", f"{rule} {fam} {desc!r}: {d}")
                        ctx.sample({"DISAGREEMENT": True, "rule": rule, "family": fam, "description": desc, "detail": d}, cap=40)
            _oracle(ctx, c03, rule, op, desc, "SemanticError", found)
        if cases:
            ctx.sample({"rule": rule, "family": cases[0][0], "call": f"einx.{cases[0][1]}({cases[0][2]!r}, ...)", "real _parse_op": c07.real_parse_op(cases[0][0], cases[0][2])}, cap=40)

    disagreements += run_grammar(ctx, c03, n_per_rule, found, drv)

    ctx.extra["rule_stream_disagreements"] = disagreements
    for key in sorted(found):
        ex, got = found[key]
        rule = key[0]
        want = "SyntaxError" if rule in PARSER_RULES + GRAMMAR_RULES else "SemanticError"
        ctx.violation(f"rule {rule} not enforced: {got.split(' @ ')[0]} instead of {want} | {c03.fmt_example(ex)}",
                      {"kind": "rule-call", "rule": rule, "example": ex, "call": c03.fmt_example(ex), "observed": got,
                       "expected": f"einx.errors.{want} before any numpy call on the arguments (theorem {rule} of Props/C03{'Reject' if rule in PARSER_RULES else 'Grammar' if rule in GRAMMAR_RULES else 'Elab'}.lean on the model)"})


def replay(c03, r):
    ex = r["example"]
    ex["shapes"] = [s if s in ("scalar", None) else tuple(s) for s in ex["shapes"]]
    want = "SyntaxError" if r["rule"] in PARSER_RULES + GRAMMAR_RULES else "SemanticError"
    now = c03.run_example(ex)
    print("now:", {k: now.get(k) for k in ("outcome", "name", "msg", "verdict", "log")})
    still = not (now["outcome"] == "raise" and now["name"] == want and not now["log"])
    print("replay: the real code", "still violates the property" if still else "no longer fails", "on this input")
    return 1 if still else 0
