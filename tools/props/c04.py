"""C04 — generated source is a faithful, self-contained compilation of the traced graph.

Proof: Props/C04.lean (compile_correct_wf, compile_correct_extracted, fuse_produces_safe, compile_correct, emit_closed, visitOrder_nodup, emit_once, emit_order, fuse_sound, value_computed_once obligation).
Tie (T-src): tools/extract/compile.py reads the switches of `get_usages`, `CodeObject.define` and the `fuse`
loop from the source; the Lean model is parameterised by them.
Tie (T-str): the text returned by the real `compile(graph, return_code=True)` equals the text produced by the
Lean model (driver kind `compile`) from the serialised graph, for (i) graphs captured from the shared generator
stream on all numpy backends plus adapter/in-place calls, (ii) synthetic graphs built with the real tracer API over
all node kinds.  The driver also runs the proved checkers (closed traversal order, name-sharing interference, symbolic
execution of the emitted statements against node-by-node evaluation) on every compilation.
Search (independent of Lean, on the real code):
  (a) the emitted text is exec'd in a fresh namespace holding only the constants of its header comments and run on
      instrumented objects; results, effect log (calls, in-place calls, item updates, asserts, in order) and the number
      of evaluations of every pure operation are compared with a memoised node-by-node reference interpreter of the
      real graph (this file);
  (b) the text returned with graph=True is the text that was exec'd, and the object that einx calls is bound by it;
  (c) graphs that re-use names are covered by (a): a clobbered live value changes the result term.
Violations are shrunk by deleting recipe nodes and reported with the recipe (or the einx call) as signature.
"""
import builtins
import contextlib
import importlib
import json
import re
import sys
import types
import warnings

import numpy as np

from lib import core, gen, graphcap, oracle

EXTRACTORS = ["Compile"]
BACKENDS = [None, "numpy", "numpy.numpylike", "numpy.einsum"]
MOD = "c04mod"


# ------------------------------------------------------------------------------------------------ serialisation

def graph_doc(g):
    """graphcap JSON of a graph (or of the value InlineGraph collapsed it to) plus str(value) of every Constant."""
    import einx._src.tracer as tracer
    s = graphcap.GraphSerializer()
    top = s.graph(g) if isinstance(g, tracer.Graph) else {"inlined": s.value(g)}
    for a in s._keep:
        if isinstance(a, tracer.signature.python.Constant):
            s.apps[s.appid[id(a)]]["str"] = str(a.value)
    return {"top": top, "apps": s.apps, "tracers": s.tracers}


@contextlib.contextmanager
def hooked_compiler():
    """Records, from outside, the text the compiler hands to exec (directly or through builtins.compile), the namespace it
    is exec'd in (the constants) and the expression that is eval'ed to obtain the compiled object."""
    import einx._src.tracer.compiler.python as cp
    seen = {}

    class BuiltinsProxy:
        def __getattr__(self, name):
            return getattr(builtins, name)

        @staticmethod
        def compile(source, *a, **k):
            code = builtins.compile(source, *a, **k)
            if isinstance(source, str):
                seen.setdefault("sources", {})[id(code)] = source
                seen.setdefault("keep", []).append(code)
            return code

    def exec_(code, g=None, l=None):
        seen["exec_text"] = code if isinstance(code, str) else seen.get("sources", {}).get(id(code))
        seen["constants"] = dict(g)
        return builtins.exec(code, g, l)

    def eval_(code, g=None, l=None):
        seen["eval_code"] = code
        return builtins.eval(code, g, l)

    had = "builtins" in vars(cp)
    old = vars(cp).get("builtins")
    cp.exec, cp.eval = exec_, eval_
    if had:
        cp.builtins = BuiltinsProxy()
    try:
        yield seen
    finally:
        del cp.exec, cp.eval
        if had:
            cp.builtins = old


def real_compile(graph):
    """The real compiler on `graph`, hooked."""
    import einx._src.tracer.compiler.python as cp
    with hooked_compiler() as seen:
        fn, text = cp.compile(graph, return_code=True)
    return fn, text, seen


# ------------------------------------------------------------------------------------------------ instrumented runtime

class Runtime:
    """Objects whose every operation is logged.  `effects`: ordered log of calls / in-place calls / item updates /
    truth tests of assert conditions; `pure`: multiset of evaluated pure operations (attribute, item, operator)."""

    def __init__(self):
        self.effects = []
        self.pure = {}
        self.objs = {}      # reading the same thing twice gives the same object (as attribute/item access on real objects does)

    def p(self, what):
        self.pure[what] = self.pure.get(what, 0) + 1


def _rep(v):
    if isinstance(v, Obj):
        return v._t + (f"#{v._ver}" if v._ver else "")
    if isinstance(v, Fn):
        return f"<{v._name}>"
    if isinstance(v, tuple):
        return "(" + ", ".join(_rep(x) for x in v) + ("," if len(v) == 1 else "") + ")"
    if isinstance(v, list):
        return "[" + ", ".join(_rep(x) for x in v) + "]"
    if isinstance(v, dict):
        return "{" + ", ".join(f"{_rep(k)}: {_rep(x)}" for k, x in v.items()) + "}"
    if isinstance(v, slice):
        return f"{_rep(v.start)}:{_rep(v.stop)}:{_rep(v.step)}"
    if isinstance(v, types.ModuleType):
        return f"<module {v.__name__}>"
    if isinstance(v, map):
        return "<map>"
    if isinstance(v, type):
        return f"<class {v.__name__}>"
    if isinstance(v, types.FunctionType):
        return "<function>"
    if callable(v) and hasattr(v, "__name__"):
        return f"<{v.__name__}>"
    return repr(v)


def _key_rep(k):
    """Indexing follows tensor semantics: a 1-tuple key indexes like its element (the generator prints `x[k]` for `(k,)`)."""
    if isinstance(k, tuple) and len(k) == 1:
        return _rep(k[0])
    return _rep(k)


class Obj:
    def __init__(self, rt, t):
        object.__setattr__(self, "_rt", rt)
        object.__setattr__(self, "_t", t)
        object.__setattr__(self, "_ver", 0)

    def _read(self, what):
        self._rt.p(what)
        if what not in self._rt.objs:
            self._rt.objs[what] = Obj(self._rt, what)
        return self._rt.objs[what]

    def __getattr__(self, key):
        if key.startswith("__"):
            raise AttributeError(key)
        return self._read(f"{_rep(self)}.{key}")

    def __getitem__(self, key):
        return self._read(f"{_rep(self)}[{_key_rep(key)}]")

    def __setitem__(self, key, value):
        self._rt.effects.append(f"setitem {_rep(self)}[{_key_rep(key)}] = {_rep(value)}")
        object.__setattr__(self, "_ver", self._ver + 1)

    def __call__(self, *args, **kwargs):
        a = ", ".join([_rep(x) for x in args] + [f"{k}={_rep(v)}" for k, v in kwargs.items()])
        self._rt.effects.append(f"call {_rep(self)}({a})")
        return Obj(self._rt, f"{_rep(self)}({a})")

    def __iter__(self):
        self._rt.p(f"iter {_rep(self)}")
        return iter([Obj(self._rt, f"{_rep(self)}.it{i}") for i in range(2)])

    def __len__(self):
        self._rt.p(f"len {_rep(self)}")
        return 2

    def __bool__(self):
        # the truth test of an assert condition (also reached by comparisons of containers, hence not an ordered effect)
        self._rt.p(f"truth {_rep(self)}")
        return True

    def __neg__(self):
        return self._read(f"-({_rep(self)})")

    __hash__ = None


def _binop(sym):
    def f(self, other):
        return self._read(f"({_rep(self)} {sym} {_rep(other)})")
    return f


def _rbinop(sym):
    def f(self, other):
        return self._read(f"({_rep(other)} {sym} {_rep(self)})")
    return f


for _name, _sym in [("add", "+"), ("mul", "*"), ("sub", "-"), ("eq", "=="), ("ne", "!="), ("lt", "<"), ("le", "<="), ("gt", ">"), ("ge", ">=")]:
    setattr(Obj, f"__{_name}__", _binop(_sym))
for _name, _sym in [("radd", "+"), ("rmul", "*"), ("rsub", "-")]:
    setattr(Obj, f"__{_name}__", _rbinop(_sym))
Obj.__iadd__ = _binop("+")
Obj.__isub__ = _binop("-")


class Fn:
    """An opaque callable.  kind: 'one' (returns an object), 'pair' (tuple of 2), 'lst' (list of 2), 'inplace' (mutates its
    first argument, returns None)."""

    def __init__(self, rt, name, kind="one"):
        self._rt, self._name, self._kind = rt, name, kind

    def __call__(self, *args, **kwargs):
        a = ", ".join([_rep(x) for x in args] + [f"{k}={_rep(v)}" for k, v in kwargs.items()])
        t = f"{self._name}({a})"
        self._rt.effects.append(f"call {t}")
        if self._kind == "inplace":
            if args and isinstance(args[0], Obj):
                object.__setattr__(args[0], "_ver", args[0]._ver + 1)
            return None
        if self._kind == "pair":
            return (Obj(self._rt, t + ".0"), Obj(self._rt, t + ".1"))
        if self._kind == "lst":
            return [Obj(self._rt, t + ".0"), Obj(self._rt, t + ".1")]
        return Obj(self._rt, t)

    def __repr__(self):
        return f"<function {self._name}>"


FN_KINDS = {"f0": "one", "f1": "one", "f2": "one", "pair": "pair", "lst": "lst", "mut": "inplace"}


class FakeModule(types.ModuleType):
    rt = None

    def __getattr__(self, key):
        if key.startswith("__"):
            raise AttributeError(key)
        self.rt.p(f"{self.__name__}.{key}")
        return Fn(self.rt, key, FN_KINDS.get(key, "one"))


@contextlib.contextmanager
def fake_module(rt):
    m = FakeModule(MOD)
    m.rt = rt
    old = sys.modules.get(MOD)
    sys.modules[MOD] = m
    try:
        yield m
    finally:
        if old is None:
            sys.modules.pop(MOD, None)
        else:
            sys.modules[MOD] = old


# ------------------------------------------------------------------------------------------------ reference interpreter

class Reference:
    """Memoised node-by-node evaluation of a real tracer graph: the inputs of an application are evaluated in the order
    of `Application.inputs` (function, positional, keyword operands, additional dependencies), each node once."""

    OPS = {"+": lambda a, b: a + b, "*": lambda a, b: a * b, "-": lambda a, b: a - b, "==": lambda a, b: a == b, "!=": lambda a, b: a != b,
           "<": lambda a, b: a < b, "<=": lambda a, b: a <= b, ">": lambda a, b: a > b, ">=": lambda a, b: a >= b}

    def __init__(self, parent=None):
        self.memo = {}
        self.keep = []
        self.parent = parent

    def lookup(self, x):
        r = self
        while r is not None:
            if id(x) in r.memo:
                return True, r.memo[id(x)]
            r = r.parent
        return False, None

    def bind(self, x, v):
        self.memo[id(x)] = v
        self.keep.append(x)

    def value(self, x):
        import einx._src.tracer as tracer
        if isinstance(x, (str, int, float, np.integer, np.floating, bool)) or x is None:
            return x
        if isinstance(x, list):
            return [self.value(i) for i in x]
        if isinstance(x, tuple):
            return tuple(self.value(i) for i in x)
        if isinstance(x, dict):
            return {self.value(k): self.value(v) for k, v in x.items()}
        if isinstance(x, slice):
            return slice(self.value(x.start), self.value(x.stop), self.value(x.step))
        found, v = self.lookup(x)
        if found:
            return v
        if isinstance(x, tracer.Graph):
            v = self.closure(x)
            self.bind(x, v)
            return v
        assert isinstance(x, tracer.Tracer) and x.origin is not None, f"unbound tracer {x}"
        self.apply(x.origin)
        found, v = self.lookup(x)
        assert found
        return v

    def closure(self, graph):
        """A nested graph is a function definition: what it uses from the enclosing graph is evaluated where the function is
        defined (once), what depends on its parameters at every call."""
        import einx._src.tracer as tracer
        outer = self
        inner_dep = {}

        def depends(x):
            if isinstance(x, (list, tuple)):
                return any([depends(i) for i in x])
            if isinstance(x, dict):
                return any([depends(i) for i in list(x.keys()) + list(x.values())])
            if isinstance(x, slice):
                return any([depends(i) for i in (x.start, x.stop, x.step)])
            if isinstance(x, tracer.Graph):
                return depends(x.output)
            if not isinstance(x, tracer.Tracer):
                return False
            if id(x) not in inner_dep:
                if any(x is i for i in graph.inputs):
                    inner_dep[id(x)] = True
                elif x.origin is None or outer.lookup(x)[0]:
                    inner_dep[id(x)] = False
                else:
                    inner_dep[id(x)] = any([depends(i) for i in x.origin.inputs])
            return inner_dep[id(x)]

        def hoist(x):
            if isinstance(x, (list, tuple)):
                for i in x:
                    hoist(i)
            elif isinstance(x, dict):
                for i in list(x.keys()) + list(x.values()):
                    hoist(i)
            elif isinstance(x, slice):
                for i in (x.start, x.stop, x.step):
                    hoist(i)
            elif isinstance(x, tracer.Tracer):
                if not depends(x):
                    outer.value(x)
                elif x.origin is not None and not any(x is i for i in graph.inputs):
                    for i in x.origin.inputs:
                        hoist(i)
            elif isinstance(x, tracer.Graph):
                hoist(x.output)

        hoist(graph.output)

        def fn(*args):
            inner = Reference(parent=outer)
            for t, a in zip(graph.inputs, args, strict=True):
                inner.bind(t, a)
            return inner.value(graph.output)
        return fn

    def bind_tree(self, out, v):
        import einx._src.tracer as tracer
        if isinstance(out, tracer.Tracer):
            self.bind(out, v)
        elif isinstance(out, (list, tuple)):
            for k, o in enumerate(out):
                self.bind_tree(o, v[k])
        elif isinstance(out, dict):
            for k, o in out.items():
                self.bind_tree(o, v[k])
        else:
            raise TypeError(type(out))

    def apply(self, a):
        import einx._src.tracer as tracer
        P = tracer.signature.python
        for i in a.inputs:
            self.value(i)
        if isinstance(a, P.Call):
            f = self.value(a.function)
            r = f(*[self.value(x) for x in a.args], **{k: self.value(v) for k, v in a.kwargs.items()})
            self.bind(a.output, r)
        elif isinstance(a, P.CallInplace):
            f = self.value(a.function)
            f(*[self.value(x) for x in a.args], **{k: self.value(v) for k, v in a.kwargs.items()})
            self.bind(a.output, self.value(a.xs))
        elif isinstance(a, P.GetAttr):
            self.bind(a.output, getattr(self.value(a.obj), a.key))
        elif isinstance(a, P.GetItem):
            self.bind(a.output, self.value(a.obj)[self.value(a.key)])
        elif isinstance(a, P.UpdateItem):
            o, k, v = self.value(a.obj), self.value(a.key), self.value(a.value)
            if a.op == "=":
                o[k] = v
            elif a.op == "+=":
                o[k] += v
            elif a.op == "-=":
                o[k] -= v
            else:
                raise NotImplementedError(a.op)
            self.bind(a.output, o)
        elif isinstance(a, P.Import):
            if a.from_ is None:
                self.bind(a.output, importlib.import_module(a.import_))
            else:
                self.bind(a.output, getattr(importlib.import_module(a.from_), a.import_))
        elif isinstance(a, P.OperatorApplication):
            ops = [self.value(x) for x in a.operands]
            if len(ops) == 1 and a.operator == "-":
                self.bind(a.output, -ops[0])
            else:
                self.bind(a.output, self.OPS[a.operator](*ops))
        elif isinstance(a, P.Builtin):
            self.bind(a.output, getattr(builtins, a.name))
        elif isinstance(a, P.Assert):
            c = self.value(a.condition)
            assert c, a.message
            self.bind_tree(a.output, self.value(a.xs))
        elif isinstance(a, P.Constant):
            self.bind(a.output, a.value)
        elif isinstance(a, tracer.Cast):
            self.bind_tree(a.output, self.value(a.input))
        else:
            raise NotImplementedError(type(a))


# ------------------------------------------------------------------------------------------------ synthetic graphs (recipes)

class Builder:
    """Builds a real tracer graph from a JSON recipe.  Operand references: {"in": i}, {"r": j} (result of node j),
    {"r": j, "k": e} (element e of a destructured result), {"lit": v}, {"tuple"|"list": [...]}, {"dict": [[key, ref], ...]},
    {"slice": [a, b, c]}."""

    def __init__(self, recipe, rt):
        import einx._src.tracer as tracer
        self.tracer = tracer
        self.P = tracer.signature.python
        self.recipe = recipe
        self.rt = rt
        self.inputs = [self.P.Value(None) for _ in range(recipe["n_inputs"])]
        self.res = []
        self.consts = []

    def ref(self, r, local=None):
        if "in" in r:
            return self.inputs[r["in"]]
        if "z" in r:
            return local
        if "r" in r:
            v = self.res[r["r"]]
            return v[r["k"]] if "k" in r else v
        if "lit" in r:
            return r["lit"]
        if "tuple" in r:
            return tuple(self.ref(x, local) for x in r["tuple"])
        if "list" in r:
            return [self.ref(x, local) for x in r["list"]]
        if "dict" in r:
            return {k: self.ref(v, local) for k, v in r["dict"]}
        if "slice" in r:
            return slice(*[None if x is None else self.ref(x, local) for x in r["slice"]])
        raise ValueError(r)

    def node(self, n):
        P, tracer = self.P, self.tracer
        op = n["op"]
        if op == "import":
            return P.import_(MOD, as_=n.get("as"))
        if op == "getattr":
            return P.getattr(self.ref(n["obj"]), n["key"])
        if op == "getitem":
            return P.getitem(self.ref(n["obj"]), self.ref(n["key"]))
        if op == "call":
            out = P.call(self.ref(n["fn"]), [self.ref(a) for a in n["args"]], {k: self.ref(v) for k, v in n.get("kwargs", [])})
            shape = n.get("cast")
            if shape == "one":
                return tracer.cast(out, lambda origin: P.Value(origin))
            if shape == "pair":
                return tracer.cast(out, lambda origin: (P.Value(origin), P.Value(origin)))
            if shape == "lst":
                return tracer.cast(out, lambda origin: [P.Value(origin), P.Value(origin)])
            return out
        if op == "inplace":
            xs = self.ref(n["xs"])
            return P.call_inplace(xs, self.ref(n["fn"]), [xs] + [self.ref(a) for a in n["args"]], {k: self.ref(v) for k, v in n.get("kwargs", [])})
        if op == "update":
            return P.UpdateItem(self.ref(n["obj"]), self.ref(n["key"]), self.ref(n["value"]), n["sym"]).output
        if op == "operator":
            return P.operator(n["sym"], *[self.ref(a) for a in n["args"]])
        if op == "builtin":
            return getattr(P.builtins, n["name"])
        if op == "assert":
            return P.assert_(self.ref(n["xs"]), self.ref(n["cond"]), n.get("msg"))
        if op == "constant":
            v = Fn(self.rt, n["name"]) if n.get("callable", True) else Obj(self.rt, n["name"])
            self.consts.append(v)
            return P.constant(v)
        if op == "cast":
            return tracer.cast(self.ref(n["x"]), lambda origin: P.Value(origin))
        if op == "lambda":
            # nested graph with closures: lambda z: z[key] <sym> closure ...   (pure body)
            def body(z):
                x = P.getitem(z, self.ref(n["key"]))
                for c in n["closure"]:
                    x = P.operator(n["sym"], x, self.ref(c))
                return x
            g = P.function(body, args=[P.Value(None)])
            g.name = n.get("name")
            return g
        raise ValueError(op)

    def build(self):
        with self.tracer.depend_on(*self.inputs):
            for n in self.recipe["nodes"]:
                self.res.append(self.node(n))
            out = self.ref(self.recipe["output"])
        return self.tracer.Graph(self.inputs, out, name="op")


def refs_of(r):
    """Node indices referenced by an operand reference."""
    if not isinstance(r, dict):
        return []
    if "r" in r:
        return [r["r"]]
    out = []
    for k in ("tuple", "list"):
        for x in r.get(k, []):
            out += refs_of(x)
    for _, v in r.get("dict", []):
        out += refs_of(v)
    for x in r.get("slice", []) or []:
        out += refs_of(x)
    return out


def node_operands(n):
    ops = []
    for k in ("obj", "key", "fn", "xs", "value", "cond", "x"):
        if k in n:
            ops.append(n[k])
    ops += n.get("args", [])
    ops += [v for _, v in n.get("kwargs", [])]
    ops += n.get("closure", [])
    return ops


class RecipeGen:
    """Random well-formed recipes over all node kinds; values are used 0, 1 or many times."""

    def __init__(self, rng, size, nested=True):
        self.rng = rng
        self.size = size
        self.nested = nested
        self.nodes = []
        self.values = []      # references to object-like values
        self.funcs = []       # references to callables: (ref, kind)
        self.wholes = []      # whole destructured results (tuples/lists of tracers): usable as call arguments only
        self.regroups = []    # containers holding exactly the outputs of one multi-output application, in order
        self.oneshot = []     # values built from iterators: `list(map(...))` is inlined, so it is not captured by closures
                              # (the allow-list presumes that list()/tuple() can be repeated)

    def lit(self):
        return {"lit": self.rng.choice([0, 1, 2, -1, 1.5, "s", None, True])}

    def value(self, depth=0):
        r = self.rng.random()
        if self.wholes and r < 0.05:
            return self.rng.choice(self.wholes)
        if self.regroups and depth == 0 and r < 0.11:
            return self.rng.choice(self.regroups)
        if r < 0.72 or depth > 1:
            return self.rng.choice(self.values)
        if r < 0.82:
            return self.lit()
        if r < 0.9:
            return {"tuple": [self.value(depth + 1) for _ in range(self.rng.randint(0, 3))]}
        if r < 0.96:
            return {"list": [self.value(depth + 1) for _ in range(self.rng.randint(0, 3))]}
        return {"dict": [[k, self.value(depth + 1)] for k in self.rng.sample(["p", "q", "w"], self.rng.randint(1, 2))]}

    def key(self):
        r = self.rng.random()
        if r < 0.35:
            return {"lit": self.rng.randint(0, 3)}
        if r < 0.5:
            return self.rng.choice(self.values)
        parts = []
        for _ in range(self.rng.randint(0, 3)):
            q = self.rng.random()
            if q < 0.4:
                parts.append({"lit": self.rng.randint(0, 2)})
            elif q < 0.8:
                parts.append({"slice": [self.rng.choice([None, {"lit": 0}, {"lit": 1}]), self.rng.choice([None, {"lit": 3}]), self.rng.choice([None, None, {"lit": 2}])]})
            else:
                parts.append(self.rng.choice(self.values))
        return {"tuple": parts}

    def add(self, n):
        self.nodes.append(n)
        return len(self.nodes) - 1

    def make(self):
        rng = self.rng
        n_inputs = rng.randint(1, 3)
        self.values = [{"in": i} for i in range(n_inputs)]
        m = self.add({"op": "import", "as": rng.choice(["m", "m", None, "np"])})   # hints equal to generated names (a, b, …) are not produced by einx
        for name in rng.sample(["f0", "f1", "f2"], rng.randint(1, 3)):
            self.funcs.append(({"r": self.add({"op": "getattr", "obj": {"r": m}, "key": name})}, "one"))
        for _ in range(self.size):
            r = rng.random()
            if r < 0.3:
                fn, kind = rng.choice([f for f in self.funcs if f[1] != "inplace"])
                j = self.add({"op": "call", "fn": fn, "args": [self.value() for _ in range(rng.randint(0, 3))],
                              "kwargs": [[k, self.value()] for k in rng.sample(["axis", "k", "out"], rng.choice([0, 0, 1, 2]))],
                              "cast": rng.choice([None, "one", "one"]) if kind == "one" else kind})
                if kind in ("pair", "lst"):
                    self.values += [{"r": j, "k": 0}, {"r": j, "k": 1}]
                    self.wholes.append({"r": j})
                    # all outputs of one application collected again, in a tuple and in a list (one of them has the container type of the
                    # application's own output; the other must be displayed as a new container, not as the application's variable)
                    self.regroups += [{"tuple": [{"r": j, "k": 0}, {"r": j, "k": 1}]}, {"list": [{"r": j, "k": 0}, {"r": j, "k": 1}]}]
                else:
                    self.values.append({"r": j})
            elif r < 0.36:
                name = rng.choice(["pair", "lst", "mut", "f0", "f1"])
                self.funcs.append(({"r": self.add({"op": "getattr", "obj": {"r": m}, "key": name})}, FN_KINDS[name]))
            elif r < 0.46:
                self.values.append({"r": self.add({"op": "getitem", "obj": rng.choice(self.values), "key": self.key()})})
            elif r < 0.52:
                self.values.append({"r": self.add({"op": "getattr", "obj": rng.choice(self.values), "key": rng.choice(["T", "shape", "x"])})})
            elif r < 0.6:
                if rng.random() < 0.25:
                    self.values.append({"r": self.add({"op": "operator", "sym": "-", "args": [rng.choice(self.values)]})})
                else:
                    self.values.append({"r": self.add({"op": "operator", "sym": rng.choice(["+", "*", "==", "<", "!="]),
                                                       "args": [rng.choice(self.values), rng.choice(self.values + [self.lit()])]})})
            elif r < 0.68:
                muts = [f for f, k in self.funcs if k == "inplace"]
                if muts:
                    self.values.append({"r": self.add({"op": "inplace", "xs": rng.choice(self.values), "fn": rng.choice(muts),
                                                       "args": [self.value() for _ in range(rng.randint(0, 2))]})})
                else:
                    self.funcs.append(({"r": self.add({"op": "getattr", "obj": {"r": m}, "key": "mut"})}, "inplace"))
            elif r < 0.73:
                self.values.append({"r": self.add({"op": "update", "obj": rng.choice(self.values), "key": self.key(), "value": self.value(),
                                                   "sym": rng.choice(["=", "+=", "-="])})})
            elif r < 0.8:
                b = self.add({"op": "builtin", "name": rng.choice(["tuple", "list", "len", "isinstance", "type"])})
                name = self.nodes[b]["name"]
                args = [rng.choice(self.values)] + ([{"r": self.add({"op": "builtin", "name": "object"})}] if name == "isinstance" else [])
                self.values.append({"r": self.add({"op": "call", "fn": {"r": b}, "args": args})})
            elif r < 0.87:
                cond = rng.choice(self.values)
                xs = rng.choice(self.values) if rng.random() < 0.75 else {"tuple": [rng.choice(self.values), rng.choice(self.values)]}
                j = self.add({"op": "assert", "xs": xs, "cond": cond, "msg": rng.choice([None, "bad value"])})
                if "tuple" in xs:
                    self.values += [{"r": j, "k": 0}, {"r": j, "k": 1}]
                else:
                    self.values.append({"r": j})
            elif r < 0.91:
                if rng.random() < 0.7:
                    self.funcs.append(({"r": self.add({"op": "constant", "name": f"c{len(self.nodes)}", "callable": True})}, "one"))
                else:
                    self.values.append({"r": self.add({"op": "constant", "name": f"k{len(self.nodes)}", "callable": False})})
            elif r < 0.95:
                # casts are stacked on earlier aliases half of the time (alias of an alias)
                prev = [v for v in self.values if "r" in v and "k" not in v and self.nodes[v["r"]]["op"] in ("cast", "assert")]
                x = rng.choice(prev) if prev and rng.random() < 0.5 else rng.choice(self.values)
                self.values.append({"r": self.add({"op": "cast", "x": x})})
            elif self.nested:
                lam = self.add({"op": "lambda", "key": {"lit": rng.randint(0, 2)}, "sym": rng.choice(["+", "*"]),
                                "closure": [rng.choice([v for v in self.values if v not in self.oneshot]) for _ in range(rng.randint(0, 2))], "name": rng.choice([None, f"inner{len(self.nodes)}"])})
                mp = self.add({"op": "builtin", "name": "map"})
                j = self.add({"op": "call", "fn": {"r": mp}, "args": [{"r": lam}, rng.choice(self.values)]})
                ls = self.add({"op": "builtin", "name": "list"})
                self.values.append({"r": self.add({"op": "call", "fn": {"r": ls}, "args": [{"r": j}]})})
                self.oneshot.append(self.values[-1])
                clos = [c for c in self.nodes[lam]["closure"] if "r" in c or "in" in c]
                if clos and rng.random() < 0.6:
                    # a later consumer of a captured value: its name must not be re-used while the function can still be called
                    fn, _ = rng.choice([f for f in self.funcs if f[1] == "one"])
                    self.values.append({"r": self.add({"op": "call", "fn": fn, "args": [rng.choice(clos)], "cast": rng.choice([None, "one"])})})
        r = rng.random()
        if self.regroups and r < 0.12:
            out = rng.choice(self.regroups)
        elif r < 0.5:
            out = rng.choice(self.values[-4:])
        elif r < 0.8:
            out = {"tuple": [rng.choice(self.values[-6:]) for _ in range(rng.randint(1, 3))]}
        elif r < 0.9:
            out = {"list": [rng.choice(self.values) for _ in range(rng.randint(1, 3))]}
        else:
            out = {"dict": [[k, rng.choice(self.values)] for k in ["p", "q"]]}
        return {"n_inputs": n_inputs, "nodes": self.nodes, "output": out}


# ------------------------------------------------------------------------------------------------ oracle (a)/(c) on recipes

def inplace_ambiguous(graph):
    """True iff the graph contains an in-place write (in-place call, item update) to an object and a pure read (attribute,
    item, operator, inlinable builtin call) of the same object such that neither depends on the other.  The graph does not
    order the two, so 'node-by-node evaluation' has no defined result; the property only speaks about reads an update
    depends on.  Such graphs are not judged."""
    import einx._src.tracer as tracer
    from einx._src.util import pytree
    P = tracer.signature.python
    apps, anc, parent = {}, {}, {}

    def find(i):
        while parent.get(i, i) != i:
            i = parent[i]
        return i

    def union(a, b):
        parent[find(id(a))] = find(id(b))

    def leaves(x):
        if isinstance(x, slice):
            return [t for p in (x.start, x.stop, x.step) for t in leaves(p)]
        if isinstance(x, tracer.Graph):
            return leaves(x.output)
        return [t for y in pytree.flatten(x) for t in ([y] if isinstance(y, tracer.Tracer) else leaves(y) if isinstance(y, (slice, tracer.Graph)) else [])]

    def ancestors(t):
        if id(t) in anc:
            return anc[id(t)]
        anc[id(t)] = s = set()
        if t.origin is not None:
            a = t.origin
            apps[id(a)] = a
            s.add(id(a))
            for i in a.inputs:
                for u in leaves(i):
                    s |= ancestors(u)
            if isinstance(a, tracer.Cast):
                for o in leaves(a.output):
                    union(o, a.input)
            elif isinstance(a, P.CallInplace):
                union(a.output, a.xs)
            elif isinstance(a, P.UpdateItem):
                union(a.output, a.obj)
            elif isinstance(a, P.Assert):
                for o, x in zip(leaves(a.output), leaves(a.xs)):
                    union(o, x)
        return s

    for t in leaves(graph.output):
        ancestors(t)
    # an effect that does not depend on any graph input is placed at module level by design (it runs when the text is
    # exec'd, not when the function is called); einx orders every call after the inputs with depend_on, such graphs do not arise
    dep_memo = {}

    def on_input(t):
        if id(t) not in dep_memo:
            dep_memo[id(t)] = False
            dep_memo[id(t)] = any(t is i for i in graph.inputs) or (t.origin is not None and any(on_input(u) for i in t.origin.inputs for u in leaves(i)))
        return dep_memo[id(t)]

    for a in apps.values():
        if isinstance(a, (P.CallInplace, P.UpdateItem, P.Assert)) and not any(on_input(u) for i in a.inputs for u in leaves(i)):
            return True
    writes = [a for a in apps.values() if isinstance(a, (P.CallInplace, P.UpdateItem))]
    if not writes:
        return False
    for r in apps.values():
        pure = isinstance(r, (P.GetAttr, P.GetItem, P.OperatorApplication)) or (isinstance(r, P.Call) and isinstance(getattr(r.function, "origin", None), P.Builtin))
        if not pure:
            continue
        read_classes = {find(id(t)) for i in r.inputs for t in leaves(i)}
        for w in writes:
            target = w.xs if isinstance(w, P.CallInplace) else w.obj
            if find(id(target)) in read_classes:
                r_out, w_out = r.output, w.output
                if id(w) not in ancestors(r_out) and id(r) not in ancestors(w_out):
                    return True
    return False


def closure_over_oneshot(recipe):
    """A nested function that captures a value computed by (something derived from) an inlinable `list(...)`/`tuple(...)` call:
    the call is inlined into the function body and repeated at every call of the function, which is observable only because the
    recipes feed it one-shot iterators (`map`); the allow-list presumes these calls can be repeated.  Not judged (observation N5)."""
    nodes = recipe["nodes"]
    tainted = set()
    for j, n in enumerate(nodes):
        ops = [r for o in node_operands(n) for r in refs_of(o)]
        if n["op"] == "call" and isinstance(n["fn"], dict) and "r" in n["fn"] and nodes[n["fn"]["r"]]["op"] == "builtin" and nodes[n["fn"]["r"]].get("name") in ("list", "tuple", "map"):
            tainted.add(j)
        elif any(r in tainted for r in ops):
            tainted.add(j)
    return any(n["op"] == "lambda" and any(r in tainted for c in n["closure"] for r in refs_of(c)) for n in nodes)


def result_rep(v):
    return _rep(v)


def run_recipe(recipe):
    """Builds the graph, compiles it with the real compiler and runs text and reference.  Returns a dict with the real
    artefacts and the list of differences (empty = the property holds on this graph)."""
    # reference
    rt_ref = Runtime()
    with fake_module(rt_ref):
        b = Builder(recipe, rt_ref)
        graph = b.build()
        args = [Obj(rt_ref, f"x{i}") for i in range(recipe["n_inputs"])]
        ref = Reference()
        for t, a in zip(graph.inputs, args):
            ref.bind(t, a)
        try:
            want = result_rep(ref.value(graph.output))
            ref_err = None
        except Exception as e:
            want, ref_err = None, f"{type(e).__name__}: {e}"
    out = {"graph": graph, "builder": b, "diffs": [], "ref_err": ref_err}
    if ref_err is not None:
        return out
    out["ambiguous"] = inplace_ambiguous(graph) or closure_over_oneshot(recipe)
    # generated code: a second runtime with equal names (the graph's constants are rebuilt with the same names)
    rt_gen = Runtime()
    for c in b.consts:
        if isinstance(c, Fn):
            c._rt = rt_gen
        else:
            object.__setattr__(c, "_rt", rt_gen)
            object.__setattr__(c, "_ver", 0)
    with fake_module(rt_gen):
        try:
            fn, text, seen = real_compile(graph)
        except Exception as e:
            # not a C04 matter (the property speaks about operations einx compiles); the model must fail as well
            out["compile_err"] = f"{type(e).__name__}: {str(e)[:300]}"
            return out
        out.update(text=text, seen=seen)
        if "exec_text" not in seen or "constants" not in seen:
            # the compiler handed back an object without executing any text during this compilation: whatever it returned
            # was not made from the text it reports for this graph (e.g. a function kept from an earlier compilation, bound
            # to that compilation's constants)
            out["diffs"].append(("text", "compile() returned an object without executing the text it reports (exec was not called during this compilation)",
                                 {"eval_code": seen.get("eval_code"), "history": "an earlier compilation in this process produced the same text"}))
            return out
        # the compiler has exec'd the text itself: forget what that logged
        rt_gen.effects.clear()
        rt_gen.pure.clear()
        rt_gen.objs.clear()
        for c in b.consts:
            if isinstance(c, Obj):
                object.__setattr__(c, "_ver", 0)
        if seen.get("exec_text") != text:
            out["diffs"].append(("text", "returned text differs from the exec'd text", seen.get("exec_text")))
        # namespace: only the constants announced in the header comments
        announced = re.findall(r"^# Constant (\w+): ", text, flags=re.M)
        ns = {k: v for k, v in seen["constants"].items() if k in announced}
        if set(ns) != {k for k in seen["constants"] if not k.startswith("__")}:
            out["diffs"].append(("self-contained", "constants injected but not announced in the header", sorted(set(seen["constants"]) - set(ns))))
        # definition-time effects are part of the reference's log as well: run exec inside the same runtime
        try:
            builtins.exec(text, ns, ns)
            f = builtins.eval(seen["eval_code"], ns, ns)
            args = [Obj(rt_gen, f"x{i}") for i in range(recipe["n_inputs"])]
            got = result_rep(f(*args))
        except Exception as e:
            out["diffs"].append(("exec", "the emitted text fails where the reference succeeds", f"{type(e).__name__}: {str(e)[:300]}"))
            return out
    out.update(want=want, got=got, effects_ref=rt_ref.effects, effects_gen=rt_gen.effects, pure_ref=rt_ref.pure, pure_gen=rt_gen.pure)
    if out["ambiguous"]:
        return out
    if got != want:
        out["diffs"].append(("result", want, got))
    if rt_gen.effects != rt_ref.effects:
        out["diffs"].append(("effects", rt_ref.effects, rt_gen.effects))
    # nested function bodies evaluate what they use from the enclosing graph at every call (the reference at the
    # definition): evaluation counts are judged for graphs without nested functions only
    # Reading of "every value is computed once": a value is the result of evaluating a graph node; looking up an
    # attribute of an imported module (`np.reshape`, `np.add.at`) or a builtin name is a constant lookup, not a
    # computation -- the generator renders it inline at every use by design (DESIGN.md, C04).
    def _computed(pure):
        return {k: v for k, v in pure.items() if not (k == "c04mod" or k.startswith("c04mod."))}
    pg, pr = _computed(rt_gen.pure), _computed(rt_ref.pure)
    if pg != pr and not any(n["op"] == "lambda" for n in recipe["nodes"]):
        more = {k: (pr.get(k, 0), v) for k, v in pg.items() if v != pr.get(k, 0)}
        more.update({k: (v, 0) for k, v in pr.items() if k not in pg})
        out["diffs"].append(("computed-once", "evaluations of pure operations (reference, generated)", more))
    return out


def diff_kinds(res):
    return sorted({d[0] for d in res["diffs"]})


def shrink_recipe(recipe, kinds, budget=400):
    """Delete nodes (redirecting their uses to one of their operands or to input 0), drop arguments, simplify the output,
    as long as a difference of the same kind remains."""
    def still(r):
        try:
            res = run_recipe(r)
        except Exception:
            return False
        return res["ref_err"] is None and not res.get("ambiguous") and any(k in kinds for k in diff_kinds(res))

    def subst(r, j, repl):
        """replace references to node j by repl; renumber nodes above j"""
        def go(x):
            if isinstance(x, dict):
                if "r" in x:
                    if x["r"] == j:
                        return repl
                    return {**x, "r": x["r"] - 1} if x["r"] > j else x
                return {k: go(v) for k, v in x.items()}
            if isinstance(x, list):
                return [go(v) for v in x]
            return x
        nodes = [go(n) for i, n in enumerate(r["nodes"]) if i != j]
        return {"n_inputs": r["n_inputs"], "nodes": nodes, "output": go(r["output"])}

    cur = recipe
    changed = True
    while changed and budget > 0:
        changed = False
        for j in reversed(range(len(cur["nodes"]))):
            cands = [{"in": 0}] + [o for o in node_operands(cur["nodes"][j]) if isinstance(o, dict) and ("in" in o or ("r" in o and o["r"] < j))]
            for repl in cands:
                if "r" in repl and repl["r"] > j:
                    continue
                budget -= 1
                cand = subst(cur, j, repl)
                if still(cand):
                    cur, changed = cand, True
                    break
            if budget <= 0:
                break
        # simplify the output and argument lists
        outs = []
        o = cur["output"]
        for k in ("tuple", "list"):
            if k in o and len(o[k]) > 1:
                outs += [{k: o[k][:i] + o[k][i + 1:]} for i in range(len(o[k]))]
            if k in o and len(o[k]) == 1:
                outs.append(o[k][0])
        if "dict" in o:
            outs += [v for _, v in o["dict"]]
        for cand_out in outs:
            budget -= 1
            cand = {**cur, "output": cand_out}
            if still(cand):
                cur, changed = cand, True
                break
        for j, n in enumerate(cur["nodes"]):
            for fld in ("args", "kwargs", "closure"):
                for i in range(len(n.get(fld, []))):
                    if n["op"] == "operator" or (n["op"] == "call" and isinstance(n["fn"], dict) and n.get("_keep")):
                        continue
                    budget -= 1
                    n2 = {**n, fld: n[fld][:i] + n[fld][i + 1:]}
                    cand = {**cur, "nodes": cur["nodes"][:j] + [n2] + cur["nodes"][j + 1:]}
                    if still(cand):
                        cur, changed = cand, True
                        break
    return cur


def recipe_sig(recipe, kinds):
    return "graph:" + json.dumps(recipe, sort_keys=True, separators=(",", ":")) + " differs:" + ",".join(kinds)


def report_recipe(ctx, recipe, res, shrink=True):
    kinds = diff_kinds(res)
    small = shrink_recipe(recipe, kinds) if shrink else recipe
    r2 = run_recipe(small)
    if not r2["diffs"]:
        small, r2 = recipe, res
    kinds2 = diff_kinds(r2)
    ctx.violation(recipe_sig(small, kinds2), {
        "kind": "the emitted text does not behave like the node-by-node evaluation of the graph",
        "recipe": small, "text": r2.get("text"), "differences": [list(map(str, d)) for d in r2["diffs"]],
        "how": "tools/props/c04.py:run_recipe(recipe) builds the graph with the real tracer API, compiles it with the real compiler, execs the text and compares with the reference interpreter"})


# fixed witnesses (run first on every run; their signatures are stable)
D6_WITNESS = {"n_inputs": 1, "nodes": [{"op": "getitem", "obj": {"in": 0}, "key": {"lit": 0}}], "output": {"tuple": [{"r": 0}, {"r": 0}, {"r": 0}]}}
D6_WITNESS_CALLS = {"n_inputs": 1, "nodes": [
    {"op": "import", "as": "m"}, {"op": "getattr", "obj": {"r": 0}, "key": "f0"}, {"op": "getattr", "obj": {"r": 0}, "key": "f1"},
    {"op": "getattr", "obj": {"r": 0}, "key": "f2"}, {"op": "getitem", "obj": {"in": 0}, "key": {"lit": 0}},
    {"op": "call", "fn": {"r": 1}, "args": [{"r": 4}]}, {"op": "call", "fn": {"r": 2}, "args": [{"r": 4}]}, {"op": "call", "fn": {"r": 3}, "args": [{"r": 4}]}],
    "output": {"tuple": [{"r": 5}, {"r": 6}, {"r": 7}]}}
UNARY_WITNESS = {"n_inputs": 1, "nodes": [{"op": "operator", "sym": "-", "args": [{"in": 0}]}, {"op": "getattr", "obj": {"r": 0}, "key": "shape"}], "output": {"r": 1}}
# stacked aliases (cast of cast, cast of assert): every use of the outer alias is a use of the innermost operand
ALIAS2_WITNESS = {"n_inputs": 1, "nodes": [{"op": "getitem", "obj": {"in": 0}, "key": {"lit": 0}}, {"op": "cast", "x": {"r": 0}}, {"op": "cast", "x": {"r": 1}}],
                  "output": {"tuple": [{"r": 2}, {"r": 2}]}}
ALIAS2_ASSERT_WITNESS = {"n_inputs": 2, "nodes": [{"op": "getitem", "obj": {"in": 0}, "key": {"lit": 0}}, {"op": "assert", "xs": {"r": 0}, "cond": {"in": 1}, "msg": None},
                                                   {"op": "cast", "x": {"r": 1}}], "output": {"tuple": [{"r": 2}, {"r": 2}, {"r": 2}]}}
# all outputs of one multi-output application collected again in the other container type (as the result and as an argument)


def _regroup(fn, cont, as_arg):
    nodes = [{"op": "import", "as": "m"}, {"op": "getattr", "obj": {"r": 0}, "key": fn}, {"op": "call", "fn": {"r": 1}, "args": [{"in": 0}], "kwargs": [], "cast": fn}]
    grp = {cont: [{"r": 2, "k": 0}, {"r": 2, "k": 1}]}
    if not as_arg:
        return {"n_inputs": 1, "nodes": nodes, "output": grp}
    nodes += [{"op": "getattr", "obj": {"r": 0}, "key": "f0"}, {"op": "call", "fn": {"r": 3}, "args": [grp], "kwargs": [], "cast": "one"}]
    return {"n_inputs": 1, "nodes": nodes, "output": {"r": 4}}


REGROUP_WITNESSES = [(f"outputs of a {'tuple' if fn == 'pair' else 'list'}-valued application regrouped in a {cont}{' as an argument' if a else ''}", _regroup(fn, cont, a))
                     for fn in ("pair", "lst") for cont in ("tuple", "list") for a in (False, True)]
WITNESSES = REGROUP_WITNESSES + [("D6: one GetItem, three uses in the output", D6_WITNESS), ("D6: one GetItem with three consumers", D6_WITNESS_CALLS),
             ("unary operator followed by an attribute access", UNARY_WITNESS),
             ("multi-use cast of a cast of a GetItem", ALIAS2_WITNESS), ("multi-use cast of an assert of a GetItem", ALIAS2_ASSERT_WITNESS)]


# ------------------------------------------------------------------------------------------------ T-str

def tstr(ctx, graph, text, label, detail=None):
    """Model text vs real text for one real graph.  Returns the driver's answer (or None)."""
    if not ctx.driver_ok:
        return None
    try:
        doc = graph_doc(graph)
    except TypeError as e:
        ctx.count("tstr:unserialisable")
        return None
    r = ctx.driver().ask({"kind": "compile", "graph": doc})
    if "ok" not in r:
        ctx.count("tstr:model-error")
        ctx.tie_broken("correspondence:text", f"{label}: the model fails ({r.get('err')}) where the real compiler emits\n{text}")
        return r
    if r["ok"]["text"] != text:
        ctx.count("tstr:text-differs")
        ctx.tie_broken("correspondence:text", f"{label}: real text\n{text}\nmodel text\n{r['ok']['text']}")
        return r
    ctx.count("tstr:equal")
    ck = r["ok"]["checks"]
    # `fuse_safe` (text order per block) and `fuse_safe_prog` (emission order) are the conclusions of the theorems `fuse_text_safe`
    # and `fuse_produces_safe` (universal for `wf_graph` graphs), `single_def` and `blocks_bound` their emission premises; all are
    # decided again per graph as a redundant cross-check of model and proof
    for k in ("closed_order", "nodup_order", "closed_prog", "fuse_safe", "fuse_safe_prog", "single_def", "blocks_bound", "ref_ok", "same_trace", "same_ret"):
        if not ck[k]:
            ctx.count(f"checker:{k}:false")
            ctx.tie_broken(f"checker:{k}", f"{label}: premise/verdict {k} is false for\n{text}")
    # premise of the universal theorem `compile_correct_wf`; a graph outside the class is still covered by the per-graph
    # verdicts above, so this is counted, not flagged
    ctx.count("checker:wf_graph:" + ("true" if ck["wf_graph"] else "false"))
    ctx.count("checker:ops-equal" if ck["prog_ops"] == ck["ref_ops"] else "checker:ops-differ")
    ctx.extra["graphs_text_equal"] = ctx.extra.get("graphs_text_equal", 0) + 1
    return r


def tstr_error(ctx, graph, err, label):
    """The real compiler raised: the model must fail as well."""
    if not ctx.driver_ok:
        return
    try:
        doc = graph_doc(graph)
    except TypeError:
        return
    r = ctx.driver().ask({"kind": "compile", "graph": doc})
    if "ok" in r:
        ctx.tie_broken("correspondence:text", f"{label}: the real compiler raises {err}, the model emits\n{r['ok']['text']}")
    else:
        ctx.count("tstr:both-raise")


# ------------------------------------------------------------------------------------------------ einx calls: T-str and oracle (b)

EXTRA_CALLS = [
    ("set_at", "a [h], a p, a p -> a [h]", [(2, 5), "idx:(2,2):5", (2, 2)], {}),
    ("add_at", "a [h], a p, a p -> a [h]", [(2, 5), "idx:(2,2):5", (2, 2)], {}),
    ("subtract_at", "[h], p, p -> [h]", [(5,), "idx:(3,):5", (3,)], {}),
    ("get_at", "[h], p -> p", [(5,), "idx:(3,):5"], {}),
    ("get_at", "b [h], b p -> b p", [(2, 5), "idx:(2,3):5"], {}),
    ("logaddexp", "c, c", [(4,), (4,)], {}),
    ("add", "a, a", [(3,), (3,)], {}),
    ("sum", "a [b]", [(2, 3)], {}),
    ("softmax", "a [b]", [(2, 3)], {}),
    ("dot", "a [b], [b] c -> a c", [(2, 3), (3, 4)], {}),
    ("id", "a b c", [(2, 3, 4)], {}),
    ("id", "(a + b) c -> a c, b c", [(5, 2)], {"a": 2}),
    # more variables than there are one-letter names: the 45th generated name would be the keyword `as`, later ones `if`, `in`, `is`, `np`, `op`
    ("id", ", ".join(["a b"] * 45) + " -> " + ", ".join(["b a"] * 45), [(2, 3)] * 45, {}),
    ("add", ", ".join(["a b"] * 30) + " -> b a", [(2, 3)] * 30, {}),
    ("id", ", ".join(["a"] * 420) + " -> " + ", ".join(["a"] * 420), [(2,)] * 420, {}),
]


def make_extra_args(shapes, rng):
    args = []
    for s in shapes:
        if isinstance(s, str):
            _, shp, hi = s.split(":")
            shp = eval(shp)
            args.append(np.asarray([rng.randrange(int(hi)) for _ in range(int(np.prod(shp)))], dtype=np.int64).reshape(shp))
        else:
            args.append(np.arange(1, int(np.prod(s)) + 1, dtype=np.float64).reshape(s))
    return args


def same_value(a, b):
    if isinstance(a, (tuple, list)):
        return isinstance(b, (tuple, list)) and len(a) == len(b) and all(same_value(x, y) for x, y in zip(a, b))
    a, b = np.asarray(a), np.asarray(b)
    return a.shape == b.shape and np.allclose(a, b, equal_nan=True)


def call_sig(op, desc, shapes, kwargs, backend):
    return f"call: einx.{op}({desc!r}, …, graph=True) shapes={[list(s) for s in shapes]} kwargs={sorted((k, str(v)) for k, v in kwargs.items())} backend={backend}"


def check_einx_call(ctx, op, desc, args, kwargs, backend):
    """T-str on the captured graph, and oracle (b): the graph=True text is the executed text and contains the called object."""
    import einx
    f = getattr(einx, op)
    kw = dict(kwargs)
    if backend is not None:
        kw["backend"] = backend
    shapes = [np.asarray(a).shape for a in args]
    sig = call_sig(op, desc, shapes, kwargs, backend)
    graphcap.clear_caches()
    with hooked_compiler() as seen:
        with warnings.catch_warnings():
            warnings.simplefilter("ignore")
            with graphcap.capture() as cap:
                try:
                    res = f(desc, *[np.array(a) for a in args], **kw)
                except einx.errors.OperationNotSupportedError:
                    return "unsupported"
                except Exception as e:
                    ctx.count("einx-raised:" + type(e).__name__)
                    if "failed to compile" in str(e):
                        # the operation was traced and its text emitted, but the text is not a Python program
                        ctx.violation(sig, {"kind": "the emitted text does not compile", "op": op, "desc": desc[:300], "shapes": [list(s) for s in shapes][:8],
                                            "kwargs": {k: str(v) for k, v in kwargs.items()}, "backend": backend, "error": str(e)[-600:]})
                        return "VIOLATION"
                    return "raised"
            text = f(desc, *[np.array(a) for a in args], graph=True, **kw)
    if not cap.records:
        return "nocapture"
    rec = cap.records[-1]
    tstr(ctx, rec["compiled_graph"], rec["code"], sig)
    problems = []
    if text != rec["code"] or text != seen.get("exec_text"):
        problems.append("graph=True text differs from the text that was exec'd for this call")
    # self-contained: exec in a namespace holding only the announced constants; the compiled object must be bound by the text
    announced = re.findall(r"^# Constant (\w+): ", text, flags=re.M)
    ns = {k: v for k, v in seen.get("constants", {}).items() if k in announced}
    try:
        builtins.exec(text, ns, ns)
        import ast
        bound = set()
        for st in ast.parse(text).body:
            if isinstance(st, (ast.FunctionDef, ast.ClassDef)):
                bound.add(st.name)
            elif isinstance(st, ast.Assign):
                bound |= {t.id for t in st.targets if isinstance(t, ast.Name)}
        ev = seen.get("eval_code", "")
        if ev not in bound:
            problems.append(f"the text does not define the object that is called: einx evaluates {ev!r}, the text binds {sorted(bound)}")
        else:
            got = ns[ev](*[np.array(a) for a in args])
            if not same_value(got, res):
                problems.append("the function defined by the text computes a different result than the call")
    except Exception as e:
        problems.append(f"exec of the text fails: {type(e).__name__}: {e}")
    if problems:
        ctx.violation(sig, {"kind": "graph=True text is not a self-contained definition of the executed function", "op": op, "desc": desc,
                            "shapes": [list(s) for s in shapes], "kwargs": {k: str(v) for k, v in kwargs.items()}, "backend": backend,
                            "text": text, "eval_code": seen.get("eval_code"), "problems": problems})
        return "VIOLATION"
    return "ok"


# ------------------------------------------------------------------------------------------------ run

def adapter_graphs(ctx):
    """Adapters with user functions (constants, asserts, builtins, operators) and element-wise/reduce adapters."""
    import einx
    x = np.arange(10.).reshape(2, 5)
    cases = [
        ("adapt_numpylike_reduce(np.sum)('a [b]')", lambda: einx.numpy.adapt_numpylike_reduce(np.sum)("a [b]", x)),
        ("adapt_numpylike_reduce(np.max)('[a] b')", lambda: einx.numpy.adapt_numpylike_reduce(np.max)("[a] b", x)),
        ("adapt_numpylike_elementwise(np.add)('a b, b')", lambda: einx.numpy.adapt_numpylike_elementwise(np.add)("a b, b", x, x[0])),
    ]
    for label, f in cases:
        graphcap.clear_caches()
        with warnings.catch_warnings():
            warnings.simplefilter("ignore")
            with graphcap.capture() as cap:
                try:
                    f()
                except Exception as e:
                    ctx.count("adapter-raised:" + type(e).__name__)
                    continue
        for rec in cap.records:
            tstr(ctx, rec["compiled_graph"], rec["code"], "adapter: " + label)
            ctx.case("adapter:" + label, True)
            ctx.count("family:adapter")
    # Two operations whose generated TEXT is identical but whose constants differ (user callables with the same repr and
    # different state): each call must run the text of its own graph with its own constants, and the text returned with
    # graph=True, executed with the constants it announces, must give the same result.
    class Layer:
        def __init__(self, w):
            self.w = w

        def __call__(self, t, axis=None):
            return np.sum(t, axis=axis) * self.w

        def __repr__(self):
            return "Layer()"
    Layer.__name__ = "Layer"
    for w in (2.0, -3.0, 0.5):
        lay = Layer(w)
        try:
            with warnings.catch_warnings():
                warnings.simplefilter("ignore")
                op = einx.numpy.adapt_numpylike_reduce(lay)
                with hooked_compiler() as seen:
                    got = op("a [b]", x)
                text = op("a [b]", x, graph=True)
        except Exception as e:
            ctx.count("adapter-raised:" + type(e).__name__)
            continue
        ctx.count("adapter:same-text-different-constants")
        want = x.sum(axis=1) * w
        problems = []
        if not np.allclose(np.asarray(got), want):
            problems.append(f"the call returned {np.asarray(got).tolist()} instead of {want.tolist()} (computed with another operation's constants)")
        announced = re.findall(r"^# Constant (\w+): ", text, flags=re.M)
        ns = {k: v for k, v in seen.get("constants", {}).items() if k in announced}
        if "exec_text" in seen:
            try:
                builtins.exec(text, ns, ns)
                ev = seen.get("eval_code", "op")
                if ev in ns and not np.allclose(np.asarray(ns[ev](x)), np.asarray(got)):
                    problems.append("the returned text, executed with the constants it announces, computes a different result than the call")
            except Exception as e:
                problems.append(f"exec of the text fails: {type(e).__name__}: {e}")
        if problems:
            ctx.violation(f"history: adapt_numpylike_reduce(Layer(w)) for w = 2.0, -3.0, 0.5 on 'a [b]' (equal generated text, different constants); failing w={w}",
                          {"kind": "an operation whose text equals the text of an earlier operation is executed with the earlier operation's constants",
                           "w": w, "problems": problems, "text": text})
            break


def run(ctx):
    rng = ctx.rng
    big = bool(ctx.broken) or not ctx.quick
    n_calls = 120 if ctx.quick else 1500
    n_recipes = 300 if ctx.quick else 6000
    if ctx.broken:
        n_calls, n_recipes = n_calls * 2, n_recipes * 3
    ctx.extra["rule"] = ("(i) grammar-directed einx calls of all families on the numpy backends plus fixed in-place/adapter/InlineGraph calls: the captured graph is "
                         "compiled by the Lean model and the text compared byte for byte; graph=True text must equal the exec'd text and bind the called object; "
                         "(ii) random recipes over all node kinds (call, in-place call, getattr, getitem with slices, item update, import, operator, assert, builtin, "
                         "constant, cast, nested graph with closures, tuple/list/dict values, values used 0/1/many times) built with the real tracer API: text equality with the "
                         "model, and exec of the text against the reference interpreter on instrumented objects; non-trivial = at least 3 applications; distinct by "
                         "(call, shapes, backend) or by recipe")
    ctx.assumptions.append("imports are pure bindings; hoisting them (and root-block statements) before the function body does not change behaviour")
    ctx.assumptions.append("the reference interpreter of tools/props/c04.py is the specification of 'direct evaluation node by node' (inputs in Application.inputs order, memoised)")
    facts = getattr(ctx, "facts", {}).get("Compile", {})
    ctx.extra["extracted"] = facts

    # 0. fixed witnesses (stable signatures).  A broken obligation of Props/C04.lean is explained by its witnesses: if every
    #    failing witness of an obligation is a listed known finding, the obligation is not reported a second time.
    failing = {"value_computed_once_obligation": [], "unary_operator_obligation": [], "self_contained_obligation": []}
    for label, recipe in WITNESSES:
        res = run_recipe(recipe)
        ctx.case("witness:" + label, True)
        if res.get("text") is not None:
            tstr(ctx, res["graph"], res["text"], "witness " + label)
        if res["diffs"]:
            new = ctx.violation(recipe_sig(recipe, diff_kinds(res)), {
                "kind": "the emitted text does not behave like the node-by-node evaluation of the graph", "witness": label,
                "recipe": recipe, "text": res.get("text"), "differences": [list(map(str, d)) for d in res["diffs"]],
                "how": "tools/props/c04.py:run_recipe(recipe)"})
            failing["unary_operator_obligation" if "unary" in label else "value_computed_once_obligation"].append(new)
    for (op, desc, shapes, kwargs) in EXTRA_CALLS:
        before = len(ctx.violations)
        st = check_einx_call(ctx, op, desc, make_extra_args(shapes, rng), kwargs, None)
        ctx.case(call_sig(op, desc, [()], kwargs, None), True)
        ctx.count("fixed-call:" + st)
        if st == "VIOLATION":
            failing["self_contained_obligation"].append(len(ctx.violations) > before)
    for thm, news in failing.items():
        if news and not any(news):
            ctx.broken[:] = [b for b in ctx.broken if b["name"] != "theorem:" + thm]
    adapter_graphs(ctx)

    # 1. stream of einx calls
    for i in range(n_calls):
        call = gen.gen_call(rng)
        args = gen.make_args(call, rng, "iota")
        backend = rng.choice(BACKENDS) if "backend" not in call else call.get("backend")
        st = check_einx_call(ctx, call["op"], call["desc"], args, call["kwargs"], backend)
        ctx.case(call_sig(call["op"], call["desc"], call["shapes"], call["kwargs"], backend), st in ("ok", "VIOLATION") and sum(len(s) for s in call["shapes"]) >= 2)
        ctx.count("family:" + call["family"])
        ctx.count("call:" + st)
        if i < 3:
            ctx.sample({"op": call["op"], "desc": call["desc"], "shapes": [list(s) for s in call["shapes"]], "backend": backend, "status": st})
        if len(ctx.violations) >= 8:
            break

    # 2. synthetic graphs
    reported = 0
    n_notpython = 0
    seen_kinds = set()
    for i in range(n_recipes):
        recipe = RecipeGen(rng, rng.randint(2, 14)).make()
        try:
            res = run_recipe(recipe)
        except RecursionError:
            ctx.count("recipe:recursion")
            continue
        kinds = {n["op"] for n in recipe["nodes"]}
        for k in kinds:
            ctx.count("node:" + k)
        if res["ref_err"] is not None:
            ctx.count("recipe:reference-raises")
            continue
        nontrivial = len(recipe["nodes"]) >= 3
        ctx.case("recipe:" + core.digest(recipe), nontrivial)
        if "compile_err" in res:
            if "failed to compile" in res["compile_err"]:
                # the recipe is not well formed Python-wise (e.g. an item update of an operator expression): not a graph einx builds
                ctx.count("recipe:text-is-not-python(skipped)")
                n_notpython += 1
                continue
            ctx.count("recipe:compile-raises")
            tstr_error(ctx, res["graph"], res["compile_err"], "recipe " + json.dumps(recipe))
        elif res.get("text") is not None:
            tstr(ctx, res["graph"], res["text"], "recipe " + json.dumps(recipe))
        if i < 2:
            ctx.sample({"recipe": recipe, "text": res.get("text"), "diffs": diff_kinds(res)})
        if res.get("ambiguous"):
            ctx.count("recipe:unordered-effects(not judged)")
        elif res["diffs"]:
            ctx.count("recipe:differs:" + ",".join(diff_kinds(res)))
            key = tuple(diff_kinds(res))
            if reported < 4 and (key not in seen_kinds or big and reported < 6):
                seen_kinds.add(key)
                report_recipe(ctx, recipe, res)
                reported += 1
        elif not res.get("ambiguous"):
            ctx.count("recipe:ok")
    if n_notpython > n_recipes // 5:
        ctx.tie_broken("correspondence:text", f"{n_notpython} of {n_recipes} synthetic graphs yield text that Python rejects")
    ctx.extra["traces_validated_against_impl"] = ctx.extra.get("graphs_text_equal", 0)


def replay(ctx, path):
    with open(path) as f:
        r = json.load(f)["replay"]
    if "recipe" in r:
        res = run_recipe(r["recipe"])
        print("text:\n" + str(res.get("text")))
        print("differences now:", json.dumps([list(map(str, d)) for d in res["diffs"]], indent=1))
        return 1 if res["diffs"] else 0
    if "op" in r:
        import einx
        args = make_extra_args([tuple(s) for s in r["shapes"]], ctx.rng) if False else [np.ones(s) if i == 0 else np.zeros(s, dtype=np.int64) for i, s in enumerate(r["shapes"])]
        text = getattr(einx, r["op"])(r["desc"], *args, graph=True)
        print("graph=True text now:\n" + text)
        return 0
    print(json.dumps(r, indent=1)[:3000])
    return 0
