"""C05 — graph optimisation never changes what an operation computes, and terminates.

Proof: Props/C05.lean -- for all ranks/shapes/permutations and every element algebra, over the same `IR.planInstr` /
`IR.evalProg` the validator executes: `transpose_transpose` (about `Extracted.composePerm`, translated from
optimizer/classical.py on every run), `transpose_id`, `reshape_same`, `reshape_reshape`, `broadcast_same`,
`concat_singleton`, the obligations linking each extracted no-op test to its theorem, `optimize_terminates` /
`optimize_fixpoint` for the pass loop, and `equiv_sound` (acceptance by the driver kind `equiv` = equality for all inputs).

Ties: T-src tools/extract/kernels.py (kernels + structural anchors); T-beh the extracted kernels against the REAL pattern
objects on random arguments; T-str every real graph before/after the REAL `tracer.optimize` (generated call stream of
lib.gen on all numpy backends + synthetic chains of reshape/transpose/broadcast_to/concatenate/cast built with the real
tracer, with shared sub-graphs and multi-consumer values) translated by the Lean driver and compared cell by cell.

Search (independent of Lean): lib.grapheval evaluates the real unoptimised and optimised graph objects node by node on
iota tensors (outputs AND final contents of the inputs -- in-place nodes); termination oracle: every real pass that
reports `changed` must strictly decrease the number of application nodes of the graph unfolded into a tree (the measure
of `optimize_terminates`), an `unchanged` pass must leave it as it is, and no run may take more than (nodes + 2) passes.
"""
import contextlib
import itertools
import json
import warnings
from functools import partial

import numpy as np

from lib import core, gen, oracle, graphcap, grapheval, dagcap

EXTRACTORS = ["Kernels"]
EXTRA_PROPS = ["C05Dag", "C05Dag2"]
BACKENDS = [None, "numpy", "numpy.numpylike", "numpy.einsum"]
UPDATE_OPS = ["set_at", "add_at", "subtract_at"]


def numpy_patterns():
    import einx._src.frontend.impl.numpy as impl
    return impl._get_backend_kwargs()["optimizations"]


def prod(s):
    p = 1
    for d in s:
        p *= int(d)
    return p


# ------------------------------------------------------------------------------------------------ synthetic graphs

class Invalid(Exception):
    pass


def broadcastable(s, t):
    if len(s) > len(t):
        return False
    return all(a == b or a == 1 for a, b in zip(s, t[len(t) - len(s):]))


def build_chain(spec):
    """Build a real tracer graph from a chain description {"inputs": [shape..], "steps": [...], "outputs": [value index..]}.
    Value k < len(inputs) is input k; every step appends one value.  Raises Invalid for an ill-typed description."""
    import einx._src.tracer as tracer
    npx = tracer.signature.numpy()
    T = tracer.signature.classical.Tensor
    inputs = [T(None, tuple(s)) for s in spec["inputs"]]
    vals = list(inputs)

    def get(k):
        if not (0 <= k < len(vals)):
            raise Invalid("value index")
        return vals[k]
    with tracer.depend_on(*inputs):
        for st in spec["steps"]:
            op = st["op"]
            if op == "reshape":
                x = get(st["src"])
                if prod(x.shape) != prod(st["shape"]):
                    raise Invalid("reshape count")
                v = npx.reshape(x, tuple(st["shape"]))
            elif op == "transpose":
                x = get(st["src"])
                if sorted(st["perm"]) != list(range(x.ndim)):
                    raise Invalid("perm")
                v = npx.transpose(x, tuple(st["perm"]))
            elif op == "broadcast_to":
                x = get(st["src"])
                if not broadcastable(tuple(x.shape), tuple(st["shape"])):
                    raise Invalid("broadcast")
                v = npx.broadcast_to(x, tuple(st["shape"]))
            elif op == "concatenate":
                xs = [get(k) for k in st["srcs"]]
                ax = st["axis"]
                if not xs or not (0 <= ax < xs[0].ndim):
                    raise Invalid("concat axis")
                for x in xs:
                    if x.ndim != xs[0].ndim or any(i != ax and a != b for i, (a, b) in enumerate(zip(x.shape, xs[0].shape))):
                        raise Invalid("concat shapes")
                v = npx.concatenate(xs, axis=ax)
            elif op == "cast":
                x = get(st["src"])
                v = tracer.cast(x, partial(T, shape=x.shape))
            elif op == "add":
                a, b = get(st["srcs"][0]), get(st["srcs"][1])
                if tuple(a.shape) != tuple(b.shape):
                    raise Invalid("add shapes")
                v = npx.add(a, b)
            elif op == "wrap_add":
                # a trivial wrapper function (nested graph) around np.add, called on two values: InlineGraph's case
                a, b = get(st["srcs"][0]), get(st["srcs"][1])
                if tuple(a.shape) != tuple(b.shape):
                    raise Invalid("add shapes")
                ia, ib = T(None, tuple(a.shape)), T(None, tuple(b.shape))
                inner = tracer.Graph([ia, ib], npx.add(ia, ib), name="wrapped")
                v = tracer.cast(tracer.signature.python.call(inner, [a, b]), partial(T, shape=a.shape))
            else:
                raise Invalid(f"op {op}")
            vals.append(v)
    outs = [get(k) for k in spec["outputs"]]
    if not outs:
        raise Invalid("no outputs")
    out = outs[0] if len(outs) == 1 else tuple(outs)
    return tracer.Graph(inputs, out, name="op")


def factorizations(n, rng, max_dims=4):
    facs = []
    m = n
    while m > 1 and len(facs) < max_dims - 1 and rng.random() < 0.75:
        ds = [f for f in range(2, m + 1) if m % f == 0]
        d = rng.choice(ds)
        facs.append(d)
        m //= d
    facs.append(m)
    while len(facs) < max_dims and rng.random() < 0.3:
        facs.insert(rng.randrange(len(facs) + 1), 1)
    rng.shuffle(facs)
    if n == 1 and rng.random() < 0.3:
        return []
    return facs


def gen_chain(rng):
    """A random chain with shared sub-graphs and multi-consumer values; lengths biased to 1 and to equal lengths."""
    n_in = 1 if rng.random() < 0.7 else 2
    base = rng.choice([2, 3])
    inputs = []
    for _ in range(n_in):
        rank = rng.randint(0, 4)
        inputs.append([base if rng.random() < 0.35 else rng.choice([1, 2, 2, 3, 4, 5]) for _ in range(rank)])
    shapes = [list(s) for s in inputs]
    steps = []
    for _ in range(rng.randint(1, 7)):
        k = rng.randrange(len(shapes)) if rng.random() < 0.4 else len(shapes) - 1   # mostly extend the chain, sometimes branch
        s = shapes[k]
        r = rng.random()
        if r < 0.28:
            t = list(s) if rng.random() < 0.25 else factorizations(prod(s), rng)
            steps.append({"op": "reshape", "src": k, "shape": t})
            shapes.append(t)
        elif r < 0.56:
            p = list(range(len(s)))
            if rng.random() > 0.2:
                rng.shuffle(p)
            steps.append({"op": "transpose", "src": k, "perm": p})
            shapes.append([s[i] for i in p])
        elif r < 0.68:
            t = list(s)
            if rng.random() > 0.35:
                t = [rng.choice([2, 3]) if d == 1 and rng.random() < 0.6 else d for d in t]
                if len(t) < 4 and rng.random() < 0.4:
                    t = [rng.choice([1, 2, 3]) for _ in range(rng.randint(1, 4 - len(t)))] + t
            steps.append({"op": "broadcast_to", "src": k, "shape": t})
            shapes.append(t)
        elif r < 0.80 and len(s) >= 1:
            ax = rng.randrange(len(s))
            srcs = [k]
            if rng.random() > 0.5:
                same = [j for j, u in enumerate(shapes) if len(u) == len(s) and all(i == ax or a == b for i, (a, b) in enumerate(zip(u, s)))]
                srcs += [rng.choice(same) for _ in range(rng.randint(1, 2))]
                rng.shuffle(srcs)
            steps.append({"op": "concatenate", "srcs": srcs, "axis": ax})
            t = list(s)
            t[ax] = sum(shapes[j][ax] for j in srcs)
            shapes.append(t)
        elif r < 0.88:
            steps.append({"op": "cast", "src": k})
            shapes.append(list(s))
        else:
            same = [j for j, u in enumerate(shapes) if u == s]
            j = rng.choice(same)
            steps.append({"op": "add" if rng.random() < 0.7 else "wrap_add", "srcs": [k, j]})
            shapes.append(list(s))
    n = len(shapes)
    outs = [n - 1]
    while rng.random() < 0.35 and len(outs) < 3:
        outs.append(rng.randrange(n_in, n))        # an intermediate value that is also an output: a second consumer
    if prod(shapes[outs[0]]) > 4000:
        return gen_chain(rng)
    return {"inputs": inputs, "steps": steps, "outputs": outs}


def all_shapes(max_dims=4, lengths=(1, 2, 3)):
    out = []
    for r in range(max_dims + 1):
        out += [list(t) for t in itertools.product(lengths, repeat=r)]
    return out


def exhaustive_specs(rng, rank5_samples=60):
    """thorough tier: every pair of permutations up to rank 4 (rank 5 sampled) -- plain chain and with the intermediate
    value consumed twice --, every pair of equal-count shapes / broadcastable shapes with <= 4 dims over lengths {1,2,3}."""
    specs = []
    distinct = [2, 3, 4, 5, 6]
    for rank in range(0, 5):
        perms = [list(p) for p in itertools.permutations(range(rank))]
        for p1 in perms:
            for p2 in perms:
                for shape in (distinct[:rank], [2] * rank):
                    specs.append({"inputs": [shape], "steps": [{"op": "transpose", "src": 0, "perm": p1}, {"op": "transpose", "src": 1, "perm": p2}], "outputs": [2]})
                specs.append({"inputs": [distinct[:rank]], "steps": [{"op": "transpose", "src": 0, "perm": p1}, {"op": "transpose", "src": 1, "perm": p2},
                                                                     {"op": "transpose", "src": 1, "perm": list(range(rank))}], "outputs": [2, 3, 1]})
    perms5 = [list(p) for p in itertools.permutations(range(5))]
    for _ in range(rank5_samples):
        p1, p2 = rng.choice(perms5), rng.choice(perms5)
        specs.append({"inputs": [[2, 3, 2, 3, 2]], "steps": [{"op": "transpose", "src": 0, "perm": p1}, {"op": "transpose", "src": 1, "perm": p2}, {"op": "add", "srcs": [2, 2]}], "outputs": [3, 1]})
    shapes = all_shapes()
    by_count = {}
    for s in shapes:
        by_count.setdefault(prod(s), []).append(s)
    for cnt, group in sorted(by_count.items()):
        for s1 in group:
            for s2 in group:
                specs.append({"inputs": [group[0]], "steps": [{"op": "reshape", "src": 0, "shape": s1}, {"op": "reshape", "src": 1, "shape": s2}], "outputs": [2] if (len(s1) + len(s2)) % 2 else [2, 1]})
    for s in shapes:
        for t in shapes:
            if broadcastable(s, t):
                specs.append({"inputs": [s], "steps": [{"op": "broadcast_to", "src": 0, "shape": t}, {"op": "transpose", "src": 1, "perm": list(range(len(t)))}], "outputs": [2]})
    return specs


# ------------------------------------------------------------------------------------------------ oracles

def as_list(r):
    return list(r) if isinstance(r, (tuple, list)) else [r]


def iota_inputs(shapes, distinct_offset=True):
    return [np.arange(1 + 1000 * i, 1 + 1000 * i + prod(s), dtype=np.int64).reshape(tuple(s)) for i, s in enumerate(shapes)]


def eval_graph(g, args):
    """Evaluate a real graph on private copies of `args` -> ("ok", outputs, final inputs) | ("raise", text).
    grapheval.EvalError (a node kind the evaluator does not know) propagates."""
    a = [np.array(x, copy=True) if isinstance(x, np.ndarray) else x for x in args]
    with warnings.catch_warnings():
        warnings.simplefilter("ignore")
        try:
            r = as_list(grapheval.run_graph(g, a))
        except grapheval.EvalError:
            raise
        except Exception as e:
            return ("raise", f"{type(e).__name__}: {e}")
    return ("ok", r, a)


def compare_evals(e1, e2):
    """None when the evaluation of the unoptimised graph (e1, taken BEFORE the optimiser ran, so that an optimiser that
    mutates the graph it is given cannot hide behind its own damage) and of the optimised graph (e2) agree on outputs and
    on the final contents of the inputs; else a description of the first difference."""
    if e1[0] == "raise":
        return {"skip": "the unoptimised graph raises " + e1[1]}
    if e2[0] == "raise":
        return {"what": "the optimised graph raises " + e2[1] + " where the unoptimised graph returns", "unoptimised": [np.asarray(r).tolist() for r in e1[1]]}
    r1, a1, r2, a2 = e1[1], e1[2], e2[1], e2[2]
    if len(r1) != len(r2):
        return {"what": "number of outputs differs", "unoptimised": len(r1), "optimised": len(r2)}
    for k, (x, y) in enumerate(zip(r1, r2)):
        if np.asarray(x).shape != np.asarray(y).shape:
            return {"what": f"shape of output {k} differs", "unoptimised": list(np.asarray(x).shape), "optimised": list(np.asarray(y).shape)}
        if not oracle.same(x, y):
            return {"what": f"values of output {k} differ", "unoptimised": np.asarray(x).tolist(), "optimised": np.asarray(y).tolist()}
    for k, (x, y) in enumerate(zip(a1, a2)):
        if isinstance(x, np.ndarray) and not oracle.same(x, y):
            return {"what": f"final contents of input {k} (in-place effect) differ", "unoptimised": x.tolist(), "optimised": y.tolist()}
    return None


def pass_problem(run):
    """Termination oracle on one recorded run of the real optimize loop -> None | (what, pass index)."""
    for n, p in enumerate(run):
        if p["changed"] and not p["tree_out"] < p["tree_in"]:
            return ("a pass reported `changed` without decreasing the node measure", n)
        if not p["changed"] and p["tree_out"] != p["tree_in"]:
            return ("a pass reported `unchanged` but returned a graph of a different size", n)
    if run and run[-1]["changed"]:
        return ("the loop stopped after a pass that reported `changed`", len(run) - 1)
    if run and len(run) > run[0]["dag_in"] + 1:
        return ("more passes than nodes + 1", len(run) - 1)
    return None


def check_passes(ctx, run, sig, replay):
    ctx.count(f"passes:{len(run)}")
    for p in run:
        if p["changed"] and not p["dag_out"] < p["dag_in"]:
            ctx.count("pass:changed-with-equal-dag-count(shared operand kept alive)")
    bad = pass_problem(run)
    if bad:
        ctx.violation("termination:" + sig, dict(replay, kind=bad[0], pass_index=bad[1], passes=run))
        return False
    return True


def lean_equiv(ctx, items):
    """items: [(JSON of the pre graph taken before optimisation, post graph, sig, replay)] -> verdict list; `differs`/`rejected`
    break the T-str tie."""
    if not ctx.driver_ok or not items:
        return []
    reqs = []
    for it in items:
        gj1, post = it[0], it[1]
        gj2, _ = graphcap.graph_to_json(post)
        reqs.append({"kind": "equiv", "pre": gj1, "post": gj2})
    out = ctx.driver().ask_many(reqs, chunk=200)
    for r, it in zip(out, items):
        sig, replay = it[2], it[3]
        v = r["verdict"]
        ctx.count("equiv:" + v)
        if v == "equal":
            ctx.extra["graph_pairs_proved_equal"] = ctx.extra.get("graph_pairs_proved_equal", 0) + 1
        elif v == "unsupported":
            ctx.count("equiv:unsupported:" + r.get("why", "")[:40])
        elif v in ("differs", "rejected"):
            ctx.tie_broken("equiv:optimised-vs-unoptimised", f"{sig}: {json.dumps(r)[:700]}")
    return out


def lean_optdag(ctx, items):
    """T-str, traversal: the Lean model of the REAL traversal (`Optimize/Dag.lean: optimizeDag` -- memo, pattern order, rebuild, pass
    loop) is run by the driver on the store of every real pre-optimisation graph with the REAL pattern list of the numpy backend; its
    output must be structurally equal (canonical form of lib.dagcap) to the real optimised graph, pass by pass flag `changed` included.
    items: [(pre graph JSON, post graph, sig, replay, [changed flag of every real pass] | None)]."""
    if not ctx.driver_ok or not items:
        return
    try:
        pats = dagcap.patterns_json(numpy_patterns())
    except dagcap.Unsupported as e:
        ctx.tie_broken("correspondence:optdag", f"pattern list of the numpy backend cannot be described to the model: {e}")
        return
    reqs, keep = [], []
    for it in items:
        gj1, post, sig = it[0], it[1], it[2]
        flags = it[4] if len(it) > 4 else None
        try:
            pre = dagcap.to_dag(gj1)
            want = dagcap.canon(dagcap.to_dag(graphcap.graph_to_json(post)[0]))
        except dagcap.Unsupported as e:
            ctx.count("optdag:not-serialisable:" + str(e)[:40])
            continue
        reqs.append({"kind": "optdag", "prog": pre, "patterns": pats, "max_passes": len(pre["nodes"]) + 3})
        keep.append((sig, want, flags, pre))
    out = ctx.driver().ask_many(reqs, chunk=100)
    for r, (sig, want, flags, pre) in zip(out, keep):
        if "error_kind" in r:
            if r["error_kind"] == "unsupported":
                ctx.count("optdag:unsupported:" + r.get("why", "")[:40])
            else:     # the real optimiser returned a graph, the model says Python raises / the fuel bound is not enough
                ctx.count("optdag:MODEL-ERROR")
                ctx.tie_broken("correspondence:optdag", f"{sig}: the real optimiser returns a graph, the model answers {json.dumps(r)[:300]}")
            continue
        d = dagcap.first_difference(dagcap.canon(r["prog"]), want)
        if d is not None:
            ctx.count("optdag:DIFFERS")
            ctx.tie_broken("correspondence:optdag", f"{sig}: model output and real optimised graph differ structurally at {d[:500]}")
            continue
        if flags is not None and list(flags) != list(r["changed"]):
            ctx.count("optdag:PASS-FLAGS-DIFFER")
            ctx.tie_broken("correspondence:optdag", f"{sig}: `changed` per pass: real {list(flags)}, model {r['changed']}")
            continue
        ctx.count("optdag:structurally-equal")
        ctx.count(f"optdag:passes:{len(r['changed'])}")
        if any(n["origin"] and "app" in n["origin"] and n["origin"]["app"]["head"][0] in ("call_inplace", "updateitem") for n in pre["nodes"]):
            ctx.count("optdag:structurally-equal:with-inplace-nodes")
        if any(r["changed"]):
            ctx.count("optdag:structurally-equal:rewritten")
        # the decidable side conditions of `optimizeDag_sound` (Props/C05Dag.lean), computed by the driver for this run
        if r.get("good_run") and r.get("pure_lang"):
            ctx.count("optdag:covered-by-optimizeDag_sound(side conditions hold, node language of the evaluator)")
            if r.get("has_effects"):
                ctx.count("optdag:covered-by-optimizeDag_sound:with-inplace-nodes(opaque applications)")
        elif r.get("good_run"):
            ctx.count("optdag:outside-the-node-language(Assert, multi-output casts, nested graphs)")
        ctx.count("optdag:side-condition-of-pass_terminates(topological order, every pass):" + ("holds" if r.get("fuel_run") else "fails"))
        ctx.count("optdag:side-conditions-of-optimizeDag_sound:" + ("hold" if r.get("good_run") else
                  "fail:" + ("top-level-graph-inlined" if not r.get("no_top_inline") else "top-not-a-wellformed-graph" if not r.get("wf_top") else "later-pass")))
        # Props/C05Dag2.lean: the per-pass conditions follow from the INPUT graph (wfTop, topoOK) and noInlineRun -- the driver computes
        # both sides; a disagreement contradicts `goodRun_of_input` / `fuelRun_of_input` (model and theorem out of step)
        inp = bool(r.get("wf_top")) and bool(r.get("topo_ok")) and bool(r.get("no_inline_run"))
        ctx.count("optdag:in-the-domain-of-optimizeDag_sound_input(input conditions, noInlineRun, node language):" + ("yes" if r.get("in_domain") else "no"))
        if inp and not (r.get("good_run") and r.get("fuel_run")):
            ctx.tie_broken("correspondence:optdag", f"{sig}: input conditions hold but goodRun/fuelRun computed by the driver do not (goodRun_of_input contradicted)")
        # the measure: strictly decreasing in every pass that reports `changed` (pass_decreases_dag), pass bound (optimizeDag_pass_bound)
        w = r.get("weights") or []
        if r.get("measure_ok") and r.get("no_inline_run"):
            ctx.count("optdag:in-the-domain-of-optimizeDag_terminates_dag(topological, single-output, noInlineRun):yes")
            ok = len(w) == len(r["changed"]) + 1 and all((b < a) if ch else (b == a) for a, b, ch in zip(w, w[1:], r["changed"])) \
                and sum(1 for ch in r["changed"] if ch) + w[-1] <= w[0]
            if not ok:
                ctx.tie_broken("correspondence:optdag", f"{sig}: weights {w} with flags {r['changed']} contradict pass_decreases_dag / optimizeDag_pass_bound")
            ctx.count("optdag:measure:max-passes-allowed-minus-taken>=0:" + str(w[0] + 1 - len(r["changed"]) >= 0))
        else:
            ctx.count("optdag:in-the-domain-of-optimizeDag_terminates_dag(topological, single-output, noInlineRun):no:" +
                      ("multi-output-or-unordered" if not r.get("measure_ok") else "top-level-graph-inlined"))
        ctx.extra["optdag_structurally_equal"] = ctx.extra.get("optdag_structurally_equal", 0) + 1


def directed_exceptions(ctx):
    """T-str, error paths of the traversal: graphs on which the REAL optimiser raises (a pattern indexing a missing argument, reading
    the shape of a tensor without one, composing an out-of-range permutation; `_optimize` on a leaf it does not know).  The model must
    answer `Err.py` with the same exception class."""
    import types
    import einx._src.tracer as tracer
    if not ctx.driver_ok:
        return
    P = tracer.signature.python
    T = tracer.signature.classical.Tensor
    CT = tracer.signature.classical.ConvertibleTensor
    npm = P.import_("numpy", as_="np")
    pats = numpy_patterns()
    pj = dagcap.patterns_json(pats)

    def g_reshape_one_arg():     # (a second graph input: otherwise InlineGraph collapses the graph into `np.reshape` first)
        x = T(None, (2, 3))
        return tracer.Graph([x, T(None, ())], tracer.cast(P.call(npm.reshape, [x]), partial(T, shape=(6,))), name="op")

    def g_transpose_no_shape():
        x = CT(None, concrete=types.SimpleNamespace(type=float), shape=None)
        return tracer.Graph([x], tracer.cast(P.call(npm.transpose, [x, (1, 0)]), partial(T, shape=(3, 2))), name="op")

    def g_transpose_out_of_range():
        x = T(None, (2, 3))
        y = tracer.cast(P.call(npm.transpose, [x, (1, 0)]), partial(T, shape=(3, 2)))
        return tracer.Graph([x], tracer.cast(P.call(npm.transpose, [y, (0, 2)]), partial(T, shape=(3, 2))), name="op")

    def g_unknown_leaf():
        x = T(None, (2, 3))
        return tracer.Graph([x], tracer.cast(P.call(npm.sum, [x], {"dtype": object()}), partial(T, shape=())), name="op")

    def g_broadcast_one_arg():
        x = T(None, (2, 3))
        return tracer.Graph([x, T(None, ())], tracer.cast(P.call(npm.broadcast_to, [x]), partial(T, shape=(2, 3))), name="op")

    def g_concatenate_no_args():
        x = T(None, (2, 3))
        return tracer.Graph([x], tracer.cast(P.call(npm.concatenate, [], {"axis": 0}), partial(T, shape=(2, 3))), name="op")

    for build in (g_reshape_one_arg, g_transpose_no_shape, g_transpose_out_of_range, g_unknown_leaf, g_broadcast_one_arg, g_concatenate_no_args):
        g = build()
        gj, _ = graphcap.graph_to_json(g)
        try:
            tracer.optimize(g, pats)
            real = None
        except Exception as e:
            real = type(e).__name__
        try:
            pre = dagcap.to_dag(gj)
        except dagcap.Unsupported as e:
            ctx.count("optdag-exc:not-serialisable:" + str(e)[:40])
            continue
        r = ctx.driver().ask({"kind": "optdag", "prog": pre, "patterns": pj, "max_passes": len(pre["nodes"]) + 3})
        model = r.get("exc") if r.get("error_kind") == "py" else ("unsupported" if r.get("error_kind") == "unsupported" else None if "prog" in r else r.get("error_kind"))
        ctx.count("optdag-exc:cases")
        if model == "unsupported":
            ctx.count("optdag-exc:unsupported:" + r.get("why", "")[:40])
        elif model != real:
            ctx.tie_broken("correspondence:optdag", f"{build.__name__}: the real optimiser {'raises ' + real if real else 'returns a graph'}, the model {'raises ' + str(model) if model else 'returns a graph'}")
        else:
            ctx.count("optdag-exc:same:" + str(real))


# ------------------------------------------------------------------------------------------------ shrinking

def run_chain(spec, patterns):
    """Build the chain, snapshot it (JSON + evaluation on iota inputs), run the REAL optimiser, evaluate the result.
    -> dict(pre_json, post, run | None, too_many, diff)"""
    import einx._src.tracer as tracer
    g = build_chain(spec)
    args = iota_inputs(spec["inputs"])
    pre_json, _ = graphcap.graph_to_json(g)
    e1 = eval_graph(g, args)
    with grapheval.monitor_passes() as log:
        try:
            post = tracer.optimize(g, patterns)
        except grapheval.TooManyPasses as e:
            return {"pre_json": pre_json, "post": None, "run": None, "too_many": str(e), "diff": None}
    return {"pre_json": pre_json, "post": post, "run": (log.runs[-1] if log.runs else []), "too_many": None,
            "diff": compare_evals(e1, eval_graph(post, args))}


def chain_fails(spec, patterns):
    try:
        r = run_chain(spec, patterns)
    except Exception:      # Invalid description after shrinking, or an optimiser that raises
        return None
    if r["too_many"]:
        return {"what": "optimize() does not reach a fixed point: " + r["too_many"]}
    bad = pass_problem(r["run"])
    if bad:
        return {"what": bad[0], "pass_index": bad[1], "passes": r["run"]}
    d = r["diff"]
    if d is not None and "skip" in d:
        return None
    return d


def drop_step(spec, i):
    """Remove step i; consumers of its value read its (first) source instead."""
    n_in = len(spec["inputs"])
    vi = n_in + i
    st = spec["steps"][i]
    repl = st.get("src", st.get("srcs", [0])[0])

    def m(k):
        if k == vi:
            return repl
        return k - 1 if k > vi else k
    steps = []
    for j, s in enumerate(spec["steps"]):
        if j == i:
            continue
        s = dict(s)
        if "src" in s:
            s["src"] = m(s["src"])
        if "srcs" in s:
            s["srcs"] = [m(k) for k in s["srcs"]]
        steps.append(s)
    return {"inputs": spec["inputs"], "steps": steps, "outputs": [m(k) for k in spec["outputs"]]}


def drop_unused_inputs(spec):
    used = set(spec["outputs"])
    for st in spec["steps"]:
        used.update([st["src"]] if "src" in st else st["srcs"])
    out = []
    for i in range(len(spec["inputs"])):
        if i not in used and len(spec["inputs"]) > 1:
            m = lambda k: k - 1 if k > i else k
            steps = []
            for st in spec["steps"]:
                st = dict(st)
                if "src" in st:
                    st["src"] = m(st["src"])
                if "srcs" in st:
                    st["srcs"] = [m(k) for k in st["srcs"]]
                steps.append(st)
            out.append({"inputs": spec["inputs"][:i] + spec["inputs"][i + 1:], "steps": steps, "outputs": [m(k) for k in spec["outputs"]]})
    return out


def smaller_lengths(spec):
    """Replace every occurrence of one axis length by a smaller one (ill-typed results are discarded by the builder)."""
    vals = sorted({d for s in spec["inputs"] for d in s} | {d for st in spec["steps"] for d in st.get("shape", [])}, reverse=True)
    out = []
    for v in vals:
        for w in range(1, v):
            f = lambda l: [w if d == v else d for d in l]
            out.append({"inputs": [f(s) for s in spec["inputs"]], "steps": [dict(st, shape=f(st["shape"])) if "shape" in st else st for st in spec["steps"]],
                        "outputs": spec["outputs"]})
    return out


def shrink_chain(spec, patterns, budget=250):
    best = spec
    changed = True
    while changed and budget > 0:
        changed = False
        cands = []
        for i in reversed(range(len(best["steps"]))):
            cands.append(drop_step(best, i))
        if len(best["outputs"]) > 1:
            for k in range(len(best["outputs"])):
                cands.append(dict(best, outputs=best["outputs"][:k] + best["outputs"][k + 1:]))
        cands += drop_unused_inputs(best)
        cands += smaller_lengths(best)
        for c in cands:
            budget -= 1
            if budget <= 0:
                break
            if chain_fails(c, patterns):
                best = c
                changed = True
                break
    return best


def chain_sig(spec):
    def s(st):
        if "shape" in st:
            return f"{st['op']}(v{st['src']},{tuple(st['shape'])})"
        if "perm" in st:
            return f"{st['op']}(v{st['src']},{tuple(st['perm'])})"
        if st["op"] == "concatenate":
            return f"concatenate({['v%d' % k for k in st['srcs']]},axis={st['axis']})".replace("'", "")
        if "srcs" in st:
            return f"{st['op']}({','.join('v%d' % k for k in st['srcs'])})"
        return f"{st['op']}(v{st['src']})"
    return "chain:inputs=" + str([tuple(i) for i in spec["inputs"]]) + " " + "; ".join(s(st) for st in spec["steps"]) + " -> " + ",".join("v%d" % k for k in spec["outputs"])


# ------------------------------------------------------------------------------------------------ kernel correspondence (T-beh)

def kernel_correspondence(ctx, n):
    """The extracted kernels against the REAL pattern objects: build reshape/transpose/broadcast_to/concatenate nodes with the
    real tracer, apply the real pattern with the identity as `transform`, and compare the decision / the merged permutation."""
    import einx._src.tracer as tracer
    import einx._src.tracer.optimizer.classical as cl
    rng = ctx.rng
    npx = tracer.signature.numpy()
    npm = tracer.signature.python.import_("numpy", as_="np")
    T = tracer.signature.classical.Tensor
    ident = lambda v: v
    reqs, expect = [], []
    for _ in range(n):
        rank = rng.randint(0, 5)
        shape = [rng.choice([1, 2, 2, 3]) for _ in range(rank)]
        x = T(None, tuple(shape))
        k = rng.choice(["compose", "transpose", "reshape", "broadcast", "concat"])
        if k == "compose":
            p1 = list(range(rank)); rng.shuffle(p1)
            p2 = list(range(rank)); rng.shuffle(p2)
            if p2 == list(range(rank)) and rank > 1:
                p2 = p2[1:] + p2[:1]
            z = npx.transpose(npx.transpose(x, tuple(p1)), tuple(p2))
            changed, new = cl.SkipTranspose(npm.transpose)(z.origin.input, ident)
            got = None
            if changed and isinstance(new, tracer.Tracer) and isinstance(new.origin, tracer.signature.python.Call):
                got = [int(v) for v in new.origin.args[1]] if new.origin.args[0] is x else "merged node is not applied to the inner operand"
            if p2 == list(range(rank)):
                continue    # rank <= 1: the no-op rule fires first
            reqs.append({"kind": "kernel", "name": "composePerm", "perm1": p1, "perm2": p2})
            expect.append((f"SkipTranspose merge p1={p1} p2={p2}", got))
        elif k == "transpose":
            p = list(range(rank))
            if rng.random() < 0.6:
                rng.shuffle(p)
            z = npx.transpose(x, tuple(p))
            changed, new = cl.SkipTranspose(npm.transpose)(z.origin.input, ident)
            reqs.append({"kind": "kernel", "name": "transposeNoop", "perm": p, "ndim": rank})
            expect.append((f"SkipTranspose no-op test perm={p}", bool(changed and new is x)))
        elif k == "reshape":
            t = list(shape) if rng.random() < 0.4 else factorizations(prod(shape), rng)
            z = npx.reshape(x, tuple(t))
            changed, new = cl.SkipReshape(npm.reshape)(z.origin.input, ident)
            reqs.append({"kind": "kernel", "name": "reshapeNoop", "shape": t, "input_shape": shape})
            expect.append((f"SkipReshape no-op test {shape}->{t}", bool(changed and new is x)))
        elif k == "broadcast":
            t = list(shape) if rng.random() < 0.4 else [rng.choice([2, 3]) if d == 1 and rng.random() < 0.7 else d for d in shape]
            if rng.random() < 0.2:
                t = [1] + t
            z = npx.broadcast_to(x, tuple(t))
            changed, new = cl.SkipBroadcastTo(npm.broadcast_to)(z.origin.input, ident)
            reqs.append({"kind": "kernel", "name": "broadcastNoop", "shape": t, "input_shape": shape})
            expect.append((f"SkipBroadcastTo no-op test {shape}->{t}", bool(changed and new is x)))
        else:
            if rank == 0:
                continue
            m = rng.randint(1, 3)
            z = npx.concatenate([x] * m, axis=rng.randrange(rank))
            changed, new = cl.SkipConcatenate(npm.concatenate)(z.origin.input, ident)
            reqs.append({"kind": "kernel", "name": "concatNoop", "n": m})
            expect.append((f"SkipConcatenate no-op test with {m} operands", bool(changed and new is x)))
    out = ctx.driver().ask_many(reqs)
    bad = 0
    for r, (what, got) in zip(out, expect):
        ctx.count("kernel-cases")
        if r["r"] != got:
            bad += 1
            if bad <= 3:
                ctx.tie_broken("correspondence:extracted-kernel", f"{what}: real pattern gives {got}, Extracted gives {r['r']}")
    ctx.extra["kernel_cases"] = len(reqs)


# ------------------------------------------------------------------------------------------------ call stream

def call_sig(call, backend):
    return f"call:einx.{call['op']}({call['desc']!r}) shapes={[list(s) for s in call['shapes']]} kwargs={sorted((k, str(v)) for k, v in call['kwargs'].items())} backend={backend}"


def gen_update_call(rng):
    """Indexed updates (in-place nodes in the traced graph): the generator stream of lib.gen has no *_at family."""
    op = rng.choice(UPDATE_OPS)
    h = rng.choice([3, 4, 5])
    p = rng.choice([1, 2, 3])
    a = rng.choice([1, 2, 3])
    form = rng.choice(["flat", "batched", "grouped"])
    if form == "flat":
        desc, shapes = "[h], p, p -> [h]", [(h,), (p,), (p,)]
    elif form == "batched":
        desc, shapes = "a [h], a p, a p -> a [h]", [(a, h), (a, p), (a, p)]
    else:
        desc, shapes = "(a [h]), a p, p a -> (a [h])", [(a * h,), (a, p), (p, a)]
    tgt = np.arange(1, 1 + prod(shapes[0]), dtype=np.int64).reshape(shapes[0])
    idx = np.asarray([rng.randrange(h) for _ in range(prod(shapes[1]))], dtype=np.int64).reshape(shapes[1])
    if op == "set_at":    # distinct indices per row: any order of duplicate writes would be acceptable
        idx = np.asarray([rng.sample(range(h), min(p, h)) + [0] * max(0, p - h) for _ in range(prod(shapes[1]) // p)], dtype=np.int64)
        if p > h:
            return gen_update_call(rng)
        idx = idx.reshape(shapes[1])
    upd = np.arange(100, 100 + prod(shapes[2]), dtype=np.int64).reshape(shapes[2])
    call = {"op": op, "family": "update", "desc": desc, "shapes": shapes, "kwargs": {}, "note": ["inplace"]}
    return call, [tgt, idx, upd]


@contextlib.contextmanager
def pre_snapshot(holder):
    """Wrap `tracer.optimize` (below graphcap's own wrapper) so that the graph is serialised and evaluated BEFORE the optimiser runs."""
    import einx._src.tracer as tracer
    orig = tracer.optimize
    snaps = []

    def optimize(graph, *a, **k):
        snap = {"json": graphcap.graph_to_json(graph)[0]}
        try:
            snap["eval"] = eval_graph(graph, holder["args"])
        except grapheval.EvalError as e:
            snap["eval"] = ("unsupported", str(e))
        except Exception as e:     # e.g. a graph whose inputs are not the call's tensor arguments
            snap["eval"] = ("unsupported", f"{type(e).__name__}: {e}")
        snaps.append(snap)
        return orig(graph, *a, **k)
    tracer.optimize = optimize
    try:
        yield snaps
    finally:
        tracer.optimize = orig


def stream(ctx, n_calls, n_updates):
    rng = ctx.rng
    items = []
    for i in range(n_calls + n_updates):
        if i < n_calls:
            call = gen.gen_call(rng)
            args = gen.make_args(call, rng, "iota" if rng.random() < 0.8 else "rand")
            backend = rng.choice(BACKENDS)
        else:
            call, args = gen_update_call(rng)
            backend = rng.choice([None, "numpy"])
        sig = call_sig(call, backend)
        import einx
        with grapheval.monitor_passes() as log, pre_snapshot({"args": args}) as snaps:
            try:
                res, rec = oracle.run_captured(call, [np.array(a, copy=True) for a in args], backend=backend)
            except grapheval.TooManyPasses as e:
                ctx.violation("termination:" + sig, {"kind": "optimize() does not reach a fixed point", "detail": str(e), "call": {k: call[k] for k in ("op", "desc", "kwargs")},
                                                      "shapes": [list(s) for s in call["shapes"]], "backend": backend})
                ctx.count("status:too-many-passes")
                continue
            except einx.errors.OperationNotSupportedError:
                ctx.count("status:not-supported")
                continue
            except Exception as e:
                ctx.count("status:raised:" + type(e).__name__)
                continue
        if rec is None or rec.get("pre") is None or not snaps:
            ctx.count("status:no-capture")
            continue
        replay = {"call": {k: call[k] for k in ("op", "desc", "kwargs")}, "shapes": [list(s) for s in call["shapes"]], "backend": backend,
                  "inputs": [np.asarray(a).tolist() for a in args]}
        pre, post = rec["pre"], rec["post"]
        dag, tree, kinds = grapheval.measures(pre)
        for run in log.runs:
            check_passes(ctx, run, sig, replay)
        changed = any(p["changed"] for run in log.runs for p in run)
        snap = snaps[-1]
        if snap["eval"][0] == "unsupported":
            ctx.count("status:evaluator-unsupported:" + snap["eval"][1][:40])
            d = {"skip": snap["eval"][1]}
        else:
            try:
                d = compare_evals(snap["eval"], eval_graph(post, args))
            except grapheval.EvalError as e:
                ctx.count("status:evaluator-unsupported:" + str(e)[:40])
                d = {"skip": str(e)}
        if d is not None and "skip" not in d:
            ctx.violation(sig, dict(replay, kind="optimised graph differs from the unoptimised graph", **d, code=rec.get("code")))
            ctx.count("status:DIFF")
        else:
            ctx.count("status:ok" if d is None else "status:skipped")
        ctx.count("family:" + call["family"])
        ctx.count("optimiser:" + ("rewrote" if changed else "left-unchanged"))
        if "CallInplace" in kinds or "UpdateItem" in kinds:
            ctx.count("graphs-with-inplace-nodes")
        ctx.case(sig, nontrivial=changed)
        items.append((snap["json"], post, sig, replay, [p["changed"] for p in log.runs[-1]] if log.runs else None))
        if len(ctx.samples) < 3 and changed:
            ctx.sample({"call": sig, "nodes_before": dag, "passes": [[p["changed"], p["tree_in"], p["tree_out"]] for run in log.runs for p in run], "code": rec.get("code")})
        if len(items) >= 200:
            lean_equiv(ctx, items)
            lean_optdag(ctx, items)
            items = []
        if len(ctx.violations) >= 5:
            break
    lean_equiv(ctx, items)
    lean_optdag(ctx, items)


def adapter_checks_preserved(ctx):
    """The run-time checks that tracing inserts after a user function (isinstance / shape asserts of the adapters) are part of
    what the graph computes: for inputs on which they fail, the optimised graph must fail as well.  Adapted functions that
    misbehave are called through descriptions of every alignment (inputs already laid out like the output, transposed,
    reshaped) with optimisation switched off (tracer.optimize replaced by the identity) and on; the outcomes must agree."""
    import einx
    import einx._src.tracer as T
    x = np.arange(6.).reshape(2, 3)
    y = np.arange(6.).reshape(2, 3) + 10
    bad = {"wrong_shape": lambda a, b: (a + b)[:1], "returns_list": lambda a, b: (a + b).tolist(), "returns_scalar": lambda a, b: 1.5,
           "well_behaved": lambda a, b: a + b}
    bad_r = {"wrong_shape": lambda t, axis=None: np.sum(t, axis=axis)[..., None], "returns_list": lambda t, axis=None: np.sum(t, axis=axis).tolist(),
             "well_behaved": lambda t, axis=None: np.sum(t, axis=axis)}
    cases = []
    for name, f in bad.items():
        for desc, args in (("a b, a b -> a b", (x, y)), ("a b, a b", (x, y)), ("a b, b a -> a b", (x, y.T.copy())), ("a, a -> a", (x[0], y[0])), ("(a b), a b -> a b", (x.reshape(6), y))):
            cases.append(("elementwise", name, f, desc, args))
    for name, f in bad_r.items():
        for desc, args in (("a [b]", (x,)), ("[a] b -> b", (x,)), ("a b -> a b", (x,))):
            cases.append(("reduce", name, f, desc, args))

    def outcome(kind, f, desc, args):
        try:
            op = (einx.numpy.adapt_numpylike_elementwise if kind == "elementwise" else einx.numpy.adapt_numpylike_reduce)(f)
            r = op(desc, *[np.array(a) for a in args])
            return ("value", np.asarray(r).shape, np.asarray(r, dtype=np.float64).round(6).tolist())
        except Exception as e:
            return ("raises",)
    orig = T.optimize
    for kind, name, f, desc, args in cases:
        # distinct function objects with the plain signature of the wrapped one: separate adapters and caches
        mkf = (lambda g: (lambda a, b: g(a, b))) if kind == "elementwise" else (lambda g: (lambda t, axis=None: g(t, axis=axis)))
        f_off, f_on = mkf(f), mkf(f)
        T.optimize = lambda graph, *a, **k: graph
        try:
            off = outcome(kind, f_off, desc, args)
        finally:
            T.optimize = orig
        on = outcome(kind, f_on, desc, args)
        ctx.count("adapter-checks:" + ("agree" if on == off else "DIFFER"))
        ctx.case(f"adapter-checks:{kind}:{name}:{desc}", True)
        if on != off:
            ctx.violation(f"adapter-checks: adapt_numpylike_{kind}({name}) {desc!r} shapes={[list(np.shape(a)) for a in args]}: unoptimised {off[0]}, optimised {on[0]}",
                          {"kind": "the optimised graph does not behave like the traced graph (run-time checks after a user function)", "adapter": kind,
                           "function": name, "description": desc, "unoptimised": list(off[:2]), "optimised": list(on[:2]),
                           "how": "tracer.optimize replaced by the identity vs. the real optimiser, same call"})
            return


def synthetic(ctx, specs, label):
    patterns = numpy_patterns()
    items = []
    for spec in specs:
        try:
            r = run_chain(spec, patterns)
        except Invalid:
            ctx.count("synthetic:invalid-spec")
            continue
        except grapheval.EvalError as e:
            raise core.MachineryError(f"evaluator cannot run a synthetic chain: {e}: {chain_sig(spec)}")
        sig = chain_sig(spec)
        replay = {"chain": spec}
        if r["too_many"] or pass_problem(r["run"]):
            small = shrink_chain(spec, patterns)
            d2 = chain_fails(small, patterns) or {"what": r["too_many"] or pass_problem(r["run"])[0]}
            ctx.violation("termination:" + chain_sig(small), {"kind": d2.pop("what"), "chain": small, "original_chain": spec, **d2})
            ctx.count(f"{label}:TERMINATION")
            if len(ctx.violations) >= 5:
                break
            continue
        run = r["run"]
        check_passes(ctx, run, sig, replay)
        changed = any(p["changed"] for p in run)
        d = r["diff"]
        if d is not None and "skip" not in d:
            small = shrink_chain(spec, patterns)
            d2 = chain_fails(small, patterns) or d
            ctx.violation(chain_sig(small), {"kind": "optimised graph differs from the unoptimised graph", "chain": small, "original_chain": spec, **d2})
            ctx.count(f"{label}:DIFF")
        else:
            ctx.count(f"{label}:ok")
        ctx.count(f"{label}:" + ("rewrote" if changed else "left-unchanged"))
        shared = len(spec["outputs"]) > 1 or any(
            sum(1 for st in spec["steps"] for k in ([st["src"]] if "src" in st else st["srcs"]) if k == v) + spec["outputs"].count(v) > 1
            for v in range(len(spec["inputs"]) + len(spec["steps"])))
        if shared:
            ctx.count(f"{label}:with-multi-consumer-value")
        ctx.case(sig, nontrivial=changed)
        if len(ctx.samples) < 6 and changed and shared:
            ctx.sample({"chain": sig, "passes": [[p["changed"], p["tree_in"], p["tree_out"]] for p in run]})
        items.append((r["pre_json"], r["post"], sig, replay, [p["changed"] for p in run]))
        if len(items) >= 300:
            lean_equiv(ctx, items)
            lean_optdag(ctx, items)
            items = []
        if len(ctx.violations) >= 5:
            break
    lean_equiv(ctx, items)
    lean_optdag(ctx, items)


def run(ctx):
    rng = ctx.rng
    ctx.extra["rule"] = ("(1) generated einx calls of every family of lib.gen plus indexed updates (in-place nodes) on the numpy backends: the real graph before and after the real "
                         "tracer.optimize; (2) synthetic chains of reshape/transpose/broadcast_to/concatenate/identity-cast/add/wrapped-add built with the real tracer, values consumed by "
                         "several nodes and intermediate values that are also outputs, optimised with the numpy backend's pattern list; thorough: every pair of permutations up to rank 4 "
                         "(rank 5 sampled), every pair of equal-count shapes and every broadcastable pair with <= 4 dims over {1,2,3}.  Each pair is evaluated node by node on iota inputs "
                         "(outputs and final input contents compared) and, when the IR supports all its primitives, proved equal symbolically in Lean.  non-trivial = the optimiser rewrote the graph; "
                         "distinct by call signature / chain description")
    ctx.assumptions.append("numpy primitive plans in IR/Prim.lean describe numpy (conformance-tested by C01 on every run)")
    ctx.assumptions.append("graph -> straight-line program translation of Driver/IR.lean (a Cast is the identity on values; its traced shape is checked against the computed shape)")
    ctx.assumptions.append("`isinstance` guards of the no-op tests are true for the argument types the tracer produces: " + ", ".join(ctx.facts.get("Kernels", {}).get("isinstance_guards_assumed_true", [])))
    quick = ctx.quick
    n_calls = 260 if quick else 5000
    n_updates = 25 if quick else 300
    n_chains = 450 if quick else 12000
    n_kernel = 150 if quick else 3000
    if ctx.broken:
        n_calls, n_chains = n_calls * 3, n_chains * 4
    if ctx.driver_ok:
        kernel_correspondence(ctx, n_kernel)
        directed_exceptions(ctx)
    # targeted chains first: the shapes of change the property names (composition order, multi-consumer operand)
    targeted = []
    for shape in ([2, 2, 2], [2, 3, 4], [2, 2, 3, 3]):
        perms = [list(p) for p in itertools.permutations(range(len(shape)))]
        for _ in range(12 if quick else 60):
            p1, p2 = rng.choice(perms), rng.choice(perms)
            steps = [{"op": "transpose", "src": 0, "perm": p1}, {"op": "transpose", "src": 1, "perm": p2}]
            targeted.append({"inputs": [shape], "steps": steps, "outputs": [2]})
            targeted.append({"inputs": [shape], "steps": steps, "outputs": [2, 1]})          # the intermediate value is also an output
            if len(set(shape)) == 1:
                targeted.append({"inputs": [shape], "steps": steps + [{"op": "add", "srcs": [1, 2]}], "outputs": [3]})   # ... or has a second consumer
    synthetic(ctx, targeted, "targeted")
    if len(ctx.violations) < 5:
        synthetic(ctx, [gen_chain(rng) for _ in range(n_chains)], "random-chain")
    if not quick and len(ctx.violations) < 5:
        synthetic(ctx, exhaustive_specs(rng), "exhaustive")
    if len(ctx.violations) < 5:
        adapter_checks_preserved(ctx)
        stream(ctx, n_calls, n_updates)
    ctx.extra["traces_validated_against_impl"] = ctx.extra.get("graph_pairs_proved_equal", 0)


def replay(ctx, path):
    with open(path) as f:
        r = json.load(f)["replay"]
    if "chain" in r:
        spec = r["chain"]
        r = run_chain(spec, numpy_patterns())
        print("chain:", chain_sig(spec))
        print("passes:", r["run"], r["too_many"] or "")
        print("difference now:", r["diff"])
        return 0
    if "call" in r:
        call = dict(r["call"], shapes=[tuple(s) for s in r["shapes"]], family="?", note=[])
        args = [np.asarray(a) for a in r["inputs"]]
        with grapheval.monitor_passes() as log, pre_snapshot({"args": args}) as snaps:
            res, rec = oracle.run_captured(call, [np.array(a, copy=True) for a in args], backend=r.get("backend"))
        print("passes:", log.runs)
        print("difference now:", compare_evals(snaps[-1]["eval"], eval_graph(rec["post"], args)))
        print(rec.get("code"))
        return 0
    print(json.dumps(r, indent=1)[:3000])
    return 0
