"""C17 — generated code is loop-free and size-generic (cost independent of tensor sizes).

Proof: Props/C17.lean.  `grammar_loop_free` (a block of the restricted statement grammar performs, in every
environment, exactly its syntactic number of calls), `cost_skeleton_invariant`, `skeleton_idempotent`,
`skeleton_only_ints`, `stb_size_generic` (the model of `_squeeze_transpose_broadcast` emits programs whose
skeleton depends only on the axis names and on which lengths are 1), `lowerId_size_generic_partial`,
`extracted_size_decisions_allowed` (every size-dependent decision / iteration found in the lowering modules
of /repo is of an allowed form), `extracted_node_kinds_straight_line`.

Ties.  T-str (grammar): the text einx emits for every call of the shared generator stream (all families,
the numpy backends) is parsed with Python's `ast`, rendered to JSON and decoded by the Lean driver into the
restricted grammar; a node outside the grammar is a violation with the call as replay.  T-str (stb): for
`einx.id` calls the model's `Instr` program is compared with the translation of the real traced graph
(before optimisation).  T-src: Extracted/Generic.lean.

Search oracle (independent of Lean; Python's `ast` only): for each description several size assignments
with the same 1-pattern (non-unit lengths scaled by 2, 3, 7; rotated among the non-unit axes; all equal;
pairwise distinct; large) must give texts with equal skeletons (ast dump with every integer constant, and
every digit run of an assert message, replaced by a hole) and equal numbers of Call nodes; no emitted text
may contain For/While/If/IfExp/comprehensions/Lambda/Try/With.  Tensors are zero-stride stand-ins and
only `graph=True` is used, so large lengths allocate nothing.
"""
import ast
import json
import os
import re

import numpy as np

from lib import core, gen, graphcap
from props import xlate_tie

EXTRACTORS = ["Generic", "Stb"]
# Props/C17Xlate.lean: the hand model of `_squeeze_transpose_broadcast` and of the numpy wrappers equals the Lean definitions
# that tools/extract/stb.py translates from /repo's source on every run (built and audited with C17)
EXTRA_PROPS = ["C17Lower", "C17Xlate", "C17LowerOps"]
BACKENDS = ["numpy", "numpy.numpylike", "numpy.einsum"]
FORBIDDEN = (ast.For, ast.AsyncFor, ast.While, ast.If, ast.IfExp, ast.ListComp, ast.SetComp, ast.DictComp, ast.GeneratorExp,
             ast.Lambda, ast.Try, ast.With, ast.AsyncWith, ast.Match, ast.BoolOp, ast.NamedExpr, ast.Await, ast.Yield, ast.YieldFrom,
             ast.ClassDef, ast.AsyncFunctionDef, ast.Starred, ast.Delete, ast.Global, ast.Nonlocal, ast.Raise) + ((ast.TryStar,) if hasattr(ast, "TryStar") else ())
ALLOWED_STMTS = (ast.Import, ast.ImportFrom, ast.FunctionDef, ast.Assign, ast.AugAssign, ast.Expr, ast.Assert, ast.Return)


# ---------------------------------------------------------------- ast -> JSON (for the Lean decoder)

def ast_json(node):
    if isinstance(node, ast.Constant):
        v = node.value
        if isinstance(v, bool):
            return {"_": "Constant", "t": "bool", "v": v}
        if isinstance(v, int):
            return {"_": "Constant", "t": "int", "v": v}
        if isinstance(v, float):
            return {"_": "Constant", "t": "float", "v": repr(v)}
        if isinstance(v, str):
            return {"_": "Constant", "t": "str", "v": v}
        if v is None:
            return {"_": "Constant", "t": "none"}
        if v is Ellipsis:
            return {"_": "Constant", "t": "ellipsis"}
        return {"_": "Constant", "t": type(v).__name__}
    if isinstance(node, ast.AST):
        d = {"_": type(node).__name__}
        for k, v in ast.iter_fields(node):
            if k in ("ctx", "type_comment", "type_ignores", "type_params", "kind"):
                continue
            d[k] = ast_json(v)
        return d
    if isinstance(node, list):
        return [ast_json(x) for x in node]
    if node is None or isinstance(node, (str, int, bool)):
        return node
    raise core.MachineryError(f"ast_json: unexpected field value {node!r}")


# ---------------------------------------------------------------- the independent oracle on texts

_DIGITS = re.compile(r"[0-9]+")


class _Holes(ast.NodeTransformer):
    def visit_Constant(self, node):
        if isinstance(node.value, int) and not isinstance(node.value, bool):
            return ast.copy_location(ast.Name(id="__HOLE__", ctx=ast.Load()), node)
        return node

    def visit_Assert(self, node):
        self.generic_visit(node)
        if isinstance(node.msg, ast.Constant) and isinstance(node.msg.value, str):
            node.msg = ast.Constant(value=_DIGITS.sub("#", node.msg.value))
        return node


def py_skeleton(text):
    """ast dump of the text with every integer literal (and every digit run of an assert message) replaced
    by a hole; variable names are compared as emitted."""
    tree = ast.parse(text)
    tree = _Holes().visit(tree)
    return ast.dump(tree, annotate_fields=True, include_attributes=False)


def py_calls(text):
    return sum(1 for n in ast.walk(ast.parse(text)) if isinstance(n, ast.Call))


def py_forbidden(text):
    """Names of node kinds that the restricted grammar does not have (empty list = fine)."""
    bad = []
    tree = ast.parse(text)
    for n in ast.walk(tree):
        if isinstance(n, FORBIDDEN):
            bad.append(type(n).__name__)
        elif isinstance(n, ast.stmt) and not isinstance(n, ALLOWED_STMTS):
            bad.append(type(n).__name__)
        elif isinstance(n, ast.Compare) and len(n.ops) != 1:
            bad.append("Compare(chained)")
        elif isinstance(n, ast.Expr) and not isinstance(n.value, ast.Call):
            bad.append("Expr(non-call)")
    return sorted(set(bad))


# ---------------------------------------------------------------- calls with re-assignable axis lengths

def standin(shape, integer=False):
    """A zero-stride array of the given shape: no memory proportional to the shape is allocated."""
    return np.broadcast_to(np.zeros((), dtype=np.int64 if integer else np.float64), tuple(int(s) for s in shape))


def _tokens(desc):
    return set(re.findall(r"[A-Za-z_][A-Za-z_0-9]*", desc))


_ANON = re.compile(r"(?<![A-Za-z_0-9\)\]])\.\.\.")


def _factory(shape):
    return np.ones(shape)


class SizedCall:
    """A generated call together with the lengths of its named axes, so that the lengths can be re-assigned.

    axes: {class key: length}; a class key is an axis name (scalar axis) or (name, index tuple) for one
    member of an ellipsis axis.  Numbers written in the description are not axes and never change."""

    def __init__(self, op, family, desc, backend, axes, ell, size_kw, other_kw, n_inputs, int_inputs=(), factories=(), note=()):
        self.op, self.family, self.desc, self.backend = op, family, desc, backend
        self.axes, self.ell = dict(axes), dict(ell)
        self.size_kw = list(size_kw)          # names of the keyword arguments that carry an axis length
        self.other_kw = dict(other_kw)
        self.n_inputs = n_inputs
        self.int_inputs = set(int_inputs)
        self.factories = set(factories)
        self.note = list(note)
        self.in_desc = _ANON.sub("anon_...", self.desc.split("->")[0])

    @classmethod
    def from_call(cls, call, backend):
        import einx
        desc = call["desc"]
        toks = _tokens(desc)
        kw = call["kwargs"]
        size_kw = {k: int(v) for k, v in kw.items() if k in toks and isinstance(v, (int, np.integer)) and not isinstance(v, bool)}
        other_kw = {k: v for k, v in kw.items() if k not in size_kw}
        in_desc = _ANON.sub("anon_...", desc.split("->")[0])
        in_toks = _tokens(in_desc)
        factories = set(call.get("factories", ()))
        ins = [None if i in factories else standin(s) for i, s in enumerate(call["shapes"])]
        solved = einx.solve_axes(in_desc, *ins, **{k: v for k, v in size_kw.items() if k in in_toks})
        axes, ell = {}, {}
        for name, v in solved.items():
            if isinstance(v, np.ndarray):
                if name in size_kw:               # given as one scalar for all members: one class
                    axes[name] = int(size_kw[name])
                    ell[name] = ("scalar", v.shape)
                else:
                    ell[name] = ("array", v.shape)
                    for idx in np.ndindex(*v.shape):
                        axes[(name, idx)] = int(v[idx])
            else:
                axes[name] = int(v)
        for k, v in size_kw.items():
            if k not in axes and k not in ell:
                axes[k] = int(v)                  # output-only axis (broadcast)
        int_inputs = (set(range(1, len(call["shapes"]))) if call["family"] == "get_at"
                      else set(range(1, len(call["shapes"]) - 1)) if call["family"] == "update_at" else set())
        return cls(call["op"], call["family"], desc, backend, axes, ell, list(size_kw), other_kw, len(call["shapes"]), int_inputs, factories, call.get("note", ()))

    def keys(self):
        return sorted(self.axes, key=str)

    def shapes(self, assign):
        import einx
        params = {}
        for name, (mode, shp) in self.ell.items():
            if mode == "scalar":
                params[name] = np.full(shp, assign[name], dtype=np.int64)
            else:
                a = np.zeros(shp, dtype=np.int64)
                for idx in np.ndindex(*shp):
                    a[idx] = assign[(name, idx)]
                params[name] = a
        in_toks = _tokens(self.in_desc)
        for k, v in assign.items():
            if isinstance(k, str) and k not in self.ell and k in in_toks:
                params[k] = int(v)
        return tuple(tuple(int(x) for x in s) for s in einx.solve_shapes(self.in_desc, *[None] * self.n_inputs, **params))

    def kwargs(self, assign):
        kw = dict(self.other_kw)
        for k in self.size_kw:
            kw[k] = int(assign[k])
        return kw

    def args(self, assign):
        shapes = self.shapes(assign)
        return [(_factory if i in self.factories else standin(s, integer=(i in self.int_inputs))) for i, s in enumerate(shapes)]

    def text(self, assign):
        """The text einx emits for this call under the given axis lengths (graph=True; nothing is executed)."""
        import einx
        kw = self.kwargs(assign)
        if self.backend is not None:
            kw["backend"] = self.backend
        out = getattr(einx, self.op)(self.desc, *self.args(assign), graph=True, **kw)
        return out if isinstance(out, str) else str(out)

    def replay(self, assign):
        return {"op": self.op, "desc": self.desc, "backend": self.backend, "shapes": [list(s) for s in self.shapes(assign)],
                "kwargs": {k: (v if isinstance(v, (int, float, str, bool)) else repr(v)) for k, v in self.kwargs(assign).items()},
                "int_inputs": sorted(self.int_inputs), "factories": sorted(self.factories), "axes": {str(k): v for k, v in assign.items()}}

    def without_axis(self, name):
        """The same call with every occurrence of the (scalar, named) axis removed from the description, or None."""
        if name not in self.axes or not isinstance(name, str) or name in self.ell:
            return None
        rx = re.compile(r"\[\s*" + re.escape(name) + r"\s*\]|(?<![A-Za-z_0-9.])" + re.escape(name) + r"(?![A-Za-z_0-9.])")
        desc = rx.sub(" ", self.desc)
        desc = re.sub(r"\(\s*\)", " ", desc)
        desc = re.sub(r"[ ]+", " ", desc).strip()
        if desc.count(",") != self.desc.count(",") or desc.count("->") != self.desc.count("->"):
            return None
        axes = {k: v for k, v in self.axes.items() if k != name}
        return SizedCall(self.op, self.family, desc, self.backend, axes, self.ell, [k for k in self.size_kw if k != name], self.other_kw,
                         self.n_inputs, self.int_inputs, self.factories, self.note)


def pattern(assign):
    return tuple(sorted((str(k), v == 1) for k, v in assign.items()))


def variants(sc, rng, thorough=False):
    """Size assignments with the same 1-pattern as the base assignment: [(label, assignment)]."""
    base = dict(sc.axes)
    keys = sc.keys()
    non = [k for k in keys if base[k] != 1]
    out = []
    for f in (2, 3, 7):
        out.append((f"x{f}", {k: (v if v == 1 else v * f) for k, v in base.items()}))
    if len(non) >= 2:
        vals = [base[k] for k in non]
        rot = vals[1:] + vals[:1]
        a = dict(base)
        a.update(dict(zip(non, rot)))
        out.append(("rotated", a))
    out.append(("all-two", {k: (1 if v == 1 else 2) for k, v in base.items()}))
    eq = rng.choice([3, 4, 5])
    out.append(("all-equal", {k: (1 if v == 1 else eq) for k, v in base.items()}))
    pool = [2, 3, 4, 5, 6, 7, 9, 10, 11, 13]
    rng.shuffle(pool)
    out.append(("distinct", {k: (1 if base[k] == 1 else pool[non.index(k) % len(pool)] + 10 * (non.index(k) // len(pool))) for k in keys}))
    # large: keep the element counts below 2**31
    n = max(1, len(non))
    big = max(2, min(1200, int((2 ** 31 - 1) ** (1.0 / n)) - 1))
    out.append(("large", {k: (1 if base[k] == 1 else big - 3 * i) for i, k in enumerate(keys)}))
    for j in range(3 if thorough else 1):
        out.append((f"random{j}", {k: (1 if v == 1 else rng.randint(2, 9)) for k, v in base.items()}))
    return out


def sig_pair(sc, a, b):
    return (f"size-generic:einx.{sc.op}({sc.desc!r}) backend={sc.backend} kwargs={sorted((k, str(v)) for k, v in sc.other_kw.items())} "
            f"A={sorted((str(k), v) for k, v in a.items())} B={sorted((str(k), v) for k, v in b.items())}")


# ---------------------------------------------------------------- comparison of two assignments

class Emitted:
    """One emitted text with the oracle's view of it."""

    def __init__(self, text):
        self.text = text
        self.skeleton = py_skeleton(text)
        self.calls = py_calls(text)
        self.forbidden = py_forbidden(text)


def differs(e1, e2):
    if e1.skeleton != e2.skeleton:
        return "skeletons differ"
    if e1.calls != e2.calls:
        return f"numbers of calls differ ({e1.calls} vs {e2.calls})"
    return None


def emit(sc, assign):
    try:
        return Emitted(sc.text(assign))
    except Exception:
        return None


def shrink(sc, a, b, budget=60):
    """Smaller witness of `skeleton(a) != skeleton(b)` (same 1-pattern): fewer axes, fewer differing lengths, smaller lengths."""
    def bad(sc_, a_, b_):
        if pattern(a_) != pattern(b_):
            return False
        e1, e2 = emit(sc_, a_), emit(sc_, b_)
        return e1 is not None and e2 is not None and differs(e1, e2) is not None
    steps = 0
    progress = True
    while progress and steps < budget:
        progress = False
        for name in [k for k in sc.keys() if isinstance(k, str)]:
            steps += 1
            sc2 = sc.without_axis(name)
            if sc2 is None:
                continue
            a2 = {k: v for k, v in a.items() if k != name}
            b2 = {k: v for k, v in b.items() if k != name}
            try:
                if bad(sc2, a2, b2):
                    sc, a, b, progress = sc2, a2, b2, True
                    break
            except Exception:
                continue
    for k in sc.keys():
        if a[k] != b[k] and steps < budget:
            steps += 1
            b2 = dict(b)
            b2[k] = a[k]
            if bad(sc, a, b2):
                b = b2
    for k in sc.keys():
        for cand in (2, 3, 4, 5):
            if steps >= budget:
                break
            for which in (0, 1):
                cur = (a, b)[which]
                if cur[k] != 1 and cand < cur[k]:
                    steps += 1
                    n = dict(cur)
                    n[k] = cand
                    a2, b2 = (n, b) if which == 0 else (a, n)
                    if bad(sc, a2, b2):
                        a, b = a2, b2
    return sc, a, b


# ---------------------------------------------------------------- the stream

EXTRA_CALLS = [
    {"op": "add", "family": "elementwise", "desc": "a b, b -> a b", "shapes": [(3, 4), (4,)], "kwargs": {}, "factories": [1], "note": ["factory"]},
    {"op": "multiply", "family": "elementwise", "desc": "a b, c -> a b c", "shapes": [(3, 4), (5,)], "kwargs": {"c": 5}, "factories": [1], "note": ["factory"]},
    {"op": "dot", "family": "dot", "desc": "a [b], [b] c -> a c", "shapes": [(3, 4), (4, 5)], "kwargs": {"c": 5}, "factories": [1], "note": ["factory"]},
    {"op": "id", "family": "id", "desc": "a b, c -> (a + c) b", "shapes": [(3, 4), (2,)], "kwargs": {}, "note": ["concat", "broadcast"]},
    {"op": "id", "family": "id", "desc": "a b c -> (a b) c, c", "shapes": [(3, 4, 5)], "kwargs": {}, "note": ["two-outputs"]} if False else
    {"op": "id", "family": "id", "desc": "a b c -> c (b a)", "shapes": [(3, 1, 5)], "kwargs": {}, "note": ["unit"]},
    {"op": "sum", "family": "reduce", "desc": "a [b c] d", "shapes": [(3, 4, 5, 6)], "kwargs": {}, "note": []},
    {"op": "get_at", "family": "get_at", "desc": "b [h w] c, b p [2] -> b p c", "shapes": [(2, 5, 6, 3), (2, 7, 2)], "kwargs": {}, "note": ["coords"]},
    {"op": "argmax", "family": "argfind", "desc": "a [b c] -> a [2]", "shapes": [(4, 5, 6)], "kwargs": {}, "note": []},
    {"op": "argmax", "family": "argfind", "desc": "[a] b [c] -> [2] b", "shapes": [(4, 5, 6)], "kwargs": {}, "note": ["non-contiguous"]},
    {"op": "softmax", "family": "preserve_shape", "desc": "a [b] c", "shapes": [(4, 5, 6)], "kwargs": {}, "note": []},
    {"op": "logsumexp", "family": "reduce", "desc": "a [b] c", "shapes": [(4, 5, 6)], "kwargs": {}, "note": []},
    {"op": "roll", "family": "preserve_shape", "desc": "a [b] c", "shapes": [(4, 5, 6)], "kwargs": {"shift": 2}, "note": []},
    {"op": "flip", "family": "preserve_shape", "desc": "a [b] c", "shapes": [(4, 5, 6)], "kwargs": {}, "note": []},
    # indexed updates: the intermediate axis order (_join_exprs) must not depend on axis lengths
    {"op": "add_at", "family": "update_at", "desc": "[h] c, p, c p -> [h] c", "shapes": [(5, 3), (2,), (3, 2)], "kwargs": {}, "note": ["update", "tie"]},
    {"op": "set_at", "family": "update_at", "desc": "[h] c, p, p c -> [h] c", "shapes": [(5, 3), (4,), (4, 3)], "kwargs": {}, "note": ["update"]},
    {"op": "subtract_at", "family": "update_at", "desc": "b [h w] c, b p [2], p c b -> b [h w] c", "shapes": [(2, 5, 6, 3), (2, 4, 2), (4, 3, 2)], "kwargs": {}, "note": ["update", "coords"]},
    {"op": "add_at", "family": "update_at", "desc": "[h], p q, q p -> [h]", "shapes": [(7,), (2, 3), (3, 2)], "kwargs": {}, "note": ["update", "tie"]},
]


_WORK = []      # (SizedCall, assignments) per description; read by the forked emission workers


def _emit_worker(idx):
    """Emission of all texts of one description (the expensive part: one full trace per size assignment), in a worker
    process.  -> (backend used, [(label, assignment, text | None, exception class name | None)])"""
    sc, assigns = _WORK[idx]
    for attempt in (0, 1):
        out = []
        for label, a in assigns:
            try:
                out.append((label, a, sc.text(a), None))
            except Exception as ex:
                out.append((label, a, None, type(ex).__name__))
                if label == "base":
                    break
        if out and out[0][2] is None and sc.backend != "numpy" and attempt == 0:
            first_err = out[0][3]
            sc.backend = "numpy"       # the chosen backend does not implement the operation: same description on numpy
            continue
        break
    return sc.backend, out, (first_err if attempt == 1 else None)


def check_description(ctx, sc, thorough, pre=None):
    """All size assignments of one description: grammar (T-str, Lean and Python) and size-genericity (oracle).  `pre` =
    texts already emitted by a worker process for exactly these assignments."""
    rng = ctx.rng
    base = dict(sc.axes)
    if pre is None:
        assigns = [("base", base)] + variants(sc, rng, thorough)
        pre = []
        for label, a in assigns:
            try:
                pre.append((label, a, sc.text(a), None))
            except Exception as ex:
                pre.append((label, a, None, type(ex).__name__))
                if label == "base":
                    break
    emitted = []
    for label, a, text, err in pre:
        if text is None:
            if label == "base":
                ctx.count("base-raised:" + err)
                return "base-raised"
            ctx.count("variant-raised:" + err)
            continue
        emitted.append((label, a, Emitted(text)))
        ctx.count("variant:" + label)
    # grammar
    lean = None
    if ctx.driver_ok:
        lean = ctx.driver().ask_many([{"kind": "py_grammar", "ast": ast_json(ast.parse(e.text))} for _, _, e in emitted])
    for i, (label, a, e) in enumerate(emitted):
        lean_ok = True if lean is None else lean[i]["ok"]
        if e.forbidden or not lean_ok:
            kinds = sorted(set(e.forbidden) | ({lean[i]["offending"]} if lean is not None and not lean_ok else set()))
            ctx.violation(f"grammar:einx.{sc.op}({sc.desc!r}) backend={sc.backend} shapes={[list(s) for s in sc.shapes(a)]} kinds={kinds}",
                          {"kind": "emitted text is outside the restricted (loop-free) grammar", "offending_node_kinds": kinds,
                           "call": sc.replay(a), "text": e.text})
            ctx.count("grammar:VIOLATION")
            return "GRAMMAR"          # one report per description
        if lean is not None:
            if lean_ok != (not e.forbidden):
                ctx.tie_broken("correspondence:grammar-decoder", f"Lean decoder says ok={lean_ok} ({lean[i].get('offending')}), Python's ast check says forbidden={e.forbidden} for\n{e.text}")
            elif lean_ok and lean[i]["calls"] != e.calls:
                ctx.tie_broken("correspondence:call-count", f"Lean callCount {lean[i]['calls']} vs ast Call nodes {e.calls} for\n{e.text}")
            elif lean_ok and lean[i]["cost"] != lean[i]["calls"]:
                ctx.tie_broken("correspondence:cost", f"cost {lean[i]['cost']} != callCount {lean[i]['calls']}")
    if lean is not None:
        for i in range(1, len(emitted)):
            if lean[0]["ok"] and lean[i]["ok"] and ((lean[0]["skeleton"] == lean[i]["skeleton"]) != (emitted[0][2].skeleton == emitted[i][2].skeleton)):
                ctx.tie_broken("correspondence:skeleton", f"Lean and Python disagree whether two texts have equal skeletons:\n{emitted[0][2].text}\n---\n{emitted[i][2].text}")
    # size-genericity
    status = "ok"
    l0, a0, e0 = emitted[0]
    for label, a, e in emitted[1:]:
        why = differs(e0, e)
        if why is None:
            continue
        status = "DIFF"
        ctx.count("size-generic:VIOLATION")
        sc2, a2, b2 = shrink(sc, a0, a)
        e1, e2 = emit(sc2, a2), emit(sc2, b2)
        ctx.violation(sig_pair(sc2, a2, b2),
                      {"kind": "emitted code is not size-generic: two size assignments with the same 1-pattern give different structure",
                       "why": differs(e1, e2) if e1 and e2 else why, "call_A": sc2.replay(a2), "call_B": sc2.replay(b2),
                       "text_A": e1.text if e1 else None, "text_B": e2.text if e2 else None, "calls_A": e1.calls if e1 else None, "calls_B": e2.calls if e2 else None,
                       "found_as": {"desc": sc.desc, "A": sc.replay(a0), "B": sc.replay(a), "variant": label}})
        break
    ctx.extra["texts_checked"] = ctx.extra.get("texts_checked", 0) + len(emitted)
    return status if len(emitted) > 1 else "no-variants"


def stb_tie(ctx, n):
    """T-str: the model `lowerId` (with `_squeeze_transpose_broadcast`) against the real traced graph of einx.id."""
    drv = ctx.driver()
    rng = ctx.rng
    done = 0
    tries = 0
    while done < n and tries < 6 * n:
        tries += 1
        call = gen.gen_id(rng)
        try:
            sc = SizedCall.from_call(call, "numpy")
        except Exception:
            continue
        assigns = [dict(sc.axes)] + [a for _, a in variants(sc, rng)[:2]]
        skels = []
        for a in assigns:
            try:
                graphcap.clear_caches()
                with graphcap.capture() as cap:
                    sc.text(a)
            except Exception:
                break
            if not cap.records or not cap.records[-1]["solved"] or cap.records[-1]["pre"] is None:
                ctx.count("stb:no-capture")
                break
            rec = cap.records[-1]
            ei, eo = rec["solved"][-1]
            gj, _ = graphcap.graph_to_json(rec["pre"])
            r = drv.ask({"kind": "stb_model", "exprs_in": ei, "exprs_out": eo, "graph": gj, "instance": a is assigns[0]})
            if "err" in r["model"]:
                ctx.count("stb:model-" + r["model"]["err"][:32])
                break
            # Props/C01Lower.lean: hypotheses of `lower_id_correct` on this traced call, and the computed instance of its conclusion
            if r.get("theorem_domain"):
                ctx.count("stb:in-domain-of-lower_id_correct")
                if not r.get("theorem_instance"):
                    ctx.tie_broken("model:lower_id_correct-instance", f"einx.id({sc.desc!r}) shapes={sc.shapes(a)}: hypotheses hold but the validator rejects the model's program against denoteId")
            elif "theorem_domain" in r:
                ctx.count("stb:outside-domain-of-lower_id_correct")
            if "ok" not in r["real"]:
                ctx.count("stb:real-untranslatable")
                break
            if not r["equal"]:
                ctx.tie_broken("correspondence:stb-model", f"einx.id({sc.desc!r}) shapes={sc.shapes(a)}: model {json.dumps(r['model']['ok'])} vs traced graph {json.dumps(r['real']['ok'])}")
                ctx.count("stb:DIFF")
                break
            ctx.count("stb:equal")
            skels.append(json.dumps(r["model"]["skeleton"]))
        else:
            done += 1
            ctx.extra["graphs_validated"] = ctx.extra.get("graphs_validated", 0) + len(assigns)
            if len(set(skels)) != 1:
                # the theorem says this cannot happen for flat expressions; for grouped ones it rests on this tie
                ctx.tie_broken("model:lowerId-skeleton", f"einx.id({sc.desc!r}): the model's skeleton differs between assignments with the same 1-pattern")
    ctx.extra["stb_descriptions"] = done


def run(ctx):
    rng = ctx.rng
    n_desc = 85 if ctx.quick else 1800
    n_stb = 30 if ctx.quick else 300
    if ctx.broken:
        n_desc *= 3
    ctx.extra["rule"] = ("descriptions from the shared grammar-directed generator (id with grouping/diagonal/1-axes/broadcast/concat/ellipsis, reductions, elementwise, dot, "
                         "get_at, argmax/argmin, flip/roll/sort/argsort/softmax) plus hand-written ones with tensor factories, on the backends numpy, numpy.numpylike, "
                         "numpy.einsum; for each description the axis lengths are re-assigned keeping the 1-pattern (x2, x3, x7, rotated among non-unit axes, all equal, pairwise "
                         "distinct, large up to 1200, random) and the emitted texts (graph=True on zero-stride stand-ins) are compared: equal ast skeleton (integers and digits of "
                         "assert messages abstracted) and equal number of Call nodes; every text is also decoded into the restricted grammar by the Lean driver. "
                         "non-trivial = at least two named axes and at least three variants emitted; distinct by (op, description, backend, 1-pattern)")
    ctx.assumptions.append("Python's ast module parses the emitted text as CPython's compiler would (the text is executed with exec by einx)")
    ctx.assumptions.append("the classification of size-dependent constructs in tools/extract/generic.py (taint rules for length- and shape-valued expressions; three anchored special cases: "
                           "_ravel's range(ndim) over coordinate components, elementwise's argmax over {1, L}, update_at's maximum of two broadcast-compatible shapes)")
    ctx.assumptions.append("numpy-family backends only: emitted text of torch/jax/mlx/tensorflow/tinygrad/array-api backends (nested function definitions for vmap) is covered by the grammar theorems "
                           "and the source obligations, not by the T-str stream")
    facts = (getattr(ctx, "facts", {}) or {}).get("Generic", {})
    for c, n in facts.get("by_class", {}).items():
        ctx.count("site:" + c, n)
    allowed = {"eq1", "shapeEq", "validationRaises", "iterShapeEntries", "coordComponents", "selectUnitOrCommon", "broadcastShapeMax"}
    for s in facts.get("sites", []):
        if s["cls"] not in allowed:
            ctx.tie_broken("extract:size-site", f"{s['file']}:{s['line']} in {s['func']}: `{s['construct']}` classified {s['cls']}")
    for ln, v in facts.get("emitter_keyword_fragments", []):
        ctx.tie_broken("extract:emitter-keyword", f"compiler/python/__init__.py:{ln}: emitted text fragment {v!r} contains a control-flow keyword")
    ctx.extra["size_sites"] = len(facts.get("sites", []))
    xl = (getattr(ctx, "facts", {}) or {}).get("Stb", {})
    ctx.extra["xlate_stb"] = {"translated": xl.get("translated", {}), "readings": xl.get("notes", []), "isinstance_guards_read_as_true": xl.get("assumed", [])}
    for k, ok in sorted(xl.get("translated", {}).items()):
        ctx.count("xlate:" + k + (":translated" if ok else ":CONSERVATIVE"))
    ctx.assumptions.append("Python -> Lean translation of _squeeze_transpose_broadcast / _to_axis_ids / the numpy wrappers (tools/extract/_pylean.py, reading of the builtins in "
                           "Basic/PyPrelude.lean) on flat expressions: " + "; ".join(xl.get("notes", []) + xl.get("assumed", [])))
    ctx.extra["lower_size_generic"] = ("stb_size_generic proved for _squeeze_transpose_broadcast; lower_size_generic_partial for id on flat expressions (hypothesis: final no-op test); "
                                       "stbU_size_generic (broadcast_to_unitary=True) and expr_to_axis_size_generic (Props/C17Lower.lean) for the pieces of the elementwise / reduce lowering; "
                                       "the whole elementwise / reduce pipelines rest on the lower_model tie (model = traced graph, equal model skeletons over three assignments); "
                                       "flattened axes, concatenation, diagonal, dot, get_at/update_at, argfind rest on the stb_model tie, the source obligation and the search")

    calls = []
    for c in EXTRA_CALLS:
        for b in BACKENDS[:2]:
            calls.append((c, b))
    rng.shuffle(calls)
    calls = calls[: (8 if ctx.quick else len(calls))]
    i = 0
    shown = 0
    # all descriptions and their size assignments first (one PRNG stream), then every text in parallel worker processes
    del _WORK[:]
    jobs = []
    while i < n_desc:
        i += 1
        if calls:
            call, backend = calls.pop()
        else:
            call = gen.gen_call(rng)
            backend = call.get("backend") or rng.choice(BACKENDS)
        try:
            sc = SizedCall.from_call(call, backend)
            sc.shapes(sc.axes)
        except Exception as ex:
            ctx.count("unsizable:" + type(ex).__name__)
            ctx.case(None, False)
            continue
        _WORK.append((sc, [("base", dict(sc.axes))] + variants(sc, rng, not ctx.quick)))
        jobs.append(call)
    import multiprocessing
    import time as _time
    _t0 = _time.time()
    with multiprocessing.get_context("fork").Pool(min(14, os.cpu_count() or 2)) as pool:
        emitted_all = pool.map(_emit_worker, range(len(_WORK)), chunksize=1)
    timing = ctx.extra.setdefault("timing_s", {})
    timing["emit_parallel"] = round(_time.time() - _t0, 1)
    _t0 = _time.time()
    for (sc, _assigns), call, (backend, pre, first_err) in zip(list(_WORK), jobs, emitted_all):
        if first_err is not None:
            ctx.count("base-raised:" + first_err)     # on the backend first chosen; the description was re-run on numpy
        sc.backend = backend
        st = check_description(ctx, sc, not ctx.quick, pre=pre)
        ctx.count("family:" + call["family"])
        ctx.count("status:" + st)
        ctx.count("backend:" + str(backend))
        ctx.count("unit-axes:%d" % sum(1 for v in sc.axes.values() if v == 1))
        nontrivial = st in ("ok", "DIFF", "GRAMMAR") and len(sc.axes) >= 2
        ctx.case(f"{sc.op}|{sc.desc}|{backend}|{pattern(sc.axes)}", nontrivial)
        if shown < 5 and st == "ok":
            shown += 1
            try:
                ctx.sample({"op": sc.op, "desc": sc.desc, "backend": backend, "axes": {str(k): v for k, v in sc.axes.items()}, "text": sc.text(sc.axes), "status": st})
            except Exception:
                pass
        if len(ctx.violations) >= 4:
            break
    timing["analyse"] = round(_time.time() - _t0, 1)
    _t0 = _time.time()
    if ctx.driver_ok:
        stb_tie(ctx, n_stb)
        timing["stb_tie"] = round(_time.time() - _t0, 1)
        _t0 = _time.time()
        # the lowering models of elementwise operations and reductions (Generic/LowerOps.lean) against traced graphs
        from props import lower_tie
        lower_tie.lower_tie(ctx, n_stb, SizedCall, variants)
        timing["lower_tie"] = round(_time.time() - _t0, 1)
        _t0 = _time.time()
        # the translated definitions (Extracted/Stb.lean, compiled into the driver) against the real Python functions, and the
        # reading of Python's builtins against CPython
        xlate_tie.run(ctx)
        timing["xlate_tie"] = round(_time.time() - _t0, 1)
    ctx.extra["traces_validated_against_impl"] = ctx.extra.get("texts_checked", 0) + ctx.extra.get("graphs_validated", 0)


def replay(ctx, path):
    with open(path) as f:
        r = json.load(f)["replay"]
    import einx

    def run_one(c):
        args = [(_factory if i in c.get("factories", []) else standin(s, integer=(i in c.get("int_inputs", [])))) for i, s in enumerate(c["shapes"])]
        kw = dict(c["kwargs"])
        if c.get("backend"):
            kw["backend"] = c["backend"]
        return str(getattr(einx, c["op"])(c["desc"], *args, graph=True, **kw))
    if "call_A" in r:
        ta, tb = run_one(r["call_A"]), run_one(r["call_B"])
        print(ta)
        print("---")
        print(tb)
        ea, eb = Emitted(ta), Emitted(tb)
        print("now:", differs(ea, eb) or "equal skeletons and call counts")
        return 0
    if "call" in r:
        t = run_one(r["call"])
        print(t)
        print("now: node kinds outside the grammar:", py_forbidden(t))
        return 0
    print(json.dumps(r, indent=1)[:3000])
    return 0
