"""C07, stage-2/3 shorthands -- correspondence stream for Props/C07Stage2.lean.

The theorems (`ellipsis_unroll`, `number_is_fresh_axis`, `scalar_constraint_is_repeated_tuple`, `rename_preserves_sols` /
`anonymous_ellipsis_shared`) are about the solving model of C02 (`Solve/Tree.lean`, tied to the real solver by
tools/props/c02.py) and about the transformations short form -> long form of `Solve/Shorthand.lean`.  This stream ties
the transformations to the code and re-checks each theorem's conclusion on generated instances:

for every generated expression list (generator of C02: nested ( ), [ ], +, numbers, named and anonymous ellipses, hidden
ground truth) and every shorthand that applies, the LONG form is written down in Python by the rule of the documentation
(advanced.rst), then
  (real/real)   `einx.solve_axes` and `einx.solve_shapes` run on the short and on the long form: same outcome class, and on
                success the same axis lengths (under the naming of the long form) and the same shapes -- an oracle that
                does not use the Lean model; a difference is a VIOLATION with the two calls as replay;
  (model/real)  the stage-1 trees einx hands to `namedtensor.solve.solve` for the short form go to the driver
                (`kind: shorthand`), which applies the Lean transformation; its long form must be the tree einx builds
                for the documented long description (up to the naming `a.0` <-> `a_0`), and for `unroll` it must be,
                name for name, the stage-2 tree `stage2.solve` returns for the short form (the real expansion);
  (model/model) `solveAll` of the Lean short and long form: same verdict, same lengths, same shapes, and equal to what
                einx reported; the decidable hypotheses of the theorems (`namesOK`, `freshVars`, `sameStack`, rank
                system satisfied, well-formed constraint arrays) are evaluated by the driver and counted.
A model/real difference is a broken tie (`correspondence:stage2-<shorthand>`), not a violation by itself.
"""
import json
import math
import random

import numpy as np

from lib import core
from props import c02

KINDS = ["unroll", "num", "broadcast", "anon"]
FRESH_ELL = "z"          # name written in place of an anonymous ellipsis
FRESH_NUM = "n0_"        # name written in place of a number


def anon_name():
    import einx._src.namedtensor.stage1 as s1
    return s1.Ellipsis.anonymous_variable_name


# ------------------------------------------------------------------ long forms by the documentation's rules (Python, on the generator's AST)

def unroll_item(it, truth, sfx):
    """advanced.rst, "Ellipses": X... is X repeated, the axis names inside numbered per repetition."""
    k = it[0]
    if k == "ax":
        return [("ax", it[1] + sfx)] if truth["depth"].get(it[1], 0) > 0 else [it]
    if k == "num":
        return [it]
    if k in ("flat", "cat", "br"):
        return [(k, [x for c in it[1] for x in unroll_item(c, truth, sfx)])]
    if k == "ell":
        return [x for i in range(truth["count"][it[2]]) for x in unroll_item(it[1], truth, f"{sfx}_{i}")]
    if k == "anon":
        return [("ax", f"{FRESH_ELL}_{i}") for i in range(len(truth["anon"]))]
    raise ValueError(k)


def replace_nth_num(tensors, n, new):
    """replace the n-th numeric axis (traversal order over all tensors) by `new`; -> (tensors', value) or None"""
    cnt = [0]
    val = [None]

    def walk(it):
        k = it[0]
        if k == "num":
            cnt[0] += 1
            if cnt[0] - 1 == n:
                val[0] = it[1]
                return new
            return it
        if k in ("flat", "cat", "br"):
            return (k, [walk(c) for c in it[1]])
        if k == "ell":
            return ("ell", walk(it[1]), it[2])
        return it
    out = [[walk(it) for it in t] for t in tensors]
    return (out, val[0]) if val[0] is not None else None


def count_nums(tensors):
    return sum(1 for t in tensors for it in t for _ in _nums(it))


def _nums(it):
    if it[0] == "num":
        yield it
    elif it[0] in ("flat", "cat", "br"):
        for c in it[1]:
            yield from _nums(c)
    elif it[0] == "ell":
        yield from _nums(it[1])


def anon_to_named(it):
    k = it[0]
    if k == "anon":
        return ("ell", ("ax", FRESH_ELL), "__anon__")
    if k in ("flat", "cat", "br"):
        return (k, [anon_to_named(c) for c in it[1]])
    if k == "ell":
        return ("ell", anon_to_named(it[1]), it[2])
    return it


def desc_of(tensors):
    return ", ".join(c02.render_list(t) for t in tensors)


# ------------------------------------------------------------------ generated pairs

def base_case(rng):
    """expression lists of the C02 generator with consistent shapes; constraints for a random subset of the names"""
    g = c02.Gen(rng)
    names, truth, tensors = g.make()
    shapes = [[d for it in t for d in c02.truth_dims(it, truth, [])] for t in tensors]
    used = c02.used_names(tensors)
    params = {}
    for n in used:
        if rng.random() < 0.6:
            v = truth["val"][n]
            params[n] = tuple(v) if truth["depth"][n] == 1 else v
    return truth, tensors, shapes, params, used


def make_pair(rng, kind):
    """-> dict(kind, short=(desc, params), long=(desc, params), shapes, namemap (model/short name -> long name), extra) or None"""
    truth, tensors, shapes, params, used = base_case(rng)
    has_ell = any(c02.has(it, ("ell", "anon")) for t in tensors for it in t)
    has_anon = any(c02.has(it, ("anon",)) for t in tensors for it in t)
    if any(s is not None and math.prod(s) > 10 ** 6 for s in shapes):
        return None
    if kind == "unroll":
        if not has_ell:
            return None
        # A name that the ground truth treats as one axis (depth 0) but that is written inside an ellipsis is numbered per
        # repetition by einx (`d.0`, `d.1`) and unrelated to a `d` outside: the written-out form would need per-repetition
        # names and constraints that the ground truth does not have.  Such descriptions are left to the other generators.
        def _inside(it, under):
            k = it[0]
            if k == "ax":
                return [it[1]] if under else []
            if k in ("flat", "cat", "br"):
                return [n for c in it[1] for n in _inside(c, under)]
            if k == "ell":
                return _inside(it[1], True)
            return []
        if any(truth["depth"].get(n, 0) == 0 for t in tensors for it in t for n in _inside(it, False)):
            return None
        if rng.random() < 0.3:
            # scalar constraint on an ellipsis axis where the ground truth allows it
            for n in used:
                v = truth["val"][n]
                if truth["depth"][n] == 1 and v and all(x == v[0] for x in v) and rng.random() < 0.7:
                    params[n] = v[0]
        long_t = [[x for it in t for x in unroll_item(it, truth, "")] for t in tensors]
        long_p = {}
        for n, v in params.items():
            if truth["depth"][n] == 1:
                cnt = truth["count"][truth["group"][n]]
                vs = [v] * cnt if isinstance(v, int) else list(v)
                for i, x in enumerate(vs):
                    long_p[f"{n}_{i}"] = x
            else:
                long_p[n] = v
        namemap = {}
        for n in used:
            if truth["depth"][n] == 1:
                for i in range(truth["count"][truth["group"][n]]):
                    namemap[f"{n}.{i}"] = f"{n}_{i}"
        if truth["anon"] is not None:
            for i in range(len(truth["anon"])):
                namemap[f"{anon_name()}.{i}"] = f"{FRESH_ELL}_{i}"
        return {"kind": kind, "short": (desc_of(tensors), params), "long": (desc_of(long_t), long_p), "shapes": shapes, "namemap": namemap}
    if kind == "num":
        k = count_nums(tensors)
        if k == 0:
            return None
        r = replace_nth_num(tensors, rng.randrange(k), ("ax", FRESH_NUM))
        long_t, v = r
        if v < 1:
            return None
        long_p = dict(params)
        long_p[FRESH_NUM] = v
        return {"kind": kind, "short": (desc_of(tensors), params), "long": (desc_of(long_t), long_p), "shapes": shapes, "namemap": {},
                "num": {"name": FRESH_NUM, "value": v}}
    if kind == "broadcast":
        cands = [n for n in used if truth["depth"][n] == 1 and truth["val"][n] and all(x == truth["val"][n][0] for x in truth["val"][n])]
        if not cands:
            return None
        n = rng.choice(cands)
        v0 = truth["val"][n][0]
        cnt = truth["count"][truth["group"][n]]
        short_p = dict(params)
        short_p[n] = v0
        long_p = dict(params)
        long_p[n] = (v0,) * cnt
        d = desc_of(tensors)
        return {"kind": kind, "short": (d, short_p), "long": (d, long_p), "shapes": shapes, "namemap": {}, "bc": {"name": n, "d": cnt}}
    if kind == "anon":
        if not has_anon:
            return None
        long_t = [[anon_to_named(it) for it in t] for t in tensors]
        with_anon = [i for i, t in enumerate(tensors) if any(c02.has(it, ("anon",)) for it in t)]
        if len(with_anon) >= 2 and rng.random() < 0.5:
            # one of the tensors gets an unknown shape: its rank then follows only from the SHARED ellipsis
            i = rng.choice(with_anon)
            shapes = [None if j == i else s for j, s in enumerate(shapes)]
            for n in c02.names_in(tensors[i]):
                v = truth["val"][n]
                params[n] = tuple(v) if truth["depth"][n] == 1 else v
        namemap = {anon_name(): FRESH_ELL}
        for i in range(len(truth["anon"])):
            namemap[f"{anon_name()}.{i}"] = f"{FRESH_ELL}.{i}"
        return {"kind": kind, "short": (desc_of(tensors), params), "long": (desc_of(long_t), params), "shapes": shapes, "namemap": namemap}
    raise ValueError(kind)


FIXED = [
    # the documentation's own examples (advanced.rst) and nested repetitions the generator does not produce
    ("unroll", "(s ds)... c", {"ds": 4}, [[8, 12, 3]], "(s_0 ds_0) (s_1 ds_1) c", {"ds_0": 4, "ds_1": 4}, {"s.0": "s_0", "s.1": "s_1", "ds.0": "ds_0", "ds.1": "ds_1"}),
    ("unroll", "b [s]... c", {}, [[2, 3, 4, 5]], "b [s_0] [s_1] c", {}, {"s.0": "s_0", "s.1": "s_1"}),
    ("unroll", "s... c, s...", {}, [[2, 3, 4], None], "s_0 s_1 c, s_0 s_1", {}, {"s.0": "s_0", "s.1": "s_1"}),
    ("unroll", "b (a...)", {"a": (2, 3)}, [[5, 6]], "b (a_0 a_1)", {"a_0": 2, "a_1": 3}, {"a.0": "a_0", "a.1": "a_1"}),
    ("unroll", "a... ", {}, [[]], "", {}, {}),
    ("num", "a b 3", {}, [[2, 4, 3]], "a b n0_", {"n0_": 3}, {}),
    ("num", "(a 2)... c", {}, [[4, 6, 5]], "(a n0_)... c", {"n0_": 2}, {}),
    ("broadcast", "(a b)..., a... b...", {"b": 2}, [[4, 6], None], "(a b)..., a... b...", {"b": (2, 2)}, {}),
    ("anon", "..., ... c", {}, [[2, 3], [2, 3, 4]], "z..., z... c", {}, None),
    # "used for all occurrences": the second tensor's rank is known only because the ellipsis is shared
    ("anon", "..., ... c", {"c": 4}, [[2, 3], None], "z..., z... c", {"c": 4}, None),
    ("anon", "b ..., (...) b", {}, [[5, 2, 3], None], "b z..., (z...) b", {}, None),
]


# ------------------------------------------------------------------ canonical trees

def canon(t, ren):
    """JSON tree -> nested tuples: lists flattened, singleton lists collapsed, empty brackets dropped, names mapped, no ids"""
    k = t["t"]
    if k == "axis":
        return ("axis", ren.get(t["n"], t["n"]))
    if k == "num":
        return ("num", t["v"])
    if k == "list":
        out = []
        for c in t["c"]:
            x = canon(c, ren)
            if x[0] == "list":
                out.extend(x[1])
            else:
                out.append(x)
        return out[0] if len(out) == 1 else ("list", tuple(out))
    if k == "concat":
        cs = tuple(canon(c, ren) for c in t["c"])
        return cs[0] if len(cs) == 1 else ("concat", cs)
    if k == "flat":
        x = canon(t["e"], ren)
        return x if x[0] == "flat" else ("flat", x)
    if k == "br":
        x = canon(t["e"], ren)
        if x == ("list", ()):
            return x
        return x if x[0] == "br" else ("br", x)
    if k == "ell":
        x = canon(t["e"], ren)
        return x if x == ("list", ()) else ("ell", x)
    raise core.MachineryError(f"unknown node {k}")


def canon_input(inp, ren):
    tens = tuple((canon(t["expr"], ren), None if t["shape"] is None else tuple(t["shape"])) for t in inp["tensors"])
    cons = tuple(sorted({(ren.get(c["name"], c["name"]), tuple(c["shape"]), tuple(c["vals"])) for c in inp["constraints"]}))
    return tens, cons


def stage2_json(e):
    import einx._src.namedtensor.stage2 as s2
    if isinstance(e, s2.Axis):
        return {"t": "axis", "n": e.name} if e.value is None else {"t": "num", "v": int(e.value)}
    if isinstance(e, s2.List):
        return {"t": "list", "c": [stage2_json(c) for c in e.children]}
    if isinstance(e, s2.FlattenedAxis):
        return {"t": "flat", "e": stage2_json(e.inner)}
    if isinstance(e, s2.ConcatenatedAxis):
        return {"t": "concat", "c": [stage2_json(c) for c in e.children]}
    if isinstance(e, s2.Brackets):
        return {"t": "br", "e": stage2_json(e.inner)}
    raise core.MachineryError(f"unknown stage-2 node {type(e)}")


class Stage2Capture:
    """records what `stage2.solve` returns (the expanded trees) while a real call runs"""

    def __init__(self):
        import einx._src.namedtensor.stage2 as s2
        self.s2 = s2
        self.orig = s2.solve
        self.out = []

    def __enter__(self):
        def wrapper(equations, *a, **k):
            r = self.orig(equations, *a, **k)
            self.out.append(r)
            return r
        self.s2.solve = wrapper
        return self

    def __exit__(self, *a):
        self.s2.solve = self.orig


# ------------------------------------------------------------------ outcomes

def real_outcome(desc, shapes, params, api):
    case = {"api": api, "desc": desc, "shapes": shapes, "params": dict(params)}
    with Stage2Capture() as cap2:
        r = c02.call_real(case)
    if r.get("exc") == "timeout":
        return {"timeout": True}
    out = {"captured": bool(r.get("captured")), "input": r.get("input"), "n_in": r.get("n_in")}
    if r.get("status") == "ok":
        out["ok"] = True
        rep = r.get("reported", {})
        if api == "solve_axes":
            out["axes"] = {k: np.asarray(v).tolist() for k, v in rep["axes"].items()}
        else:
            out["shapes"] = [list(s) for s in rep["shapes"]]
    else:
        out["ok"] = False
        out["exc"] = r.get("exc")
    if cap2.out:
        exprs1 = cap2.out[0][0]
        out["stage2"] = [None if e is None else stage2_json(e) for e in exprs1]
    return out


def unexpanded(r):
    def walk(t):
        if t is None:
            return False
        if t["t"] == "axis":
            return t["n"].startswith("UnexpandedEllipsis(")
        if t["t"] in ("list", "concat"):
            return any(walk(c) for c in t["c"])
        if t["t"] in ("flat", "br"):
            return walk(t["e"])
        return False
    return any(walk(e) for e in (r.get("stage2") or []))


def flat_axes(axes, namemap):
    """solve_axes answer -> {long-form name: value}: `a: [2, 3]` becomes a.0 -> 2, a.1 -> 3, then the naming of the long form"""
    d = {}
    for k, v in axes.items():
        a = np.asarray(v, dtype=object)
        if a.ndim == 0:
            d[namemap.get(k, k)] = int(a)
        else:
            for idx in np.ndindex(a.shape):
                x = k + "".join(f".{i}" for i in idx)
                d[namemap.get(x, x)] = int(a[idx])
    return d


def model_axes(sol, namemap):
    """driver `solve` answer -> {long-form name: value} for the axis variables"""
    return {namemap.get(k, k): v for k, v in sol.get("values", []) if not k.startswith("#")}


def compare_real(kind, p, rs, rl, api):
    """-> None or a description of the difference between the two real calls"""
    if kind in ("unroll", "broadcast") and not rs["ok"] and rs.get("exc") == "RankError":
        # the long form states the repetition count (as many copies / as long a tuple), the short form leaves it to the solver:
        # where einx cannot determine the count from the short form there is nothing to compare (theorem: Sols(long) = Sols(short) at THAT count)
        return None
    if rs["ok"] != rl["ok"]:
        return f"short form {'succeeds' if rs['ok'] else 'raises ' + str(rs.get('exc'))}, long form {'succeeds' if rl['ok'] else 'raises ' + str(rl.get('exc'))}"
    if not rs["ok"]:
        return None if rs.get("exc") == rl.get("exc") else f"short form raises {rs.get('exc')}, long form raises {rl.get('exc')}"
    if api == "solve_shapes":
        return None if rs["shapes"] == rl["shapes"] else f"shapes {rs['shapes']} vs {rl['shapes']}"
    a = flat_axes(rs["axes"], p["namemap"])
    b = flat_axes(rl["axes"], {})
    if kind == "num":
        b = {k: v for k, v in b.items() if k != FRESH_NUM and not k.startswith(FRESH_NUM + ".")}
    return None if a == b else f"axis lengths {a} vs {b}"


def signature(p, api):
    kw = lambda d: sorted((k, str(np.asarray(v).tolist())) for k, v in d.items())
    return (f"stage2:{p['kind']}: einx.{api}({p['short'][0]!r}, shapes={p['shapes']}, {kw(p['short'][1])}) vs "
            f"einx.{api}({p['long'][0]!r}, shapes={p['shapes']}, {kw(p['long'][1])})")


def replay_doc(p, api, why):
    js = lambda d: {k: np.asarray(v).tolist() for k, v in d.items()}
    return {"stream": "stage2", "shorthand": p["kind"], "api": api, "shapes": p["shapes"], "namemap": p["namemap"],
            "short": {"description": p["short"][0], "kwargs": js(p["short"][1])},
            "long": {"description": p["long"][0], "kwargs": js(p["long"][1])}, "observed": why,
            "expected": "the documentation equates the two forms: same outcome class, same axis lengths, same shapes"}


def replay_record(r):
    tup = lambda d: {k: (tuple(v) if isinstance(v, list) else v) for k, v in d.items()}
    p = {"kind": r["shorthand"], "short": (r["short"]["description"], tup(r["short"]["kwargs"])),
         "long": (r["long"]["description"], tup(r["long"]["kwargs"])), "shapes": r["shapes"], "namemap": r.get("namemap") or {}}
    api = r["api"]
    rs = real_outcome(p["short"][0], p["shapes"], p["short"][1], api)
    rl = real_outcome(p["long"][0], p["shapes"], p["long"][1], api)
    if rs.get("timeout") or rl.get("timeout"):
        print("replay: timeout")
        return 2
    why = compare_real(p["kind"], p, rs, rl, api)
    print("replay: the two forms", f"still differ: {why}" if why else "agree now")
    return 1 if why else 0


# ------------------------------------------------------------------ model side

def ask_model(ctx, p, rs, rl):
    """-> (answer of the driver, name map from Lean's long-form names to the real long-form names) or None"""
    inp = rs["input"]
    kind = p["kind"]
    if kind == "unroll":
        req = {"kind": "shorthand", "op": "unroll", **inp}
    elif kind == "num":
        li = rl["input"]
        base = {"tensors": li["tensors"], "constraints": [c for c in li["constraints"] if c["name"] != p["num"]["name"]]}
        req = {"kind": "shorthand", "op": "num", **base, "name": p["num"]["name"], "value": p["num"]["value"]}
    elif kind == "broadcast":
        idx = [i for i, c in enumerate(inp["constraints"]) if c["name"] == p["bc"]["name"]]
        if not idx:
            return None
        req = {"kind": "shorthand", "op": "broadcast", **inp, "index": idx[0], "d": p["bc"]["d"]}
    else:
        req = {"kind": "shorthand", "op": "rename", **inp, "from": anon_name(), "to": FRESH_ELL}
    return ctx.driver().ask(req)


def check_model(ctx, p, rs, rl, api):
    """-> list of (tie name, detail)"""
    kind = p["kind"]
    bad = []
    m = ask_model(ctx, p, rs, rl)
    if m is None:
        ctx.count(f"stage2:{kind}:model-not-applicable")
        return bad
    if not m.get("ok"):
        ctx.count(f"stage2:{kind}:model-abstains:" + str(m.get("why"))[:40])
        return bad
    tie = f"correspondence:stage2-{kind}"
    ren = dict(p["namemap"]) if p["namemap"] is not None else {}
    where = f"{p['short'][0]!r} {p['short'][1]} shapes {p['shapes']}"
    # (a) the Lean long form is the tree einx builds for the documented long description
    want = canon_input(rl["input"], {})
    got = canon_input(m["long"], ren)
    if kind == "num":
        # the request carried the long form; the Lean SHORT form must be einx's tree of the short description
        got_s = canon_input(m["short"], {})
        want_s = canon_input(rs["input"], {})
        if got_s != want_s:
            bad.append((tie, f"short form of the model {m['short']['text']} differs from einx's stage-1 trees for {where}"))
    if got != want:
        bad.append((tie, f"long form of the model {m['long']['text']} {m['long']['constraints']} differs from einx's stage-1 trees of {p['long'][0]!r} {p['long'][1]} (short: {where})"))
    # (b) unroll: the Lean long form is, name for name, the stage-2 tree the real expansion returns
    if kind == "unroll" and rs.get("stage2") is not None and rs["ok"]:
        n_t = len(rs["input"]["tensors"])
        real2 = tuple(canon(e, {}) for e in rs["stage2"][:n_t])
        lean2 = tuple(canon(t["expr"], {}) for t in m["long"]["tensors"])
        ctx.count("stage2:unroll:vs-real-expansion:" + ("equal" if real2 == lean2 else "DIFFERENT"))
        if real2 != lean2:
            bad.append((tie, f"unroll of the model {m['long']['text']} differs from the trees stage2.solve returns for {where}"))
    # (c) hypotheses of the theorems
    hyp = {"unroll": ["rank_ok", "wf", "names_ok_short", "names_ok_long", "long_rank_ok"],
           "num": ["value_pos", "no_other_constraint", "same_stack", "fresh", "names_ok_short", "names_ok_long"],
           "broadcast": ["wf"], "anon": ["target_unused", "ren_ok", "names_ok_short", "names_ok_long"]}[kind]
    missing = [h for h in hyp if not m.get(h)]
    if kind == "unroll" and m.get("long_ellipses") != 0:
        missing.append("long_ellipses")
    if kind == "broadcast" and m.get("level") is None:
        missing.append("level")
    ctx.count(f"stage2:{kind}:hypotheses:" + ("all-hold" if not missing else "missing:" + ",".join(missing)))
    if missing and not (kind == "unroll" and missing == ["rank_ok"]) and not (kind in ("num", "anon") and not m.get("counts_known")):
        # rank_ok can fail legitimately when the short form has no solution at the rank level; everything else must hold on generated cases
        bad.append((tie, f"hypotheses {missing} of the theorem do not hold for {where}"))
    # (c') the syntactic condition of Props/C07Names.lean: einx's own stage-1 trees must carry plain names only
    #      (identifiers or the anonymous ellipsis name); the name-level hypotheses are then theorems
    ctx.count(f"stage2:{kind}:plain-names:" + ("holds" if m.get("plain") else "FAILS"))
    if not m.get("plain"):
        bad.append(("correspondence:stage2-names", f"an axis name in einx's stage-1 trees is not plain (contains '#' or ends in '.digits') for {where}: "
                    f"{m['long']['text']}; Props/C07Names.lean (parser_names_plain) does not cover the real parser's output"))
    else:
        contra = [h for h in ("names_ok_short", "names_ok_long", "fresh", "ren_ok") if h in hyp and not m.get(h)]
        if contra:
            bad.append(("correspondence:stage2-names", f"plainNames holds but the driver evaluates {contra} to false for {where} (contradicts Props/C07Names.lean)"))
    # (d) the conclusion on this instance: same verdict, same lengths, same shapes; and as einx reports
    ss, sl = m["solve_short"], m["solve_long"]
    cls = lambda o: "none" if o["outcome"] in ("rankNone", "valueNone") else ("unique" if o["outcome"] == "unique" else "stuck")
    ctx.count(f"stage2:{kind}:model-verdicts:{cls(ss)}/{cls(sl)}")
    if not missing:
        if (cls(ss) == "none") != (cls(sl) == "none") and not (kind == "unroll"):
            bad.append((tie, f"model: short form {ss['outcome']}, long form {sl['outcome']} for {where}"))
        if kind == "unroll" and cls(ss) == "unique" and cls(sl) != "unique":
            bad.append((tie, f"model: short form unique, long form {sl['outcome']} for {where}"))
        if cls(ss) == "unique" and cls(sl) == "unique":
            a, b = model_axes(ss, ren), model_axes(sl, ren)
            if kind == "num":
                b = {k: v for k, v in b.items() if k != FRESH_NUM and not k.startswith(FRESH_NUM + ".")}
            if a != b:
                bad.append((tie, f"model: lengths {a} vs {b} for {where}"))
            if ss.get("shapes") != sl.get("shapes"):
                bad.append((tie, f"model: shapes {ss.get('shapes')} vs {sl.get('shapes')} for {where}"))
            if rs["ok"] and api == "solve_axes":
                ra = flat_axes(rs["axes"], ren)
                ra = {k: v for k, v in ra.items() if k in a}
                if any(a.get(k) != v for k, v in ra.items()):
                    bad.append((tie, f"model lengths {a} differ from einx's answer {ra} for {where}"))
            if rs["ok"] and api == "solve_shapes":
                n_in = rs["n_in"]
                if [list(s) for s in ss["shapes"][:n_in]] != [list(s) for s in rs["shapes"][:n_in]] and all(None not in s for s in ss["shapes"][:n_in]):
                    bad.append((tie, f"model shapes {ss['shapes']} differ from einx's answer {rs['shapes']} for {where}"))
    return bad


# ------------------------------------------------------------------ run

UNSTABLE_SIG = ("call-site:einx/_src/util/solver.py 'Sympy returned multiple possible solutions': a description whose size equations are non-linear "
                "in one axis is solved or rejected depending on the random names of its unnamed axes (repeating the same call changes the outcome)")


def one_pair(ctx, p, found):
    api = p.get("api") or ("solve_axes" if ctx.rng.random() < 0.6 else "solve_shapes")
    kind = p["kind"]
    rs = real_outcome(p["short"][0], p["shapes"], p["short"][1], api)
    rl = real_outcome(p["long"][0], p["shapes"], p["long"][1], api)
    if rs.get("timeout") or rl.get("timeout"):
        ctx.count(f"stage2:{kind}:timeout")
        return
    if not (rs["captured"] and rl["captured"]):
        # rejected by the front end before anything is solved (e.g. brackets around a concatenation that a count of 0 removes
        # from the long form): not a statement about the solver's shorthands
        ctx.count(f"stage2:{kind}:not-reaching-solver:{rs.get('exc')}/{rl.get('exc')}")
        return
    if unexpanded(rs) or unexpanded(rl):
        # einx left an ellipsis inside a flattened axis unexpanded (axis `UnexpandedEllipsis(...)`): it did not determine the count
        # the long form is written for (the C02 finding "undetermined ellipsis inside a flatten replaced by a free axis")
        ctx.count(f"stage2:{kind}:real-pair:short-form-leaves-count-open:unexpanded-ellipsis")
        return
    sig = signature(p, api)
    ctx.case(sig, nontrivial=True)
    why = compare_real(kind, p, rs, rl, api)
    if why is None and rs["ok"] != rl["ok"]:
        ctx.count(f"stage2:{kind}:real-pair:short-form-leaves-count-open:{rs.get('exc')}")
    else:
        ctx.count(f"stage2:{kind}:real-pair:" + ("agree:" + ("values" if rs["ok"] else "both-raise:" + str(rs.get("exc"))) if why is None else "DIFFER"))
    if why is not None:
        # Is the difference a property of the pair, or is one of the two calls unstable by itself?  einx hands non-linear size
        # equations (e.g. `(a a) (a + 2 + a)` = 300) to sympy under fresh random axis names; the order in which sympy returns
        # the roots then varies from call to call and the very same call sometimes fails with "Sympy returned multiple possible
        # solutions" (a defect of einx recorded under its call site in known_findings.json).  Repeat both calls.
        def stable(desc, params):
            seen = set()
            for _ in range(4):
                r = real_outcome(desc, p["shapes"], params, api)
                seen.add((r.get("ok"), r.get("exc"), json.dumps(r.get("axes"), sort_keys=True, default=str), json.dumps(r.get("shapes"), default=str)))
            return len(seen) == 1
        if not stable(p["short"][0], p["short"][1]) or not stable(p["long"][0], p["long"][1]):
            ctx.count(f"stage2:{kind}:real-pair:call-unstable-across-repetitions")
            ctx.violation(UNSTABLE_SIG, {"kind": "the same call gives different outcomes when repeated in one process", "example": replay_doc(p, api, why)})
            return
        found[kind] = found.get(kind, 0) + 1
        if found[kind] <= 2:
            ctx.violation(sig, replay_doc(p, api, why))
        return
    if ctx.driver_ok:
        for tie, detail in check_model(ctx, p, rs, rl, api):
            ctx.tie_broken(tie, detail)
    if len([s for s in ctx.samples if isinstance(s, dict) and s.get("stage2") == kind]) < 1:
        ctx.sample({"stage2": kind, "short": f"einx.{api}({p['short'][0]!r}, shapes={p['shapes']}, {p['short'][1]})",
                    "long": f"einx.{api}({p['long'][0]!r}, {p['long'][1]})", "outcome": "values" if rs["ok"] else rs.get("exc")}, cap=60)


def run_stream(ctx):
    quick = ctx.quick
    per = 25 if quick else 400
    if ctx.broken:
        per = max(per, 120)
    ctx.extra["stage2_rule"] = (
        "stage-2/3 shorthand stream: for each of ellipsis=repetition (unroll), number=fresh axis (num), scalar=repeated tuple (broadcast), "
        "anonymous=named ellipsis (anon): the documentation's examples + %d generated expression lists of the C02 generator with the long form written "
        "by the documented rule; real solve_axes/solve_shapes short vs long (oracle), Lean transformation vs einx's stage-1 trees of the long "
        "description and (unroll) vs the stage-2 trees of the real expansion, Lean solveAll short vs long vs einx's answers; hypotheses of the "
        "theorems evaluated per case" % per)
    found = {}
    for kind, sd, sp, shapes, ld, lp, nm in FIXED:
        if nm is None:
            nm = {anon_name(): FRESH_ELL, anon_name() + ".0": FRESH_ELL + ".0", anon_name() + ".1": FRESH_ELL + ".1"}
        p = {"kind": kind, "short": (sd, dict(sp)), "long": (ld, dict(lp)), "shapes": shapes, "namemap": nm}
        if kind == "num":
            p["num"] = {"name": FRESH_NUM, "value": lp[FRESH_NUM]}
        if kind == "broadcast":
            p["bc"] = {"name": "b", "d": 2}
        for api in ("solve_axes", "solve_shapes"):
            one_pair(ctx, {**p, "api": api}, found)
    for kind in KINDS:
        done = tries = 0
        seen = set()
        while done < per and tries < per * 40:
            tries += 1
            r = random.Random(f"{ctx.seed}/stage2/{kind}/{tries}")
            p = make_pair(r, kind)
            if p is None:
                continue
            key = json.dumps([p["short"][0], p["shapes"], sorted((k, str(v)) for k, v in p["short"][1].items()), p["long"][0]])
            if key in seen:
                continue
            seen.add(key)
            done += 1
            one_pair(ctx, p, found)
        ctx.count(f"stage2:{kind}:pairs", done)
