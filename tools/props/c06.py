"""C06 — a call's outcome does not depend on earlier calls (cache transparency).

Tie (T-src): Extracted/Cache.lean – the isinstance dispatch table of `_freeze_value`, the shape of `_freeze_args` /
`lru_cache`, the `__exit__` methods behind `use_stack` and `_dependon.stack`, `ConvertibleTensor.__eq__`.
Tie (T-beh a): `_freeze_value`, `==` and `hash` of CPython on generated pairs of values against the Lean model M9
(frozen form compared structurally, key equality, hash equality, exact numeric / tuple hashes).
Tie (T-beh b): the memo machine of the model, fed with the *fresh* outcomes of real calls and the keys the real
code builds, must predict the outcomes the real code produces along a history.
Search (independent of the model): warm-vs-cold differential.  Histories of real einx calls run in one process;
every call's outcome is compared with the outcome of the same call in a pristine interpreter (forked from a
server that has imported einx but never called it).  Directed two-call histories are built from every key
collision with different typed observation that (a) reports.  Failing histories are shrunk.
"""
import inspect
import json
import os
import subprocess
import sys
import time
import types

import numpy as np

from lib import core

sys.path.insert(0, os.path.dirname(os.path.abspath(__file__)))
import c06_world as W  # noqa: E402

EXTRACTORS = ["Cache"]
EXTRA_PROPS = ["C06Hash", "C06Num"]   # pyEq_hash, frozen_key_eq_iff (Props/C06Hash.lean); hashInt/hashDouble = numHash (Props/C06Num.lean)

# ================================================================================================= (a) values
from c06_world import (NP_KIND, KIND_TYPENAME, KIND_TYPE, INT_KINDS, FLOAT_KINDS, BOOL_KINDS, ALL_KINDS, Converter)  # noqa: E402,F401


def canon_model(j):
    """Order-insensitive rendering of a model value (mappings sorted by key)."""
    if isinstance(j, dict):
        if j.get("t") in ("dict", "ns"):
            return {"t": j["t"], "kvs": sorted(([k, canon_model(v)] for k, v in j["kvs"]), key=lambda kv: kv[0])}
        return {k: canon_model(v) for k, v in j.items()}
    if isinstance(j, list):
        return [canon_model(x) for x in j]
    return j


# ------------------------------------------------------------------------------------------------ generator of raw values
OBJ_POOL = [object(), object(), len, (lambda shape: None)]
STR_POOL = ["a", "b", "a b -> b a", "c", "shape", "type", ""]
INT_POOL = [-2, -1, 0, 1, 2, 3, 5, 127, 2 ** 61 - 1, 2 ** 61, 2 ** 64 + 3, -(2 ** 61), -(2 ** 61 - 1) - 1]
SMALL_INTS = [0, 1, 2, 3, 5, 7]
EIGHTHS = [-20, -8, -4, -1, 0, 1, 3, 4, 8, 12, 16, 20, 24, 40]   # value = k / 8


def gen_scalar(rng, value=None):
    """A scalar of a random kind; `value` (a Fraction-like (n, e)) is reused when the kind can represent it."""
    kind = rng.choice(ALL_KINDS)
    if value is None:
        if kind == "pyInt":
            v = rng.choice(INT_POOL)
        elif kind in INT_KINDS:
            v = rng.choice(SMALL_INTS)
        elif kind in BOOL_KINDS:
            v = rng.choice([0, 1])
        else:
            v = rng.choice(EIGHTHS) / 8 if rng.random() < 0.7 else float(rng.choice(SMALL_INTS + [2 ** 61, -1, -2]))
            if kind == "npFloat16" and abs(v) > 1024:
                v = 2.0
            if kind == "npFloat32" and abs(v) > 2 ** 24:
                v = 2.0
    else:
        v = value
    return mk_scalar(kind, v)


def mk_scalar(kind, v):
    """Scalar of `kind` with value v if representable, else None."""
    t = KIND_TYPE[kind]
    try:
        if kind in BOOL_KINDS:
            if v not in (0, 1):
                return None
            return t(bool(v))
        if kind in INT_KINDS:
            if v != int(v):
                return None
            iv = int(v)
            if kind != "pyInt":
                info = np.iinfo(t)
                if iv < info.min or iv > info.max:
                    return None
            return t(iv)
        with np.errstate(all="ignore"):
            x = t(v)
        return x if float(x) == v else None
    except (OverflowError, ValueError):
        return None


def gen_value(rng, depth=0, in_concrete=False):
    r = rng.random()
    if depth >= 3 or r < 0.38:
        q = rng.random()
        if q < 0.75:
            s = None
            while s is None:
                s = gen_scalar(rng)
            return s
        if q < 0.85:
            return rng.choice(STR_POOL)
        if q < 0.9:
            return None
        if q < 0.95:
            return rng.choice([int, float, bool, np.ndarray, np.float32, types.FunctionType, inspect.Parameter.empty])
        return rng.choice(OBJ_POOL)
    if r < 0.5:
        return [gen_value(rng, depth + 1, in_concrete) for _ in range(rng.randint(0, 3))]
    if r < 0.62:
        return tuple(gen_value(rng, depth + 1, in_concrete) for _ in range(rng.randint(0, 3)))
    if r < 0.72 and not in_concrete:
        return gen_array(rng)
    if r < 0.8:
        return {k: gen_value(rng, depth + 1, in_concrete) for k in rng.sample(STR_POOL[:5], rng.randint(0, 3))}
    if r < 0.86:
        return types.SimpleNamespace(**{k: gen_value(rng, depth + 1, in_concrete) for k in rng.sample(["a", "b", "c", "type"], rng.randint(0, 3))})
    if r < 0.9 or in_concrete:
        return gen_param(rng, depth)
    if r < 0.95:
        return gen_tensor(rng)
    return gen_conv(rng, depth)


def gen_array(rng):
    dt = rng.choice(list(NP_KIND))
    shape = tuple(rng.randint(0, 3) for _ in range(rng.randint(0, 2)))
    n = int(np.prod(shape)) if shape else 1
    if dt == "bool":
        data = [rng.choice([False, True]) for _ in range(n)]
    elif dt.startswith("float"):
        data = [rng.choice(EIGHTHS) / 8 if rng.random() < 0.4 else float(rng.choice(SMALL_INTS)) for _ in range(n)]
    else:
        data = [rng.choice(SMALL_INTS) for _ in range(n)]
    return np.array(data, dtype=dt).reshape(shape)


def gen_param(rng, depth):
    kind = rng.choice(list(inspect._ParameterKind))
    default = inspect.Parameter.empty if kind in (inspect.Parameter.VAR_POSITIONAL, inspect.Parameter.VAR_KEYWORD) or rng.random() < 0.4 else gen_value(rng, depth + 2, True)
    ann = rng.choice([inspect.Parameter.empty, int, "Tensor", float])
    return inspect.Parameter(rng.choice(["shape", "x", "scale", "init"]), kind, default=default, annotation=ann)


def gen_tensor(rng):
    from einx._src.tracer.signature.classical import Tensor
    return Tensor(None, tuple(rng.randint(1, 4) for _ in range(rng.randint(0, 3))))


def gen_conv(rng, depth):
    from einx._src.tracer.signature.classical import ConvertibleTensor
    q = rng.random()
    if q < 0.4:
        return ConvertibleTensor(None, concrete=types.SimpleNamespace(type=rng.choice([int, float, bool, np.float32, np.int64])), shape=())
    if q < 0.6:
        return ConvertibleTensor(None, concrete=types.SimpleNamespace(type=np.ndarray), shape=tuple(rng.randint(1, 4) for _ in range(rng.randint(0, 2))))
    params = {}
    for name in rng.sample(["shape", "scale", "init", "x"], rng.randint(1, 3)):
        p = gen_param(rng, depth)
        params[name] = p.replace(name=name)
    return ConvertibleTensor(None, concrete=types.SimpleNamespace(type=rng.choice([types.FunctionType, type(len)]), parameters=params), shape=None)


def mutate(rng, x, depth=0, in_concrete=False):
    """An equal-but-not-identical or slightly different variant of x."""
    from einx._src.tracer.signature.classical import Tensor, ConvertibleTensor
    r = rng.random()
    if isinstance(x, (bool, np.bool_, int, np.integer, float, np.floating)) and not isinstance(x, inspect._ParameterKind):
        if r < 0.7:   # same value, other kind
            for _ in range(6):
                y = mk_scalar(rng.choice(ALL_KINDS), float(x) if isinstance(x, (float, np.floating)) else int(x))
                if y is not None:
                    return y
            return x
        if r < 0.85:
            return gen_scalar(rng) or x
        return x
    if isinstance(x, (list, tuple)):
        items = [mutate(rng, e, depth + 1, in_concrete) if rng.random() < 0.6 else e for e in x]
        if r < 0.1 and items:
            items.pop(rng.randrange(len(items)))
        elif r < 0.15:
            items.append(gen_value(rng, 3))
        q = rng.random()
        if q < 0.4:
            return list(items)
        if q < 0.8:
            return tuple(items)
        if not in_concrete and all(isinstance(e, (int, float, bool, np.integer, np.floating, np.bool_)) and abs(float(e)) < 100 for e in items):
            try:
                a = np.array(items)
                if a.dtype.name in NP_KIND:
                    return a
            except Exception:
                pass
        return tuple(items)
    if isinstance(x, np.ndarray):
        q = rng.random()
        if q < 0.35:
            return x.tolist()
        if q < 0.5:
            t = x.tolist()
            return tuple(t) if isinstance(t, list) else t
        if q < 0.85:
            dt = rng.choice(list(NP_KIND))
            try:
                y = x.astype(dt)
                if y.shape == x.shape and np.array_equal(y.astype("float64"), x.astype("float64")):
                    return y
            except Exception:
                pass
            return x
        return gen_array(rng)
    if isinstance(x, dict):
        items = [(k, mutate(rng, v, depth + 1, in_concrete) if rng.random() < 0.5 else v) for k, v in x.items()]
        rng.shuffle(items)
        if r < 0.1 and items:
            items.pop()
        d = dict(items)
        return types.SimpleNamespace(**d) if rng.random() < 0.15 else d
    if isinstance(x, types.SimpleNamespace):
        items = [(k, mutate(rng, v, depth + 1, in_concrete) if rng.random() < 0.5 else v) for k, v in vars(x).items()]
        rng.shuffle(items)
        return dict(items) if rng.random() < 0.15 else types.SimpleNamespace(**dict(items))
    if isinstance(x, inspect.Parameter):
        if x.default is not inspect.Parameter.empty and r < 0.7:
            return x.replace(default=mutate(rng, x.default, depth + 1, True))
        if r < 0.85:
            return x.replace(name=rng.choice(["shape", "x"]))
        return x.replace()
    if isinstance(x, ConvertibleTensor):
        c = x.concrete
        if hasattr(c, "parameters") and r < 0.7:
            ps = [(k, mutate(rng, p, depth + 1, True) if rng.random() < 0.6 else p.replace()) for k, p in c.parameters.items()]
            rng.shuffle(ps)
            ps = [(k, p.replace(name=k)) for k, p in ps]
            return ConvertibleTensor(None, concrete=types.SimpleNamespace(type=c.type, parameters=dict(ps)), shape=x.shape)
        if r < 0.85:
            return ConvertibleTensor(None, concrete=types.SimpleNamespace(**vars(c)), shape=x.shape)
        return gen_conv(rng, depth)
    if isinstance(x, Tensor):
        if r < 0.6:
            return Tensor(None, list(x.shape))
        if r < 0.8:
            return ConvertibleTensor(None, concrete=types.SimpleNamespace(type=np.ndarray), shape=x.shape)
        return gen_tensor(rng)
    if r < 0.8:
        return x
    return gen_value(rng, 3, in_concrete)


def type_sig(x):
    """Types-only rendering of a value (used to group collisions)."""
    if isinstance(x, np.ndarray):
        return f"ndarray[{x.dtype.name},{x.ndim}d]"
    if isinstance(x, (list, tuple)):
        return type(x).__name__ + "[" + ",".join(type_sig(e) for e in x) + "]"
    if isinstance(x, dict):
        return "dict{" + ",".join(f"{k}:{type_sig(v)}" for k, v in sorted(x.items())) + "}"
    return type(x).__name__


def to_vspec(x):
    """Value spec of c06_world for a keyword-able value (scalars and sequences/arrays of scalars); None otherwise."""
    if isinstance(x, bool):
        return ["bool", x]
    if isinstance(x, int):
        return ["int", x] if abs(x) < 2 ** 31 else None
    if isinstance(x, float):
        n, d = x.as_integer_ratio()
        return ["float", n, d]
    if isinstance(x, np.bool_):
        return ["np", "bool_", int(x), 1]
    if isinstance(x, (np.integer, np.floating)):
        if x.dtype.name not in W.NP_DTYPES:
            return None
        n, d = float(x).as_integer_ratio()
        return ["np", x.dtype.name, n, d]
    if isinstance(x, (list, tuple)):
        items = [to_vspec(e) for e in x]
        return None if any(i is None for i in items) else ["list" if isinstance(x, list) else "tuple", items]
    if isinstance(x, np.ndarray):
        name = "bool_" if x.dtype.name == "bool" else x.dtype.name
        if name not in W.NP_DTYPES or x.size > 0 and not np.array_equal(x.astype("float64"), np.round(x.astype("float64"))):
            return None
        return ["arr", name, x.astype("int64").tolist()]
    return None


# ================================================================================================= fork server client
class Server:
    def __init__(self, workers=12, timeout=300):
        env = dict(os.environ)
        env.pop("EINX_WARN_ON_RETRACE", None)
        env.pop("EINX_CACHE_SIZE", None)
        self.p = subprocess.Popen([sys.executable, os.path.join(os.path.dirname(os.path.abspath(__file__)), "c06_world.py"), "--server", str(workers), str(timeout)],
                                  stdin=subprocess.PIPE, stdout=subprocess.PIPE, text=True, env=env)
        line = self.p.stdout.readline()
        if not line or not json.loads(line).get("ready"):
            raise core.MachineryError("fork server did not start")
        self.cold_memo = {}
        self.n_forks = 0

    def run(self, jobs):
        if not jobs:
            return []
        self.p.stdin.write(json.dumps({"jobs": jobs}) + "\n")
        self.p.stdin.flush()
        line = self.p.stdout.readline()
        if not line:
            raise core.MachineryError("fork server died")
        res = json.loads(line)["results"]
        self.n_forks += len(jobs)
        for r in res:
            if "child-error" in r:
                raise core.MachineryError(f"fork child failed: {r['child-error']}")
            for o in r["outs"]:
                if "harness-error" in o:
                    raise core.MachineryError(f"bad call spec: {o['harness-error']}")
        return res

    def cold(self, calls):
        """Outcome of every call in a pristine interpreter (memoised: a pristine run is a function of the call)."""
        keys = [json.dumps(strip_escape(c), sort_keys=True) for c in calls]
        todo = {}
        for k, c in zip(keys, calls):
            if k not in self.cold_memo and k not in todo:
                todo[k] = strip_escape(c)
        if todo:
            res = self.run([[c] for c in todo.values()])
            for k, r in zip(todo, res):
                outs = r["outs"]
                # a failing `with einx.backend.get(name)` produces one with-error entry instead of the call outcome
                self.cold_memo[k] = outs[-1]
                if r["stacks"] != {"use_stack": 0, "dependon": 0}:
                    self.cold_memo[k] = {**outs[-1], "stacks-left": r["stacks"]}
        return [self.cold_memo[k] for k in keys]

    def close(self):
        try:
            self.p.stdin.close()
            self.p.wait(timeout=10)
        except Exception:
            self.p.kill()


def strip_escape(c):
    c = dict(c)
    c.pop("escape", None)
    return c


def same_outcome(a, b):
    """Outcome equality: exception class; values exactly for integer/bool data and with a tolerance for floats;
    shapes, dtype kinds; graph text up to variable naming."""
    if ("ok" in a) != ("ok" in b):
        return False
    if "ok" not in a:
        return a.get("err") == b.get("err") and ("with-error" in a) == ("with-error" in b)
    return _same_val(a["ok"], b["ok"])


def _same_val(x, y):
    if set(x) != set(y):
        return False
    if "array" in x:
        p, q = x["array"], y["array"]
        if p["shape"] != q["shape"] or p["dtype"] != q["dtype"]:
            return False
        if p["kind"] == "f":
            return all((u == v) if isinstance(u, str) or isinstance(v, str) else abs(u - v) <= 1e-9 * max(1.0, abs(u), abs(v)) for u, v in zip(p["v"], q["v"]))
        return p["v"] == q["v"]
    if "seq" in x:
        return len(x["seq"]) == len(y["seq"]) and all(_same_val(u, v) for u, v in zip(x["seq"], y["seq"]))
    if "map" in x:
        return [k for k, _ in x["map"]] == [k for k, _ in y["map"]] and all(_same_val(u[1], v[1]) for u, v in zip(x["map"], y["map"]))
    if "float" in x:
        return abs(x["float"] - y["float"]) <= 1e-9 * max(1.0, abs(x["float"]))
    return x == y


def brief(o):
    if "ok" in o:
        v = o["ok"]
        if "array" in v:
            return f"ok array shape={tuple(v['array']['shape'])} dtype={v['array']['dtype']}"
        if "graph" in v:
            return "ok graph-text"
        return "ok " + next(iter(v))
    if "with-error" in o:
        return "with-block failed: " + o["with-error"]["err"]
    return "raised " + o.get("err", "?") + (f" (cause {o['cause']})" if "cause" in o else "")


# ================================================================================================= (b) call generator
def T(shape, dtype="int64"):
    return ["T", list(shape), dtype]


def scalar_variants(n):
    """Equal-but-not-identical renderings of the integer n as a keyword value."""
    out = [["int", n], ["float", n, 1], ["np", "int64", n, 1], ["np", "float32", n, 1], ["np", "int32", n, 1], ["np", "uint8", n, 1], ["np", "float64", n, 1],
           ["arr", "int64", n], ["arr", "float64", n]]
    if n in (0, 1):
        out += [["bool", bool(n)], ["np", "bool_", n, 1]]
    return out


def seq_variants(ns):
    return [["list", [["int", n] for n in ns]], ["tuple", [["int", n] for n in ns]], ["arr", "int64", list(ns)], ["arr", "int32", list(ns)],
            ["arr", "float64", list(ns)], ["list", [["float", n, 1] for n in ns]], ["tuple", [["np", "int64", n, 1] for n in ns]]]


def call(fn, desc, targs, kw=(), tkw=(), **extra):
    c = {"fn": fn, "desc": desc, "targs": [list(t) for t in targs], "kw": [[k, v] for k, v in kw]}
    if tkw:
        c["tkw"] = [[k, list(t)] for k, t in tkw]
    c.update(extra)
    return c


def families(rng):
    """Families of calls; the members of one family are equal-but-not-identical variants of each other (plus close
    neighbours), so that histories that mix them exercise hits, misses and collisions of the cache."""
    fams = []
    n = rng.choice([1, 2, 3])
    # keyword axis size in all its renderings (D8 lives here)
    fams.append([call("id", "a b -> a b c", [T((2, 3))], [("c", v)]) for v in scalar_variants(n)])
    fams.append([call("id", "a b -> a b c", [T((2, 3))], [("c", v)], graph=True) for v in scalar_variants(n)[:4]])
    fams.append([call("sum", "a (b c) -> a c", [T((2, 6))], [("b", v)]) for v in scalar_variants(rng.choice([2, 3]))])
    fams.append([call("roll", "a [b]", [T((2, 3))], [("shift", v)]) for v in scalar_variants(n)])
    fams.append([call("adapter:reduce_scaled", "a [b]", [T((2, 3))], [("scale", v)]) for v in scalar_variants(n)[:7]])
    fams.append([call("adapter:elementwise_scaled", "a b, b -> a b", [T((2, 3)), T((3,))], [("scale", v)]) for v in scalar_variants(n)[:7]])
    # sequences as constraints: list vs tuple vs array, int vs float contents
    fams.append([call("id", "(a b)... -> a... b...", [T((4, 6))], [("b", v)]) for v in seq_variants([2, 3])])
    fams.append([call("id", "b... -> b...", [T((2, 3))], [("b", v)]) for v in seq_variants([2, 3]) + seq_variants([2, 2])[:2]])
    fams.append([call("id", "a... b -> b a...", [T((5,))], [("a", v)]) for v in (["tuple", []], ["list", []], ["arr", "int64", []], ["arr", "float64", []])])
    # keyword order
    fams.append([call("id", "a b -> a b c d", [T((2, 3))], kw) for kw in ([("c", ["int", 2]), ("d", ["int", 3])], [("d", ["int", 3]), ("c", ["int", 2])],
                                                                        [("c", ["int", 3]), ("d", ["int", 2])], [("d", ["int", 2]), ("c", ["float", 2, 1])])])
    # tensor kinds with one shape: arrays of different dtypes, Python scalars of different types, factories
    fams.append([call("add", "a b, b -> a b", [T((2, 3), dt), T((3,), dt2)]) for dt, dt2 in (("int64", "int64"), ("float64", "int64"), ("int32", "float32"), ("bool_", "int64"))])
    fams.append([call("add", "a b, -> a b", [T((2, 3)), ["S", v]]) for v in (["int", 1], ["float", 1, 1], ["bool", True], ["np", "int64", 1, 1], ["np", "float32", 1, 1], ["np", "bool_", 1, 1], ["float", 5, 2])])
    fams.append([call("add", "a b, -> a b", [T((2, 3)), ["T", [], "int64"]])] + [call("add", "a b, -> a b", [T((2, 3)), ["F", f]]) for f in ("lambda_ones", "lambda_arange", "np_ones")])
    fams.append([call("add", "a b, b -> a b", [T((2, 3)), ["F", f]]) for f in W.FACTORY_SRC] + [call("add", "a b, b -> a b", [T((2, 3)), T((3,))])])
    fams.append([call("multiply", "a, a -> a", [["F", f], T((4,))]) for f in ("def_scale_int", "def_scale_float", "def_list_default", "def_tuple_default", "def_array_default", "callable_obj")])
    fams.append([call("add", "a b, b -> a b", [T((2, 3)), ["L", [1, 2, 3]]]), call("add", "a b, b -> a b", [T((2, 3)), ["N"]]), call("add", "a b, b -> a b", [T((2, 3)), ["S", ["str", "x"]]])])
    # shapes: same description, different shapes; failing at solve time
    fams.append([call("sum", "a [b]", [T(s, dt)]) for s, dt in (((2, 3), "int64"), ((3, 2), "int64"), ((2, 3), "float64"), ((2, 3, 1), "int64"), ((6,), "int64"))])
    fams.append([call("id", "a b -> (a b)", [T(s)]) for s in ((2, 3), (3, 2), (6,), (1, 1))])
    fams.append([call("dot", "a b, b c -> a c", [T((2, 3)), T(s)]) for s in ((3, 2), (2, 2), (3, 1), (3,))])
    fams.append([call("id", "a (b c) -> a b c", [T((2, 6))], kw) for kw in ([("b", ["int", 2])], [("b", ["int", 4])], [("c", ["int", 3])], [], [("b", ["int", 2]), ("c", ["int", 3])], [("b", ["int", 2]), ("c", ["int", 2])])])
    # failing at parse time
    fams.append([call("id", d, [T((2, 3))]) for d in ("a b -> (a", "a b -> a b )", "a b -> a a", "a b - > b a", "a b -> b a", "a [b -> a", "-> ->")])
    # failing at trace time: backend without the operation / unknown backend / wrong backend type
    fams.append([call("max", "a [b]", [T((2, 3))], backend=b) for b in (None, ["name", "numpy.einsum"], ["name", "numpy.numpylike"], ["name", "nosuch"], ["bad"], ["obj", "numpy"], ["name", "numpy"])])
    fams.append([call("dot", "a b, b c -> a c", [T((2, 3)), T((3, 2))], backend=b, graph=g) for b in (None, ["name", "numpy.einsum"], ["name", "numpy.numpylike"], ["obj", "numpy.einsum"]) for g in (False, True)])
    # failing at run time: index out of range, factory misbehaving
    fams.append([call("get_at", "a [b], a -> a", [T((2, 3)), ["I", [2], hi]]) for hi in (3, 9, 2)] + [call("get_at", "a [b], a -> a", [T((2, 3)), ["I", [2], 3]], graph=True)])
    fams.append([call("add_at", "a [b], a, a -> a [b]", [T((2, 3)), ["I", [2], hi], T((2,))]) for hi in (3, 9)])
    # other entry points
    fams.append([call("solve_shapes", "a b, c b a", [T((2, 3)), ["N"]], [("c", v)]) for v in scalar_variants(2)[:5]] + [call("matches", "a b", [T(s)]) for s in ((2, 3), (6,))])
    fams.append([call("solve_axes", "a b", [T((2, 3))], kw) for kw in ([], [("a", ["int", 2])], [("a", ["float", 2, 1])], [("a", ["int", 3])])])
    fams.append([call("adapter:reduce_sum", "a [b]", [T(s)]) for s in ((2, 3), (3, 2))] + [call("adapter:elementwise_add", "a b, b -> a b", [T((2, 3)), T((3,))])]
                + [call("adapter:reduce_sum", "a [b]", [T((2, 3))], graph=True)])
    fams.append([call(op, "a [b]", [T((2, 3), dt)]) for op in ("mean", "softmax", "sort", "argmax", "flip", "logsumexp") for dt in ("int64", "float64")][:8])
    fams.append([call("where", "a, a b, b -> a b", [T((2,), "bool_"), T((2, 3)), T((3,))]), call("where", "a, a b, -> a b", [T((2,), "bool_"), T((2, 3)), ["S", ["int", 0]]]),
                 call("where", "a, a b, -> a b", [T((2,), "bool_"), T((2, 3)), ["S", ["float", 0, 1]]])])
    # tensors passed by keyword, in every keyword order and mixed with positional ones (the cache key must not forget which tensor is which)
    import itertools
    wt = {"mask": T((2,), "bool_"), "x": T((2, 3)), "y": T((3,))}
    fams.append([call("where", "a, a b, b -> a b", [], tkw=[[k, wt[k]] for k in order]) for order in itertools.permutations(("mask", "x", "y"))]
                + [call("where", "a, a b, b -> a b", [wt["mask"]], tkw=[[k, wt[k]] for k in order]) for order in (("x", "y"), ("y", "x"))]
                + [call("where", "a, a b, b -> a b", [wt["mask"], wt["x"], wt["y"]])])
    wt2 = {"mask": T((3,), "bool_"), "x": T((3,)), "y": T((3,), "float64")}
    fams.append([call("where", "a, a, a -> a", [], tkw=[[k, wt2[k]] for k in order]) for order in itertools.permutations(("mask", "x", "y"))])
    fams.append([call("sum", "a [b]", [], tkw=[["tensor", T((2, 3))]]), call("sum", "a [b]", [T((2, 3))]), call("sum", "a [b]", [], tkw=[["tensor", T((2, 3))]], kw=[("keepdims", ["bool", True])]),
                 call("sum", "a [b]", [], kw=[("keepdims", ["bool", True])], tkw=[["tensor", T((2, 3), "float64")]])])
    return fams


def mandatory_pairs():
    """Directed ordered pairs (label, A, B) that every run executes as the two-call histories [A, B] and [B, A], each in its own
    pristine interpreter (the first call of such a history *is* a cold run).  The two members of a pair agree in everything a
    too-coarse memo might look at and differ in one thing that the outcome depends on:

    keepdims   same operation, description and tensor, with / without `keepdims=True` (a memo per description or per
               (description, shapes) that ignores the flag serves the wrong output shape);
    factory    tensor factories whose *signature* decides which keywords einx passes (`name`, `arg_index`, `signature`):
               `(shape)` / `(shape, **kwargs)` / `(shape, name)`, optional keywords of different names, functools.partial
               objects (one class) around functions with different optional keywords, callable objects of two classes with
               identical name and repr, lambdas; and two instances of one class that differ in state only (a legitimate hit:
               the factory is an input of the compiled function, so each call must still see its own object);
    adapter    two callables adapted with einx.numpy.adapt_numpylike_reduce / _elementwise whose generated source text is
               identical (same `__name__`, same repr in the constant's comment line) while the object bound to `const1`
               differs in state or in class (a compiled-function memo keyed by the text serves the other callable).
    """
    x = T((2, 3))
    xf = T((2, 3), "float64")
    kd = [("keepdims", ["bool", True])]
    pairs = [
        ("keepdims: sum 'a [b]' without / with keepdims=True", call("sum", "a [b]", [x]), call("sum", "a [b]", [x], kd)),
        ("keepdims: sum 'a [b]' keepdims=False / True", call("sum", "a [b]", [x], [("keepdims", ["bool", False])]), call("sum", "a [b]", [x], kd)),
        ("keepdims: max '[a] b' float64 without / with", call("max", "[a] b", [xf]), call("max", "[a] b", [xf], kd)),
        ("keepdims: sum 'a [b]' graph=True without / with", call("sum", "a [b]", [x], graph=True), call("sum", "a [b]", [x], kd, graph=True)),
        ("keepdims: adapted np.sum 'a [b]' without / with", call("adapter:reduce_sum", "a [b]", [x]), call("adapter:reduce_sum", "a [b]", [x], kd)),
        ("keepdims: logsumexp 'a [b] c' without / with", call("logsumexp", "a [b] c", [T((2, 3, 2), "float64")]), call("logsumexp", "a [b] c", [T((2, 3, 2), "float64")], kd)),
    ]

    def fac(f):
        return call("add", "a b, b -> a b", [x, ["F", f]])

    for label, fa, fb in (
            ("(shape) / (shape, **kwargs)", "sig_shape", "sig_shape_kwargs"),
            ("(shape) / (shape, name)", "sig_shape", "sig_shape_name"),
            ("(shape, **kwargs) / (shape, name)", "sig_shape_kwargs", "sig_shape_name"),
            ("(shape, name='none') / (shape, arg_index=7)", "sig_shape_name_opt", "sig_shape_argindex_opt"),
            ("functools.partial objects around functions with different optional keywords", "partial_name_opt", "partial_argindex_opt"),
            ("callable objects of two classes with identical name and repr", "obj_repr_shape", "obj_repr_shape_name_opt"),
            ("lambda shape / lambda shape, **kw", "lambda_shape", "lambda_shape_kwargs"),
            ("two instances of one class, different state", "fill_1", "fill_2")):
        pairs.append(("factory: " + label, fac(fa), fac(fb)))
    pairs.append(("factory: (shape, arg_index=7) as first / second tensor of multiply", call("multiply", "a, a -> a", [["F", "sig_shape_argindex_opt"], T((4,))]),
                  call("multiply", "a, a -> a", [T((4,)), ["F", "sig_shape_argindex_opt"]])))
    pairs += [
        ("adapter: reduce, same class, same text, different state", call("adapter:reduce_obj_k1", "a [b]", [x]), call("adapter:reduce_obj_k2", "a [b]", [x])),
        ("adapter: reduce, two classes with identical name and repr", call("adapter:reduce_obj_sum", "a [b]", [x]), call("adapter:reduce_obj_max", "a [b]", [x])),
        ("adapter: elementwise, same class, same text, different state", call("adapter:elementwise_obj_k1", "a b, b -> a b", [x, T((3,))]),
         call("adapter:elementwise_obj_k2", "a b, b -> a b", [x, T((3,))])),
    ]
    return pairs


def mandatory_histories(ctx):
    out = []
    for label, a, b in mandatory_pairs():
        out.append((f"mandatory ordered pair ({label}; A then B)", [dict(a), dict(b)]))
        out.append((f"mandatory ordered pair ({label}; B then A)", [dict(b), dict(a)]))
        ctx.count("mandatory:" + label.split(":")[0])
    return out


MAX_REPORTS = 10
WITH_STACKS = [["numpy.einsum"], ["numpy"], ["numpy.einsum", "numpy"], ["numpy.numpylike", "numpy.einsum", "numpy"], ["nosuch"], ["numpy", "nosuch"],
               ["numpy.einsum", "numpy", "numpy.einsum"], ["numpy", "numpy.einsum", "numpy", "numpy"]]


class Plan:
    """The calls of one run: a seeded choice of families (all of them in the thorough tier), each cut down to a few
    members, and a few `with` nests.  Keeping the pool small keeps the number of pristine interpreters small (one per
    distinct call) while histories still mix hits, misses and collisions within a family."""

    def __init__(self, rng, quick):
        fams = families(rng)
        if quick:
            fams = rng.sample(fams, 9)
            fams = [rng.sample(f, min(len(f), 4)) for f in fams]
        self.fams = fams
        self.stacks = rng.sample(WITH_STACKS, 2 if quick else 4)
        # calls inside `with` blocks come from these families only (every (call, with-nest) pair needs its own pristine run)
        cand = [f for f in fams if not f[0]["fn"].startswith(("solve", "matches"))]
        self.with_fams = rng.sample(cand, min(2 if quick else 8, len(cand)))
        self.quick = quick

    def sweep(self, rng, fam):
        """Every member of a family, then every member again in another order: repeats and in-family collisions."""
        a = list(fam)
        b = list(fam)
        rng.shuffle(a)
        rng.shuffle(b)
        return [dict(c) for c in a + b]

    def history(self, rng, length):
        chosen = rng.sample(self.fams, min(len(self.fams), rng.randint(2, 4)))
        items = []
        stack = []
        for _ in range(length):
            r = rng.random()
            if r < 0.1:
                stack = list(rng.choice(self.stacks))
            elif r < 0.25:
                stack = []
            fam = rng.choice(chosen)
            if stack and not any(fam is f for f in self.with_fams):
                fam = rng.choice(self.with_fams)
            c = dict(rng.choice(fam))
            if stack and not c["fn"].startswith(("solve", "matches")):
                c["with"] = list(stack)
                if rng.random() < 0.3:
                    c["escape"] = True
            items.append(c)
        return items


def gen_history(rng, length, plan=None):
    return (plan or Plan(rng, True)).history(rng, length)


# ================================================================================================= differential
def check_histories(srv, histories):
    """Warm runs (one process per history, all in parallel) vs cold runs (one pristine process per distinct call).
    Returns per history the list of (index, warm, cold) mismatches, and the warm results."""
    warm = srv.run(histories)
    # the first call of a history ran in a pristine interpreter: it is the cold run of that call (no extra fork needed)
    for h, w in zip(histories, warm):
        if h and len(w["outs"]) == len(h) and w["stacks"] == {"use_stack": 0, "dependon": 0} and not h[0].get("probe_key"):
            srv.cold_memo.setdefault(json.dumps(strip_escape(h[0]), sort_keys=True), w["outs"][0])
    flat = [c for h in histories for c in h]
    cold_flat = srv.cold(flat)
    out = []
    k = 0
    for h, w in zip(histories, warm):
        cold = cold_flat[k:k + len(h)]
        k += len(h)
        outs = w["outs"]
        if len(outs) != len(h):
            raise core.MachineryError(f"warm run returned {len(outs)} outcomes for {len(h)} calls")
        bad = [(i, o, c) for i, (o, c) in enumerate(zip(outs, cold)) if not same_outcome(o, c)]
        if w["stacks"] != {"use_stack": 0, "dependon": 0}:
            bad.append((len(h) - 1, {"err": "stacks-not-restored", "stacks": w["stacks"]}, cold[-1]))
        out.append(bad)
    return out, warm


def check_history(srv, items):
    bad, warm = check_histories(srv, [items])
    return bad[0], warm[0]


def _probe_fails(srv, histories, probe):
    """For each candidate history (run in parallel): does the probe still differ from its cold outcome?"""
    cold = srv.cold([probe])[0]
    res = srv.run([h + [probe] for h in histories])
    return [not same_outcome(r["outs"][-1], cold) or r["stacks"] != {"use_stack": 0, "dependon": 0} for r in res]


def shrink_history(srv, items, idx):
    """Smallest history whose last call still differs from its cold outcome: a single predecessor if one suffices,
    otherwise chunk-wise deletion (all candidates of a round are tried in parallel)."""
    probe = items[idx]
    hist = list(items[:idx])
    if "with" in probe:
        p2 = {k: v for k, v in probe.items() if k not in ("with", "escape")}
        if _probe_fails(srv, [hist], p2)[0]:
            probe = p2
    singles = []
    for h in hist:
        for h1 in ({k: v for k, v in h.items() if k not in ("with", "escape")}, h):
            if h1 not in singles:
                singles.append(h1)
    if singles:
        fl = _probe_fails(srv, [[h] for h in singles], probe)
        for h, f in zip(singles, fl):
            if f:
                return [h], probe
    n = 2
    rounds = 0
    while len(hist) >= 2 and rounds < 12:
        rounds += 1
        size = max(1, len(hist) // n)
        chunks = [(i, min(len(hist), i + size)) for i in range(0, len(hist), size)]
        cands = [hist[:a] + hist[b:] for a, b in chunks]
        fl = _probe_fails(srv, cands, probe)
        nxt = next((c for c, f in zip(cands, fl) if f), None)
        if nxt is not None:
            hist = nxt
            n = max(n - 1, 2)
        elif size == 1:
            break
        else:
            n = min(n * 2, len(hist))
    return hist, probe


def report(ctx, srv, hist, probe, origin):
    bad, warm = check_history(srv, hist + [probe])
    w = warm["outs"][-1]
    c = srv.cold([probe])[0]
    sig = "history: " + " ; ".join(W.call_sig(x) for x in hist) + " ; probe: " + W.call_sig(probe) + f" ; warm={brief(w)} ; cold={brief(c)}"
    if brief(w) == brief(c) and "array" in w.get("ok", {}) and "array" in c.get("ok", {}):
        sig += f" ; values differ: warm {w['ok']['array']['v'][:4]} cold {c['ok']['array']['v'][:4]}"
    if warm["stacks"] != {"use_stack": 0, "dependon": 0}:
        sig += f" ; context stacks left behind after the history: use_stack={warm['stacks']['use_stack']} dependon={warm['stacks']['dependon']}"
    ctx.violation(sig, {"kind": "outcome of the last call depends on the earlier calls (warm process vs pristine interpreter)",
                        "origin": origin, "history": hist, "probe": probe, "warm_outcome": w, "cold_outcome": c,
                        "python": W.history_src(hist + [probe]),
                        "how_to_replay": "run the `python` script with /venv/bin/python: it prints the outcome of every call; then run only the last call in a fresh interpreter"})
    return sig


def root_key(h, probe):
    """Groups failing (predecessor, probe) pairs that are the same situation up to the concrete values (one report per group)."""
    if all(h.get(k) == probe.get(k) for k in ("fn", "desc", "targs", "tkw", "backend", "graph")) and [k for k, _ in h["kw"]] == [k for k, _ in probe["kw"]]:
        diff = [k for (k, v), (_, w) in zip(h["kw"], probe["kw"]) if v != w]
        if diff:
            return json.dumps(["keyword-type", probe["fn"], diff])
    return json.dumps([strip_ctx(h), strip_ctx(probe)], sort_keys=True)


def strip_ctx(c):
    return {k: v for k, v in c.items() if k not in ("with", "escape")}


def search(ctx, srv, plan, n_hist, directed, mandatory=()):
    rng = ctx.rng
    found = []
    roots = {}       # root key -> True once reported (or explained)

    histories = list(mandatory)
    for pair in directed:
        histories.append(("directed pair built from a key collision reported by the value correspondence", pair))
    for fam in plan.fams:
        histories.append(("family sweep (every member twice)", plan.sweep(rng, fam)))
    for _ in range(n_hist):
        histories.append(("random history", plan.history(rng, rng.randint(5, 30))))
    for origin, h in histories:
        ctx.count("search:" + origin.split(" (")[0].replace(" ", "_"))
        ctx.count("search:calls", len(h))
        for c in h:
            ctx.count("search:fn:" + c["fn"].split(":")[0])
            if c.get("with"):
                ctx.count("search:calls_inside_with")
    bads, _ = check_histories(srv, [h for _, h in histories])
    for (origin, items), bad in zip(histories, bads):
        if not bad:
            continue
        ctx.count("search:failing_histories")
        idx, w, c = bad[0]
        probe = items[idx]
        # already explained by a reported root?  (a predecessor that forms a reported pair with the probe: no forks needed)
        if any(root_key(h, probe) in roots for h in items[:idx]):
            ctx.count("search:failing_histories_same_root_as_reported")
            continue
        if len(found) >= MAX_REPORTS:
            ctx.count("search:failing_histories_beyond_report_cap")
            continue
        hist, probe = shrink_history(srv, items, idx)
        key = root_key(hist[0], probe) if len(hist) == 1 else json.dumps([hist, probe], sort_keys=True)
        if key in roots:
            ctx.count("search:failing_histories_same_root_as_reported")
            continue
        roots[key] = True
        found.append(report(ctx, srv, hist, probe, origin))
    return found


def directed_from_collisions(collisions, cap):
    """Two-call histories (both orders) for key collisions between keyword-able values with different typed observation."""
    out = []
    seen = set()
    for a, b in collisions:
        va, vb = to_vspec(a), to_vspec(b)
        if va is None or vb is None:
            continue
        key = (type_sig(a), type_sig(b))
        if key in seen or (key[1], key[0]) in seen:
            continue
        seen.add(key)
        if va[0] in ("list", "tuple", "arr") and not (va[0] == "arr" and not isinstance(va[2], list)):
            ns = np.asarray(a).astype("float64").reshape(-1)
            shape = tuple(int(x) for x in ns) if len(ns) and all(x == int(x) and 1 <= x <= 4 for x in ns) and np.asarray(a).ndim == 1 else None
            if shape is None:
                continue
            mk = lambda v: call("id", "b... -> b...", [T(shape)], [("b", v)])  # noqa: E731
            out.append([mk(va), mk(vb)])
            out.append([mk(vb), mk(va)])
        else:
            for mk in (lambda v: call("id", "a b -> a b c", [T((2, 3))], [("c", v)]),
                       lambda v: call("roll", "a [b]", [T((2, 3))], [("shift", v)]),
                       lambda v: call("adapter:reduce_scaled", "a [b]", [T((2, 3))], [("scale", v)])):
                out.append([mk(va), mk(vb)])
                out.append([mk(vb), mk(va)])
        if len(out) >= cap:
            break
    return out


# ================================================================================================= run
def correspondence_values(ctx, drv, table, n_pairs):
    """(a): model vs CPython on freeze / == / hash.  Returns the key collisions with different typed observation."""
    from einx._src.util.lru_cache import _freeze_value
    rng = ctx.rng
    collisions = []
    disagreements = 0
    batch = []
    meta = []
    conv_frozen = ctx.facts.get("Cache", {}).get("convEq") == "frozen"
    tags_all = bool(ctx.extra.get("table_status", {}).get("tagsAll"))

    def flush():
        nonlocal disagreements
        if not batch:
            return
        res = drv.ask_many(batch)
        for (kind, a, b, real), r in zip(meta, res):
            if kind == "pair":
                # `hitF`: equal hash and == with ConvertibleTensor.__eq__ on the frozen concretes (the tree being checked);
                # `hit`: the raw comparison of the pinned tree
                model = {"eq": r["hitF"] if conv_frozen else r["hit"], "hash_eq": r["hash_eq"]}
                # shadows of the theorems of Props/C06Hash.lean on the real values:
                # pyEq_hash (CPython side, independent of the model): `==` between two frozen keys implies equal hashes
                if real.get("raw_eq") and not real["hash_eq"] and disagreements < 5:
                    disagreements += 1
                    ctx.tie_broken("correspondence:hash-consistency", f"a={a!r} b={b!r}: the frozen values are == but hash differently (a later call may or may not hit)")
                # frozen_key_eq_iff: the real keys are == exactly when the model's exact observations of the raw values agree
                if tags_all and conv_frozen and r["flat"]:
                    ctx.count("pairs:exact-observation-checked")
                    if r["exact"] != real["eq"] and disagreements < 5:
                        disagreements += 1
                        ctx.tie_broken("correspondence:key-eq-iff-exact-observation", f"a={a!r} b={b!r}: real key equality {real['eq']} vs exact observation equality {r['exact']}")
                    if r["exact"] != r["eqF"]:
                        raise core.MachineryError(f"driver contradicts frozen_key_eq_iff on a={a!r} b={b!r}")
                if r["wf"] and r["eqF"] and not r["hash_eq"]:
                    raise core.MachineryError(f"driver contradicts pyEq_hash on a={a!r} b={b!r}")
                if model != {"eq": real["eq"], "hash_eq": real["hash_eq"]} and disagreements < 5:
                    disagreements += 1
                    ctx.tie_broken("correspondence:freeze-eq-hash", f"a={a!r} b={b!r}: CPython {real} vs model {model}")
                    ctx.sample({"DISAGREEMENT": True, "a": repr(a), "b": repr(b), "real": real, "model": model})
                if model["eq"] and real["eq"] and not r["typed"] and not _has_factory_placeholder(a) and not _has_factory_placeholder(b):
                    collisions.append((a, b))
                    ctx.count("collision:" + "|".join(sorted([type_sig(a), type_sig(b)]))[:80])
                ctx.count("pairs:key-equal" if real["eq"] and real["hash_eq"] else "pairs:key-different")
            elif kind == "freeze":
                if canon_model(r["v"]) != canon_model(real) and disagreements < 5:
                    disagreements += 1
                    ctx.tie_broken("correspondence:freeze-form", f"x={a!r}: CPython {json.dumps(real)[:300]} vs model {json.dumps(r['v'])[:300]}")
            elif kind == "hash":
                if r["h"] != real and disagreements < 5:
                    disagreements += 1
                    ctx.tie_broken("correspondence:hash-value", f"x={a!r}: hash {real} vs model {r['h']}")
        batch.clear()
        meta.clear()

    for i in range(n_pairs):
        a = gen_value(rng)
        b = mutate(rng, a) if rng.random() < 0.85 else gen_value(rng)
        if _has_factory_placeholder(a) or _has_factory_placeholder(b):
            # `keyEq` (Cache/KeyEq.lean) models the frozen comparison of `concrete`, `pyEq` the raw one of the pinned tree
            ctx.count("pairs:with-factory-placeholder")
        cv = Converter()
        try:
            fa, fb = _freeze_value(a), _freeze_value(b)
            ja, jb = cv.conv(a), cv.conv(b)
            jfa = cv.conv(fa)
            try:
                heq = hash(fa) == hash(fb)
                eq = fb in {fa: 1}          # the cache's own mechanism: equal hash, then ==
                try:
                    raw_eq = bool(fa == fb)
                except Exception:
                    # `==` itself fails (e.g. numpy scalar against a huge Python int through an untyped comparison): the
                    # cache never gets there when the hashes differ; nothing to say about hash consistency for this pair
                    raw_eq = None
                    ctx.count("pairs:raw-eq-raised")
            except TypeError:
                # unhashable leaf that fell through (not generated) – or a comparison that does not return a bool
                raise core.MachineryError(f"generated value not hashable/comparable after freezing: {a!r} / {b!r}")
        except core.MachineryError:
            raise
        env = cv.env_json()
        batch.append({"kind": "pyeq", "table": table, "env": env, "a": ja, "b": jb})
        meta.append(("pair", a, b, {"eq": eq, "hash_eq": heq, "raw_eq": raw_eq}))
        if i % 4 == 0:
            batch.append({"kind": "freeze", "table": table, "v": ja})
            meta.append(("freeze", a, None, jfa))
        if i % 4 == 1:
            # exact hash values: numbers and tuples of numbers/strings/None/types (CPython's algorithms are modelled exactly there)
            x = fa
            if True:
                batch.append({"kind": "pyhash", "table": table, "env": env, "v": jfa})
                meta.append(("hash", x, None, hash(x)))
                ctx.count("exact-hash-values")
        nontrivial = not isinstance(a, (int, float, str, type(None))) or type(a) is not type(b)
        ctx.case(None if not nontrivial else [repr(a)[:200], repr(b)[:200]], nontrivial)
        ctx.count("value:" + type(a).__name__)
        if i < 3:
            ctx.sample({"a": repr(a)[:200], "b": repr(b)[:200], "key_equal": eq and heq})
        if len(batch) >= 1500:
            flush()
    flush()
    return collisions, disagreements


def _has_factory_placeholder(x):
    from einx._src.tracer.signature.classical import ConvertibleTensor
    if isinstance(x, ConvertibleTensor):
        return hasattr(x.concrete, "parameters")
    if isinstance(x, (list, tuple)):
        return any(_has_factory_placeholder(e) for e in x)
    if isinstance(x, dict):
        return any(_has_factory_placeholder(e) for e in x.values())
    if isinstance(x, types.SimpleNamespace):
        return any(_has_factory_placeholder(e) for e in vars(x).values())
    if isinstance(x, inspect.Parameter):
        return _has_factory_placeholder(x.default)
    return False


def _hash_exact(x):
    if isinstance(x, tuple):
        return all(_hash_exact(e) for e in x)
    return isinstance(x, (int, float, bool, np.integer, np.floating, np.bool_, str, type(None), type)) and not isinstance(x, inspect._ParameterKind)


def correspondence_numhash(ctx, drv):
    """CPython's `hash` of numbers against the three functions of the model: the specification `numHash` (what `pyHash` uses),
    and the algorithms `hashInt` (long_hash) / `hashDouble` (_Py_HashDouble) of Cache/NumHash.lean, which Props/C06Num.lean
    proves equal to it.  Ints of up to ~200 bits, doubles with random 53-bit mantissas and exponents in [-90, 40], integral
    doubles, numpy scalars of every kind."""
    rng = ctx.rng
    vals = []
    for v in INT_POOL + [2 ** 53 - 1, 2 ** 53, -(2 ** 53) + 1, 2 ** 30 - 1, 2 ** 30, 2 ** 60, 2 ** 122 - 2, -(2 ** 61 - 1), 2 ** 61 - 2]:
        vals.append(("pyInt", v))
        if abs(v) < 2 ** 53:
            vals.append(("pyFloat", float(v)))
    n = 400 if ctx.quick else 6000
    for _ in range(n):
        r = rng.random()
        if r < 0.3:
            v = rng.getrandbits(rng.choice([5, 29, 30, 31, 59, 60, 61, 62, 64, 90, 121, 200])) * rng.choice([1, -1])
            vals.append(("pyInt", v))
        elif r < 0.6:
            m = rng.getrandbits(rng.choice([1, 3, 24, 28, 29, 52, 53])) * rng.choice([1, -1])
            vals.append(("pyFloat", float(m) * 2.0 ** rng.randint(-90, 40)))
        elif r < 0.75:
            v = rng.getrandbits(rng.choice([3, 20, 40, 53])) * rng.choice([1, -1])
            vals.append(("pyFloat", float(v)))
            vals.append(("pyInt", v))
        else:
            kind = rng.choice(ALL_KINDS)
            x = gen_scalar(rng)
            if x is not None:
                vals.append((next(k for k, t in KIND_TYPE.items() if type(x) is t), x))
    reqs, meta = [], []
    for kind, v in vals:
        x = KIND_TYPE[kind](v) if not isinstance(v, (np.generic,)) and kind not in ("pyInt", "pyFloat", "pyBool") else v
        num, e = W._dy(x)
        reqs.append({"kind": "numhash", "k": kind, "n": num, "e": e})
        meta.append((kind, x, num, e))
    bad = 0
    for (kind, x, num, e), r in zip(meta, drv.ask_many(reqs)):
        ctx.count("numhash:values")
        ctx.count("numhash:" + ("integral" if e == 0 else "fractional") + ":" + ("float" if kind in FLOAT_KINDS else "int"))
        real = hash(x)
        want = {"spec": real, "kind": real, "double": hash(float(x)) if e > 0 or abs(num) < 2 ** 53 else None}
        if e == 0:
            want["int"] = hash(int(num))
        for f, w in want.items():
            if w is not None and r.get(f) != w and bad < 5:
                bad += 1
                ctx.tie_broken("correspondence:numeric-hash", f"{kind} {x!r} (= {num} / 2**{e}): CPython hash {w}, model `{f}` {r.get(f)}")
        if e == 0 and r["int"] != r["double"]:
            raise core.MachineryError(f"driver contradicts int_float_hash_agree on {num}")
        if r["spec"] != r["kind"]:
            raise core.MachineryError(f"driver contradicts hashNum_eq_numHash on {kind} {num}/2**{e}")


def correspondence_stack(ctx, drv):
    """The model of the `with` protocol against CPython's `with` on the real context managers."""
    import einx
    import einx._src.tracer as tracer
    import einx._src.frontend.backend as B
    import einx._src.tracer.graph as G
    rng = ctx.rng
    cfg = ctx.facts.get("Cache", {}).get("stack") or {}
    if not cfg:
        return
    names = ["numpy", "numpy.einsum", "numpy.numpylike"]
    backends = [einx.backend.get(n) for n in names]

    def gen(depth):
        r = rng.random()
        if depth >= 4 or r < 0.25:
            return {"p": "prim", "raises": rng.random() < 0.4}
        if r < 0.5:
            return {"p": "seq", "a": gen(depth + 1), "b": gen(depth + 1)}
        if r < 0.7:
            return {"p": "with", "b": rng.randrange(3), "body": gen(depth + 1)}
        if r < 0.85:
            return {"p": "deps", "d": [rng.randrange(5)], "body": gen(depth + 1)}
        return {"p": "try", "body": gen(depth + 1)}

    class Boom(Exception):
        pass

    def run(p):
        k = p["p"]
        if k == "prim":
            if p["raises"]:
                raise Boom()
        elif k == "seq":
            run(p["a"])
            run(p["b"])
        elif k == "with":
            with backends[p["b"]]:
                run(p["body"])
        elif k == "deps":
            with tracer.depend_on(*p["d"]):
                run(p["body"])
        else:
            try:
                run(p["body"])
            except Boom:
                pass

    n = 200 if ctx.quick else 3000
    for _ in range(n):
        p = gen(0)
        try:
            run(p)
            status = "normal"
        except Boom:
            status = "raised"
        real = {"use": [backends.index(b) for b in B.registry.state.use_stack], "dep": len(getattr(G._dependon, "stack", [])), "status": status}
        model = drv.ask({"kind": "stack", "cfg": cfg, "prog": p})
        ctx.count("stack-programs")
        if real != model:
            ctx.tie_broken("correspondence:with-protocol", f"program {json.dumps(p)}: real {real} vs model {model}")
            # leave the process-global stacks clean for what follows
            B.registry.state.use_stack.clear()
            if hasattr(G._dependon, "stack"):
                G._dependon.stack.clear()
            break


def run(ctx):
    facts = ctx.facts.get("Cache", {})
    table = {"rows": facts.get("rows", []), "fallthrough": facts.get("fallthrough", "unknown")}
    ctx.extra["rule"] = (
        "(a) pairs of Python values (numbers of 12 kinds incl. numpy scalars, strings, None, types, identity objects, nested lists/tuples/arrays of 9 dtypes, dicts, "
        "SimpleNamespace, inspect.Parameter, Tensor / ConvertibleTensor placeholders); the second is an equal-but-not-identical or slightly changed variant of the first; "
        "_freeze_value / == / hash of CPython against the model; non-trivial = composite value or a pair of different types; distinct by repr of the pair. "
        "(b) histories of 5-30 real einx calls from 30 families of equal-but-not-identical calls (keyword values 2 / 2.0 / True / numpy scalars / 0-d arrays, list / tuple / "
        "array constraints, array / Python scalar / tensor-factory arguments, graph=True, explicit and `with` backends incl. nested and exceptional exits, parse / solve / "
        "trace / run-time failures, adapters, solve_* / matches); every outcome is compared with the same call in a pristine forked interpreter")
    ctx.assumptions.append("CPython/numpy `==` and `hash` on values that are not exactly representable in every float kind, NaN, and the identity short-cut of container "
                           "comparison are outside the model M9; ndarray values inside ConvertibleTensor.concrete (tensor-factory defaults) are not generated by the pair correspondence (the frozen comparison `keyEq` would treat them through tolist()) and are covered by the search only")
    ctx.assumptions.append("the pristine interpreter is a fork of a process that imported numpy and einx and never called einx; warm and cold runs share the machine, the numpy build and the environment")
    collisions = []
    if ctx.driver_ok:
        drv = ctx.driver()
        st = drv.ask({"kind": "cache-table"})
        if st["table"] != table:
            ctx.tie_broken("extract:cache:table-mismatch", f"compiled table {st['table']} differs from the extractor's facts {table}")
        ctx.extra["table_status"] = {k: st[k] for k in ("known", "respects", "tagsAll", "tagsNone", "stackOk", "convEqFrozen")}
        if st["known"] and st["respects"] and not st["tagsAll"]:
            # not a broken tie: the full theorem `key_refines_observation` is not available for this tree; the search decides whether that matters
            ctx.notes.append("the extracted _freeze_value table does not tag scalars with their type: only key_refines_observation_partial / einx_cache_transparent_partial apply")
        t0 = time.time()
        collisions, _ = correspondence_values(ctx, drv, table, 20000 if ctx.quick else 300000)
        ctx.extra["seconds_values"] = round(time.time() - t0, 1)
        correspondence_numhash(ctx, drv)
        correspondence_stack(ctx, drv)
    ctx.extra["key_collisions_with_different_observation"] = len(collisions)
    full_theorem = bool(ctx.extra.get("table_status", {}).get("tagsAll")) and ctx.lean_ok
    srv = Server()
    try:
        directed = directed_from_collisions(collisions, 4 if ctx.quick else 120)
        # the D8 pair is always tried (in both orders), whatever the correspondence found
        d8 = [call("id", "a b -> a b c", [T((2, 3))], [("c", ["int", 2])]), call("id", "a b -> a b c", [T((2, 3))], [("c", ["float", 2, 1])])]
        # a tensor factory whose signature has an array as default value, called twice: M9 excludes arrays inside
        # ConvertibleTensor.concrete (their `==` is not a bool), so this corner is covered by a directed history
        fa = call("multiply", "a, a -> a", [["F", "def_array_default"], T((4,))])
        # a backend chosen by `with` must win over a backend that an earlier plain call resolved (and memoised) from the
        # tensor types: plain call first, then the same tensor types inside `with` -- with graph=True (the text names the
        # backend's functions) and with an operation that the `with` backend does not support
        s0 = call("sum", "a [b]", [T((2, 3))])
        w1 = call("sum", "a [b]", [T((2, 3))], graph=True, **{"with": ["numpy.einsum"]})
        w2 = call("flip", "a [b]", [T((2, 3))], **{"with": ["numpy.einsum"]})
        d0 = call("dot", "a [b], [b] c -> a c", [T((2, 3)), T((3, 2))])
        w3 = call("dot", "a [b], [b] c -> a c", [T((2, 3)), T((3, 2))], graph=True, **{"with": ["numpy.numpylike"]})
        w4 = call("dot", "a [b], [b] c -> a c", [T((2, 3)), T((3, 2))], graph=True, **{"with": ["numpy.einsum", "numpy.numpylike"]})
        # re-entering a backend that is already on the stack and leaving it again must restore the enclosing selection:
        # calls in blocks [A, B, A], then [A, B], then [A], then outside, for both roles of the two backends
        reenter = []
        for A, B in (("numpy.einsum", "numpy"), ("numpy", "numpy.einsum"), ("numpy.numpylike", "numpy.einsum")):
            mk = lambda stack: call("sum", "a [b]", [T((2, 3))], graph=True, **({"with": stack} if stack else {}))  # noqa: E731
            mf = lambda stack: call("flip", "a [b]", [T((2, 3))], **({"with": stack} if stack else {}))  # noqa: E731
            reenter.append([mk([A, B, A]), mk([A, B]), mf([A, B]), mk([A]), mf([A]), mk([]), mf([])])
            reenter.append([mk([A, A, B]), mk([A, A]), mk([A]), mk([A, B]), mk([])])
        # keyword tensors in two orders, both ways round
        wt = {"mask": T((2,), "bool_"), "x": T((2, 3)), "y": T((3,))}
        wk = lambda order: call("where", "a, a b, b -> a b", [], tkw=[[k, wt[k]] for k in order])  # noqa: E731
        kworder = [[wk(("mask", "x", "y")), wk(("y", "x", "mask"))], [wk(("y", "x", "mask")), wk(("mask", "x", "y"))], [wk(("x", "mask", "y")), wk(("mask", "y", "x"))]]
        directed = [d8, d8[::-1], [fa, dict(fa)], [s0, w1], [s0, w2], [d0, w3, w4]] + reenter + kworder + directed
        broken = bool(ctx.broken) or not full_theorem
        n_hist = (20 if ctx.quick else 500) if not broken else (24 if ctx.quick else 800)
        t0 = time.time()
        plan = Plan(ctx.rng, ctx.quick)
        mandatory = mandatory_histories(ctx)
        ctx.extra["mandatory_ordered_pairs"] = [label for label, _, _ in mandatory_pairs()]
        found = search(ctx, srv, plan, n_hist, directed, mandatory)
        # evidence: a pair can only expose a confusion of its members if their pristine outcomes differ
        mp = mandatory_pairs()
        cm = srv.cold([c for _, a, b in mp for c in (a, b)])
        same = [label for (label, _, _), i in zip(mp, range(0, len(cm), 2)) if same_outcome(cm[i], cm[i + 1])]
        ctx.count("mandatory:pairs", len(mp))
        ctx.count("mandatory:pairs_with_different_pristine_outcomes", len(mp) - len(same))
        if same and not ctx.broken and not found:
            raise core.MachineryError(f"mandatory pairs whose members have the same pristine outcome (the pair cannot expose a confusion): {same}")
        ctx.extra["seconds_search"] = round(time.time() - t0, 1)
        t0 = time.time()
        if ctx.driver_ok:
            correspondence_memo(ctx, srv, table, plan)
        ctx.extra["seconds_memo"] = round(time.time() - t0, 1)
        ctx.extra["forked_interpreters"] = srv.n_forks
        ctx.extra["violations_found_by_search"] = len(found)
    finally:
        srv.close()


def correspondence_memo(ctx, srv, table, plan):
    """(b) against the model: the memo machine of M9, given the keys the real code builds (recorded at `_freeze_args`) and
    the fresh outcome of every distinct call, predicts which compiled function every call of a history gets."""
    rng = ctx.rng
    n = 6 if ctx.quick else 80
    drv = ctx.driver()
    for _ in range(n):
        items = [c for c in plan.history(rng, rng.randint(6, 16)) if not c["fn"].startswith(("solve", "matches"))]
        items = [{k: v for k, v in c.items() if k not in ("with", "escape")} for c in items]
        if not items:
            continue
        res = srv.run([[dict(c, probe_key=True) for c in items]])[0]
        warm = res["outs"]
        keys = res.get("keys")
        if keys is None or len(keys) != len(items):
            raise core.MachineryError("key probe returned no keys")
        cold = srv.cold(items)
        idx_of, calls, fresh, hist, pos, first = {}, [], [], [], [], []
        for i, (c, k) in enumerate(zip(items, keys)):
            if k is None:
                continue   # the call failed before it reached the cache (backend resolution, invalid tensor type)
            s = json.dumps(c, sort_keys=True)
            if s not in idx_of:
                idx_of[s] = len(calls)
                calls.append(k)
                first.append(i)
                o = cold[i]
                compiled = "ok" in o or o.get("err") == "einx.errors.CallOperationError"   # a run-time failure happens after compilation
                fresh.append({"ok": idx_of[s]} if compiled else {"raised": o.get("err", "?")})
            hist.append(idx_of[s])
            pos.append(i)
        if not hist:
            continue
        r = drv.ask({"kind": "memo", "table": table, "env": res["env"], "calls": calls, "fresh": fresh, "history": hist})
        ctx.count("memo:histories")
        for j, (o, i) in enumerate(zip(r["outs"], pos)):
            if "raised" in o:
                ctx.count("memo:predicted-raise")
                ok = warm[i].get("err") == o["raised"]
                expect = "raised " + o["raised"]
            else:
                src = first[o["ok"]]
                if o["ok"] != hist[j]:
                    ctx.count("memo:predicted-hit-through-other-call")
                if items[src]["targs"] != items[i]["targs"] or items[src].get("tkw") != items[i].get("tkw") or bool(items[src].get("graph")) != bool(items[i].get("graph")):
                    ctx.count("memo:unpredictable-data-differs")
                    continue
                ctx.count("memo:predicted-outcome")
                ok = same_outcome(warm[i], cold[src])
                expect = brief(cold[src])
            if not ok:
                ctx.tie_broken("correspondence:memo-machine", f"step {j} of {[W.call_sig(c) for c in items]}: model predicts {expect}, real outcome {brief(warm[i])}")
                return


def replay(ctx, path):
    with open(path) as f:
        r = json.load(f)["replay"]
    if "history" not in r:
        print(json.dumps(r, indent=1)[:4000])
        return 0
    srv = Server(workers=4)
    try:
        bad, warm = check_history(srv, r["history"] + [r["probe"]])
        cold = srv.cold([r["probe"]])[0]
        print("history:")
        for c in r["history"]:
            print("   ", W.call_src(c))
        print("probe:  ", W.call_src(r["probe"]))
        print("warm outcome:", brief(warm["outs"][-1]))
        print("cold outcome:", brief(cold))
        still = any(i == len(r["history"]) for i, _, _ in bad)
        print("REPRODUCED" if still else "not reproduced on this tree")
        return 1 if still else 0
    finally:
        srv.close()
