"""Ties for the Python -> Lean mini translator (used by C17's run): the *translated* definitions of
`Extracted/Stb.lean`, compiled into the driver, against the *real* Python functions on the same inputs, and the
reading of Python's builtins (`Basic/PyPrelude.lean`) against CPython.

* `stb_tie`: `einx._src.adapter._util._squeeze_transpose_broadcast` is run on random flat stage-3 expressions
  (repeated names, unit axes, missing axes, both values of `broadcast_to_unitary`) with a recording `classical`
  whose `reshape` / `transpose` / `broadcast_to` are the real wrappers of `classical_from_numpy` around recording
  primitives; the recorded program, result register, shape, returned expression and the exception class must equal
  the answer of the driver request `xlate_stb` (which runs `Extracted.Stb.squeezeTransposeBroadcast`).
* `diag_tie`: the same for `classical_from_numpy.diagonal(rec_diagonal, real transpose wrapper, to_tensor)` and
  `xlate_diag`, incl. negative and out-of-range axes.
* `prelude_tie`: slices, `list.insert`, negative indexing, `list.index`, `sorted`, `sum`, set algebra, `//`, `%`,
  `enumerate`, `range`, dict assignment order and lookup, against CPython on random small integer inputs.

A disagreement is a broken tie `correspondence:xlate-*` (never a violation by itself).
"""
from types import SimpleNamespace


class T:
    """Stand-in for a traced tensor: register number and shape."""

    def __init__(self, reg, shape):
        self.reg, self.shape = reg, tuple(int(s) for s in shape)

    @property
    def ndim(self):
        return len(self.shape)


class Rec:
    """Recording numpy primitives (what `St.npReshape` etc. model)."""

    def __init__(self, shape):
        self.prog = []
        self.next = 1
        self.t0 = T(0, shape)
        self.outside = None     # set when a primitive is used outside the model's domain (the case is then not compared)

    def emit(self, instr, shape):
        t = T(self.next, shape)
        self.next += 1
        self.prog.append(instr)
        return t

    def reshape(self, x, shape):
        return self.emit({"i": "reshape", "x": x.reg, "shape": [int(s) for s in shape]}, shape)

    def transpose(self, x, perm):
        perm = [int(p) for p in perm]
        if any(p < 0 or p >= x.ndim for p in perm):
            self.outside = "transpose with an out-of-range axis"
            raise ValueError("axis out of range")
        return self.emit({"i": "transpose", "x": x.reg, "perm": perm}, [x.shape[p] for p in perm])

    def broadcast_to(self, x, shape):
        return self.emit({"i": "broadcast_to", "x": x.reg, "shape": [int(s) for s in shape]}, shape)

    def diagonal(self, x, *, axis1, axis2):
        a1, a2 = int(axis1), int(axis2)
        if a1 < 0 or a2 < 0:
            self.outside = "np.diagonal with a negative axis"
            raise ValueError("negative axis")
        if a1 == a2 or a1 >= x.ndim or a2 >= x.ndim:
            raise ValueError("invalid axes")          # numpy: ValueError / AxisError (a ValueError)
        if x.shape[a1] != x.shape[a2]:
            self.outside = "np.diagonal of axes of different lengths (the model rejects it, numpy takes the shorter)"
            raise ValueError("different lengths")
        rest = [s for i, s in enumerate(x.shape) if i not in (a1, a2)]
        return self.emit({"i": "diagonal", "x": x.reg, "a1": a1, "a2": a2}, rest + [x.shape[a1]])


def _to_tensor(*xs):
    return list(xs)


def _names(expr, stage3):
    return [[("unnamed." if a.name.startswith("unnamed.") else a.name), int(a.value)] for a in expr.nodes() if isinstance(a, stage3.Axis)]


def stb_tie(ctx, n):
    import einx._src.namedtensor.stage3 as stage3
    import einx._src.adapter.numpy.classical_from_numpy as cfn
    from einx._src.adapter._util import _squeeze_transpose_broadcast
    rng = ctx.rng
    cases = []
    for _ in range(n):
        k_in, k_out = rng.randint(0, 5), rng.randint(0, 5)
        pool = "abcdef"[: rng.randint(2, 6)]
        lens = {c: rng.choice([1, 1, 2, 3, 4]) for c in pool}
        if rng.random() < 0.6:
            # derive the output from the input (valid calls): drop some unit axes, permute, add broadcast axes
            ein = [rng.choice(pool) for _ in range(k_in)] if rng.random() < 0.3 else rng.sample(pool, min(k_in, len(pool)))
            keep = [a for a in ein if not (lens[a] == 1 and rng.random() < 0.5)]
            rng.shuffle(keep)
            extra = [c for c in pool if c not in ein and rng.random() < 0.4]
            eout = list(keep)
            for c in extra:
                eout.insert(rng.randint(0, len(eout)), c)
        else:
            ein = [rng.choice(pool) for _ in range(k_in)]
            eout = [rng.choice(pool) for _ in range(k_out)]
        cases.append(([[a, lens[a]] for a in ein], [[a, lens[a]] for a in eout], rng.random() < 0.3))
    answers = ctx.driver().ask_many([{"kind": "xlate_stb", "ein": ei, "eout": eo, "unitary": u} for ei, eo, u in cases])
    for (ei, eo, u), lean in zip(cases, answers):
        rec = Rec([v for _, v in ei])
        classical = SimpleNamespace(reshape=cfn.reshape(rec.reshape, _to_tensor), transpose=cfn.transpose(rec.transpose, _to_tensor),
                                    broadcast_to=cfn.broadcast_to(rec.broadcast_to, _to_tensor))
        expr_in = stage3.List.create([stage3.Axis(a, v) for a, v in ei])
        expr_out = stage3.List.create([stage3.Axis(a, v) for a, v in eo])
        try:
            e, t = _squeeze_transpose_broadcast(classical, expr_in, rec.t0, expr_out, broadcast_to_unitary=u)
            real = {"ok": {"prog": rec.prog, "out": t.reg, "shape": list(t.shape), "expr_out": _names(e, stage3)}}
        except Exception as ex:  # the translation names the exception class
            real = {"err": type(ex).__name__}
        if rec.outside:
            ctx.count("xlate-stb:outside-model-domain")
            continue
        ctx.count("xlate-stb:" + ("ok" if "ok" in real else real["err"]) + (":unitary" if u else ""))
        if real != lean:
            ctx.tie_broken("correspondence:xlate-stb", f"_squeeze_transpose_broadcast(in={ei}, out={eo}, broadcast_to_unitary={u}): real {real} vs translation {lean}")
            ctx.count("xlate-stb:DIFF")
            return
    ctx.extra["xlate_stb_cases"] = len(cases)


def diag_tie(ctx, n):
    import einx._src.adapter.numpy.classical_from_numpy as cfn
    rng = ctx.rng
    cases = []
    for _ in range(n):
        rank = rng.randint(1, 5)
        d = rng.choice([1, 2, 3])
        shape = [rng.choice([1, 2, 3, 4]) for _ in range(rank)]
        k = rng.randint(1, min(3, rank))
        axes = rng.sample(range(rank), k)
        if rng.random() < 0.85:
            for a in axes:
                shape[a] = d
        if rng.random() < 0.2:
            axes = [a - rank if rng.random() < 0.5 else a for a in axes]     # negative axes are canonicalised
        if rng.random() < 0.1:
            axes[rng.randrange(len(axes))] = rng.choice([rank, rank + 1, -rank - 1])   # out of range: ValueError
        if rng.random() < 0.05:
            axes = axes + [axes[0]]                                           # repeated axis: np.diagonal raises
        out_rank = rank - k + 1
        axis_out = rng.randint(0, out_rank - 1) if rng.random() < 0.8 else rng.randint(-rank - 1, rank)
        cases.append((shape, axes, axis_out))
    answers = ctx.driver().ask_many([{"kind": "xlate_diag", "shape": s, "axes_in": a, "axis_out": o} for s, a, o in cases])
    for (shape, axes, axis_out), lean in zip(cases, answers):
        rec = Rec(shape)
        transpose = cfn.transpose(rec.transpose, _to_tensor)
        diag = cfn.diagonal(rec.diagonal, transpose, _to_tensor)
        try:
            t = diag(rec.t0, list(axes), axis_out)
            real = {"ok": {"prog": rec.prog, "out": t.reg, "shape": list(t.shape)}}
        except Exception as ex:
            real = {"err": type(ex).__name__}
        if rec.outside:
            ctx.count("xlate-diag:outside-model-domain")
            continue
        ctx.count("xlate-diag:" + ("ok" if "ok" in real else real["err"]))
        if real != lean:
            ctx.tie_broken("correspondence:xlate-diag", f"diagonal(shape={shape}, axes_in={axes}, axis_out={axis_out}): real {real} vs translation {lean}")
            ctx.count("xlate-diag:DIFF")
            return
    ctx.extra["xlate_diag_cases"] = len(cases)


def prelude_tie(ctx, n):
    rng = ctx.rng
    reqs, want = [], []

    def ints(lo=0, hi=6, vmax=4):
        return [rng.randint(-vmax, vmax) for _ in range(rng.randint(lo, hi))]

    def exc(f):
        try:
            return {"ok": {"v": f()}}
        except Exception as ex:
            return {"err": type(ex).__name__}

    for _ in range(n):
        l, a, b = ints(), ints(), ints()
        i, x = rng.randint(-8, 8), rng.randint(-4, 4)
        lo = rng.choice([None, rng.randint(-8, 8)])
        hi = rng.choice([None, rng.randint(-8, 8)])
        reqs.append({"kind": "py_prelude", "fn": "slice", "l": l, "lo": lo, "hi": hi}); want.append({"v": l[lo:hi]})
        m = list(l); m.insert(i, x)
        reqs.append({"kind": "py_prelude", "fn": "listInsert", "l": l, "i": i, "x": x}); want.append({"v": m})
        reqs.append({"kind": "py_prelude", "fn": "getInt", "l": l, "i": i}); want.append(exc(lambda: l[i]))
        reqs.append({"kind": "py_prelude", "fn": "index", "l": l, "x": x}); want.append(exc(lambda: l.index(x)))
        reqs.append({"kind": "py_prelude", "fn": "sortedInt", "l": l}); want.append({"v": sorted(l)})
        reqs.append({"kind": "py_prelude", "fn": "sumInt", "l": l}); want.append({"v": sum(l)})
        reqs.append({"kind": "py_prelude", "fn": "setLen", "l": l}); want.append({"v": len(set(l))})
        reqs.append({"kind": "py_prelude", "fn": "setDiffLen", "a": a, "b": b}); want.append({"v": len(set(a) - set(b))})
        reqs.append({"kind": "py_prelude", "fn": "setDiffHas", "a": a, "b": b, "x": x}); want.append({"v": x in (set(a) - set(b))})
        reqs.append({"kind": "py_prelude", "fn": "setUnionLen", "a": a, "b": b}); want.append({"v": len(set(a) | set(b))})
        reqs.append({"kind": "py_prelude", "fn": "setInterLen", "a": a, "b": b}); want.append({"v": len(set(a) & set(b))})
        reqs.append({"kind": "py_prelude", "fn": "setEq", "a": a, "b": b}); want.append({"v": set(a) == set(b)})
        p, q = rng.randint(-9, 9), rng.randint(-3, 3)
        reqs.append({"kind": "py_prelude", "fn": "floorDiv", "a": p, "b": q}); want.append(exc(lambda: p // q))
        reqs.append({"kind": "py_prelude", "fn": "floorMod", "a": p, "b": q}); want.append(exc(lambda: p % q))
        reqs.append({"kind": "py_prelude", "fn": "enumerate", "l": l}); want.append({"v": [[k, v] for k, v in enumerate(l)]})
        r1, r2 = rng.randint(0, 6), rng.randint(0, 6)
        reqs.append({"kind": "py_prelude", "fn": "range2", "a": r1, "b": r2}); want.append({"v": list(range(r1, r2))})
        keys = ints(0, 7, 3)
        vals = [rng.randint(0, 9) for _ in keys]
        d = {}
        for k_, v_ in zip(keys, vals):
            d[k_] = v_
        qs = ints(1, 4, 4)
        reqs.append({"kind": "py_prelude", "fn": "dict", "keys": keys, "vals": vals, "queries": qs})
        want.append({"get": [d.get(q_, -1) for q_ in qs], "order": list(d), "has": [q_ in d for q_ in qs]})
    got = ctx.driver().ask_many(reqs)
    for r, w, g in zip(reqs, want, got):
        ctx.count("xlate-prelude:" + r["fn"])
        if w != g:
            ctx.tie_broken("correspondence:xlate-prelude", f"PyPrelude.{r['fn']} on {r}: CPython {w} vs Lean {g}")
            ctx.count("xlate-prelude:DIFF")
            return
    ctx.extra["xlate_prelude_cases"] = len(reqs)


def run(ctx):
    """All three ties; budget scaled with the tier."""
    if not ctx.driver_ok:
        return
    n = 150 if ctx.quick else 3000
    prelude_tie(ctx, n // 3)
    stb_tie(ctx, n)
    diag_tie(ctx, n)
