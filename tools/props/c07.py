"""C07 — documented shorthand forms mean exactly their documented expansions.

Proof: Props/C07.lean -- theorems about `Einx.Elab.parseOpTree` (model M2a of `_to_el_expr` / `_parse_op`) and the M1 parser,
one per shorthand whose two sides live at the level of stage-1 trees, plus obligations over Extracted/Elab.lean
(per-family flags, `el_op` builders, `einx.rearrange`).
Tie (T-src): Extracted/Elab.lean, Extracted/Notation.lean.
Tie (T-str): the model against the real `_parse_op`, called with the `el_op` builder and flags that the family wrappers
pass (captured from the wrappers themselves), and against every `_parse_op` invocation recorded during the real calls of
the search: canonical `(exprs_in, exprs_out)` trees with positions (unnamed axes renumbered) or the error kind.  The
model's string mode (what the code does) is compared with the real code; its tree mode (what the theorems are about) is
compared with the string mode on the same inputs -- they may differ only where the printed elementary signature does not
parse again (D11).
Search (independent of the model, on the real code): for every documented shorthand a generator of (short, long) pairs
of real calls; both are run on integer data: equal values (floats: allclose), or the same exception class; the
generated code (graph=True) is compared up to renaming as a statistic (equal code => equal for all data).
"""
import json
import re
import warnings

import numpy as np

from lib import core, gen
from props import c12
from props import c07_stage2

EXTRACTORS = ["Notation", "Elab"]
# Props/C07Stage2.lean: the shorthands that live at stage 2/3 (ellipsis = repetition, number = fresh axis, scalar = tuple,
# anonymous = named ellipsis), proved on the C02 solving model; tied by the stream of props/c07_stage2.py
EXTRA_PROPS = ["C07Stage2", "C07Names"]   # C07Names: namesOK / freshVars / renOK derived from the syntactic condition plainNames

FAMILY_OPS = {
    "id": ["id"],
    "elementwise": ["add", "subtract", "multiply", "maximum", "minimum", "less", "equal", "logical_and"],
    "dot": ["dot"],
    "reduce": ["sum", "max", "min", "prod", "any", "all", "count_nonzero", "mean", "var", "logsumexp"],
    "get_at": ["get_at"],
    "update_at": ["set_at", "add_at", "subtract_at"],
    "argfind": ["argmax", "argmin"],
    "preserve_shape": ["flip", "sort", "argsort", "softmax", "roll", "log_softmax"],
}
FAMILIES = list(FAMILY_OPS)


# ------------------------------------------------------------------ the real `_parse_op`, called as the wrappers call it

_FAMILY_KW = None


def _efn():
    import einx._src.adapter.einx_from_namedtensor as efn
    return efn


def family_kwargs():
    """For every family wrapper: the keyword arguments it passes to `op(...)` (el_op builder and flags), captured by
    calling the real wrapper with `op` replaced by a recorder, completed with the defaults of `op`'s signature."""
    global _FAMILY_KW
    if _FAMILY_KW is not None:
        return _FAMILY_KW
    import inspect
    efn = _efn()
    defaults = {k: p.default for k, p in inspect.signature(efn.op).parameters.items() if p.default is not inspect.Parameter.empty}
    out = {}
    real_op = efn.op
    try:
        for fam in FAMILIES:
            seen = []

            def recorder(op, **kw):
                seen.append(kw)

                def inner(*a, **k):
                    raise core.MachineryError("recorder called")
                inner.__name__ = "recorded"
                inner.__qualname__ = "recorded"
                return inner
            efn.op = recorder

            def dummy(*a, **k):
                return None
            getattr(efn, fam)(dummy)
            if len(seen) != 1:
                raise core.MachineryError(f"wrapper {fam} did not call op(...) exactly once")
            kw = dict(defaults)
            kw.update(seen[0])
            out[fam] = kw
    finally:
        efn.op = real_op
    _FAMILY_KW = out
    return out


_SEM_KINDS = [
    ("The concatenation operator (+) is not allowed", "concatNotAllowed"),
    ("cannot be used in or around a concatenation", "concatBrackets"),
    ("expects an output expression, but no '->' was found", "noArrow"),
    ("input expression(s), but found", "inputCount"),
    ("output expression(s), but found", "outputCount"),
    ("However, no unique", "noUniqueParent"),
    ("exactly one usage of brackets", "notOneBracket"),
    ("Brackets ([]) are not allowed in the", "bracketsNotAllowed"),
    ("requires brackets, but no brackets were found", "bracketsRequired"),
    ("no axis name may appear more than once in the same input tensor", "markDuplicate"),
    ("must not contain multiple vectorized axes with the same name", "outputDuplicate"),
    ("must not contain multiple axes with the same name in brackets", "bracketDuplicate"),
]


def _ordinal(msg):
    m = re.search(r"(\d+)(?:st|nd|rd|th) (input|output) expression", msg)
    return (int(m.group(1)) - 1, m.group(2) == "output") if m else (None, None)


def outcome_of_exception(e, desc):
    import einx
    msg = str(e)
    if isinstance(e, einx.errors.SyntaxError):
        q = c12.quoted_expression(msg)
        if q == desc:
            return {"error": "syntax", "kind": c12.error_kind(msg)}
        return {"error": "elReparse", "quoted": q, "kind": c12.error_kind(msg)}
    if isinstance(e, einx.errors.SemanticError):
        for needle, k in _SEM_KINDS:
            if needle in msg:
                out = {"error": k}
                if k in ("inputCount", "outputCount"):
                    m = re.search(r"expects (\d+) (?:in|out)put expression\(s\), but found (\d+)", msg)
                    out["expected"], out["found"] = int(m.group(1)), int(m.group(2))
                if k in ("bracketsNotAllowed", "bracketsRequired"):
                    out["i"], out["output"] = _ordinal(msg)
                if k == "markDuplicate":
                    m = re.search(r"used more than once: (.*?)\.\n", msg)
                    out["names"] = m.group(1).split(", ") if m else None
                return out
        return {"error": "semantic-unknown", "msg": msg[:120]}
    return {"error": "internal", "type": type(e).__name__, "msg": msg[:120]}


def outcome_of_result(r):
    ins, outs = r
    return {"ok": {"ins": [c12.tree_json(x) for x in ins], "outs": [c12.tree_json(x) for x in outs]}}


def real_parse_op(fam, desc, keepdims=False):
    efn = _efn()
    kw = family_kwargs()[fam]
    inv = efn.Invocation(desc, name=fam, tensors=[], kwargs={})
    keep = {"keepdims": keepdims} if kw["add_keepdims_param"] else {}
    try:
        r = efn._parse_op(desc, kw["el_op"], invocation=inv, allow_concat=kw["allow_concat"], implicit_output=kw["implicit_output"],
                          mark_reduced_axes=kw["mark_reduced_axes"], allow_duplicate_el_axes=kw["allow_duplicate_el_axes"], **keep)
    except RecursionError:
        raise
    except Exception as e:  # noqa: BLE001 - every exception class is an outcome
        return outcome_of_exception(e, desc)
    return outcome_of_result(r)


def canon_pair(ok):
    fake = {"t": "args", "b": 0, "e": 0, "cs": [{"t": "args", "b": 0, "e": 0, "cs": ok["ins"]}, {"t": "args", "b": 0, "e": 0, "cs": ok["outs"]}]}
    return c12.canon(fake)


_INTERNAL_CLASS = {"assertConcatBrackets": "AssertionError", "assertElArrow": "AssertionError", "assertBracketNum": "AssertionError",
                   "assertElCount": "AssertionError", "assertOneOutput": "AssertionError", "indexError": "IndexError", "invalidImplicit": "ValueError",
                   "assertRoot": "AssertionError"}


def compare_outcomes(real, model):
    """None if the model's answer (one mode) corresponds to the real outcome."""
    if "ok" in real:
        if "ok" not in model:
            return f"real succeeds, model: {json.dumps(model)[:200]}"
        a, b = canon_pair(real["ok"]), canon_pair({"ins": model["ok"]["ins"], "outs": model["ok"]["outs"]})
        if a != b:
            return f"trees differ: real {json.dumps(a)[:400]} model {json.dumps(b)[:400]}"
        return None
    if "ok" in model:
        return f"real fails with {json.dumps(real)[:200]}, model succeeds: {model['ok']['ins_str']} -> {model['ok']['outs_str']}"
    rk, mk = real["error"], model["error"]
    if rk == "internal":
        if mk == "internal" and _INTERNAL_CLASS.get(model["kind"]) == real["type"]:
            return None
        if mk == "syntax" and model["parse"].get("error") == "internal" and c12._INTERNAL_CLASS.get(model["parse"]["kind"]["k"]) == real["type"]:
            return None
        return f"real raises {real['type']} ({real['msg']}), model: {json.dumps(model)[:200]}"
    if rk != mk:
        return f"error kinds differ: real {json.dumps(real)[:200]} model {json.dumps(model)[:200]}"
    if rk in ("syntax", "elReparse"):
        if not str(real["kind"]).startswith("unknown:") and model["parse"].get("kind") != real["kind"]:
            return f"syntax error kinds differ: real {real['kind']} model {model['parse'].get('kind')}"
        return None
    for k in ("expected", "found", "i", "output"):
        if k in real and real[k] != model.get(k):
            return f"error detail {k} differs: real {json.dumps(real)} model {json.dumps(model)[:200]}"
    if rk == "markDuplicate" and real.get("names") is not None and real["names"] != model.get("names"):
        return f"duplicate names differ: real {real['names']} model {model.get('names')}"
    return None


def modes_agree(model):
    """Tree mode vs string mode of the model: equal, unless the string mode failed to re-parse the elementary signature."""
    s, t = model["string"], model["tree"]
    if s.get("error") == "elReparse":
        return True
    if ("ok" in s) != ("ok" in t):
        return False
    if "ok" in s:
        return canon_pair(s["ok"]) == canon_pair(t["ok"])
    return s == t


# ------------------------------------------------------------------ descriptions for the structural tie

def strip_outputs(desc):
    return desc.split("->")[0].rstrip() if "->" in desc else desc


def tstr_cases(rng, n):
    """(family, description, keepdims) triples: generator stream, its output-less variants, cross-family uses, grammar noise."""
    out = []
    for _ in range(n):
        r = rng.random()
        if r < 0.55:
            call = gen.gen_call(rng)
            fam = call["family"]
            desc = call["desc"]
            kd = bool(call["kwargs"].get("keepdims", False))
            v = rng.random()
            if v < 0.2:
                desc = strip_outputs(desc)
            elif v < 0.3:
                fam = rng.choice(FAMILIES)
            elif v < 0.4:
                desc = desc.replace("[", "", 1).replace("]", "", 1)
            elif v < 0.5 and fam == "reduce":
                kd = True
                desc = strip_outputs(desc)
            out.append((fam, desc, kd))
        elif r < 0.85:
            out.append((rng.choice(FAMILIES), c12.gen_description(rng), rng.random() < 0.1))
        else:
            out.append((rng.choice(FAMILIES), rng.choice(PROBES), rng.random() < 0.2))
    return out


PROBES = [
    "a [b c]", "a [b] [c]", "a ([b]) ([c])", "a b c -> a", "a a b -> a", "a b, b a", "a b, a b", "a 1, a 1", "a b, a 1", "a b", "a [2]", "[a b]...",
    "[a...]...", "a [b] -> a [1]", "a [b] -> a", "a [b c] -> a [2]", "a b, a", "a, b", "a b, b c -> a c", "a [b], [b] c -> a c", "a [b] [b], c -> a c",
    "([a] + b) -> a, b", "(a + b) c -> a c, b c", "a c, b c -> (a + b) c", "a [b -> c]", "b p [i,->]", "p [h], p [1], p", "p [h], p, p -> p [h]", "p [h]",
    "[h], p [1] -> p", "[h], p -> p", "[h]", "a", "", "a ->", "-> a", "a b -> a [b]", "a [b] -> [a]", "[a] b, c", "a [b]..., c", "a (b [c]) -> a b",
    "a [b] -> a [b] [c]", "a [b] c -> c [b] a", "a [b c] -> a [c b]", "a [b b]", "a [b] -> a [b b]", "a [b] [b]", "[a] [a] -> ", "a, b, c", "a b, a, b",
    "a b, b a, a b", "a 2, a", "... [c] -> ...", "s... [c]", "b [s]... c", "(s [ds])...", "a [(b + c)]", "a (b + c) -> a", "a a", "a [a]",
]


# ------------------------------------------------------------------ running real calls

def run_call(op, desc, args, kwargs, graph=False):
    import einx
    kw = dict(kwargs)
    if graph:
        kw["graph"] = True
    with warnings.catch_warnings():
        warnings.simplefilter("ignore")
        return getattr(einx, op)(desc, *args, **kw)


CURRENT_OP = [None]


def outcome(op, desc, args, kwargs):
    CURRENT_OP[0] = op
    try:
        r = run_call(op, desc, [np.array(a) for a in args], kwargs)
    except RecursionError:
        raise
    except Exception as e:  # noqa: BLE001
        return {"exc": type(e).__name__, "msg": str(e).split("\n")[0][:160]}
    if isinstance(r, tuple):
        return {"val": [np.asarray(x) for x in r]}
    return {"val": [np.asarray(r)]}


def norm_code(code):
    """Generated source with local names renumbered by first occurrence (keywords, attribute names and strings untouched)."""
    if not isinstance(code, str):
        return None
    names = {}
    params = set()
    m = re.search(r"def op\((.*?)\):", code)
    if m:
        params = {p.strip() for p in m.group(1).split(",") if p.strip()}
    assigned = set(re.findall(r"^\s+([a-z][a-z0-9_]*) = ", code, flags=re.M)) | params

    def sub(mo):
        w = mo.group(0)
        if w in assigned:
            return names.setdefault(w, f"v{len(names)}")
        return w
    return re.sub(r"(?<![\.\w\"'])[a-z][a-z0-9_]*(?![\w\"'(])", sub, code)


def code_of(op, desc, args, kwargs):
    try:
        return norm_code(run_call(op, desc, [np.array(a) for a in args], kwargs, graph=True))
    except Exception:  # noqa: BLE001
        return None


def same_values(a, b):
    if len(a) != len(b):
        return False
    for x, y in zip(a, b):
        if x.shape != y.shape:
            return False
        if x.dtype.kind == "f" or y.dtype.kind == "f":
            if not np.allclose(x, y, rtol=1e-9, atol=1e-9, equal_nan=True):
                return False
        elif not np.array_equal(x, y):
            return False
    return True


def pair_differs(p):
    """None if the two real calls of the pair agree, else a description.  `post` (optional) maps the short form's values to
    the long form's layout (used where the documentation equates outputs up to a unit axis)."""
    a = outcome(p["op_s"], p["short"], p["args_s"], p["kw_s"])
    b = outcome(p["op_l"], p["long"], p["args_l"], p["kw_l"])
    if "exc" in a and "exc" in b:
        if a["exc"] != b["exc"]:
            return f"both raise, different classes: short {a['exc']} ({a['msg']}) / long {b['exc']} ({b['msg']})"
        return None
    if "exc" in a or "exc" in b:
        return f"short: {a.get('exc', 'returns')} {a.get('msg', '')} / long: {b.get('exc', 'returns')} {b.get('msg', '')}"
    va = a["val"]
    if p.get("squeeze_short") is not None:
        ax = p["squeeze_short"]
        if va[0].ndim <= ax or va[0].shape[ax] != 1:
            return f"short result has no unit axis at {ax}: shape {va[0].shape}"
        va = [np.squeeze(va[0], axis=ax)]
    if not same_values(va, b["val"]):
        return f"values differ: short {[x.shape for x in va]} {va[0].reshape(-1)[:6].tolist()} / long {[x.shape for x in b['val']]} {b['val'][0].reshape(-1)[:6].tolist()}"
    return None


# ------------------------------------------------------------------ (short, long) pair generators, one per documented shorthand

def data_for(rng, shapes, op=None, family=None, coord=None):
    """Integer arguments; distinct values (no ties for arg*/sort)."""
    args = []
    for i, s in enumerate(shapes):
        n = int(np.prod(s)) if len(s) else 1
        if coord is not None and i in coord:
            bounds, pos = coord[i]
            x = np.zeros(s, dtype=np.int64)
            it = np.nditer(x, flags=["multi_index"])
            for _ in it:
                mi = it.multi_index
                b = bounds[mi[pos]] if pos is not None else bounds[0]
                x[mi] = rng.randrange(b)
            args.append(x)
            continue
        vals = list(range(1 + 100 * i, n + 1 + 100 * i))
        rng.shuffle(vals)
        x = np.asarray(vals, dtype=np.int64).reshape(s)
        if op in ("any", "all", "logical_and", "count_nonzero"):
            x = x % 3
        args.append(x)
    return args


def mk(shorthand, op, short, long, args, kw_s=None, kw_l=None, op_l=None, args_l=None, **extra):
    p = {"shorthand": shorthand, "op_s": op, "op_l": op_l or op, "short": short, "long": long, "args_s": args,
         "args_l": args if args_l is None else args_l, "kw_s": kw_s or {}, "kw_l": (kw_s or {}) if kw_l is None else kw_l}
    p.update(extra)
    return p


def axes(rng, n):
    return gen.pick_axes(rng, n)


def bracketed_input(rng, names, red, group=True):
    items = [f"[{x}]" if x in red else x for x in names]
    return gen.group(rng, items, 0.25) if group else items


def group_kwargs(dims, sizes):
    kw = {}
    for d in dims:
        if d.startswith("("):
            members = [t for t in re.sub(r"[()\[\]]", " ", d).split() if not t.isdigit()]
            for m in members[:-1]:
                kw[m] = sizes[m]
    return kw


# 1. omitted output: reductions
#    ops.py, _make_reduction_doc: "If there is no output expression, it is determined implicitly by removing all bracketed expressions
#    from the input expression. For example, the following operations compute the same output: sum("a [b]", x) / sum("a [b] -> a", x)"
def pair_implicit_reduce(rng):
    names, sizes = axes(rng, rng.randint(1, 4))
    red = [x for x in names if rng.random() < 0.5] or [names[0]]
    dims = bracketed_input(rng, names, red)
    e_in = " ".join(dims)
    # the bracketed expressions removed, textually: drop every "[x]" token; a group that becomes empty stays as "()"
    out = re.sub(r"\s+", " ", re.sub(r"\[[^\]]*\]", "", e_in)).replace("( ", "(").replace(" )", ")").strip()
    op = rng.choice(FAMILY_OPS["reduce"])
    shape = gen.shape_of_expr(e_in, sizes)
    return mk("implicit_output_reduce", op, e_in, f"{e_in} -> {out}", data_for(rng, [shape], op), group_kwargs(dims, sizes), sizes=sizes)


# 2. omitted output: shape-preserving operations and single-input operations
#    ops.py (softmax/sort/flip/roll/...): "If there is no output expression, it is chosen to be the same as the input expression.
#    For example, the following operations compute the same output: softmax("a [b]", x) / softmax("a [b] -> a [b]", x)"
#    advanced.rst: "Functions that do not change the dimensionality of a single input determine the output by replicating the input expression"
def pair_implicit_same(rng):
    names, sizes = axes(rng, rng.randint(1, 3))
    op = rng.choice(FAMILY_OPS["preserve_shape"] + ["id"])
    kw = {}
    if op == "id":
        dims = gen.group(rng, list(names), 0.25)
    else:
        red = [rng.choice(names)] if op in ("sort", "argsort") else ([x for x in names if rng.random() < 0.5] or [names[0]])
        dims = bracketed_input(rng, names, red, group=False)
        if op == "roll":
            kw["shift"] = tuple(rng.randint(-2, 3) for _ in red)
    e_in = " ".join(dims)
    kw.update(group_kwargs(dims, sizes))
    return mk("implicit_output_same", op, e_in, f"{e_in} -> {e_in}", data_for(rng, [gen.shape_of_expr(e_in, sizes)], op), kw, sizes=sizes)


# 3. omitted output: element-wise operations
#    ops.py, _make_elwise_doc: "If there is no output expression, one of the input expressions is implicitly used as output expression if it
#    contains the axis names of all other inputs and if this choice is unique. ... add("a b, a", x, y) / add("a b, a -> a b", x, y)"
def pair_implicit_superset(rng):
    names, sizes = axes(rng, rng.randint(1, 4))
    full = list(names)
    rng.shuffle(full)
    n_in = rng.choice([2, 2, 3])
    others = []
    for _ in range(n_in - 1):
        sub = [x for x in names if rng.random() < 0.6]
        if set(sub) == set(names):
            # an equal expression is the same choice; a permutation would make the choice ambiguous (documented exception)
            sub = list(full) if rng.random() < 0.5 else sub[:-1]
        rng.shuffle(sub) if sub != full else None
        others.append(sub)
    pos = rng.randrange(n_in)
    ins = others[:pos] + [full] + others[pos:]
    strs = [" ".join(x) for x in ins]
    op = rng.choice(FAMILY_OPS["elementwise"]) if n_in == 2 else rng.choice(["add", "multiply", "maximum", "minimum", "logical_and"])
    shapes = [tuple(sizes[a] for a in x) for x in ins]
    return mk("implicit_output_superset", op, ", ".join(strs), f"{', '.join(strs)} -> {' '.join(full)}", data_for(rng, shapes, op), {}, sizes=sizes)


# 4. omitted output: arg-operations
#    ops.py, _make_argfind_doc: "If no output is given, it is determined implicitly by replacing a single bracketed expression in the input
#    with [n]. ... argmax("a [b c]", x) / argmax("a [b c] -> a [2]", x)"
def pair_implicit_argfind(rng):
    names, sizes = axes(rng, rng.randint(1, 4))
    i = rng.randrange(len(names))
    j = rng.randint(i + 1, min(len(names), i + 3))
    red = names[i:j]
    e_in = " ".join(names[:i] + ["[" + " ".join(red) + "]"] + names[j:])
    e_out = " ".join(names[:i] + [f"[{len(red)}]"] + names[j:])
    op = rng.choice(FAMILY_OPS["argfind"])
    return mk("implicit_output_argfind", op, e_in, f"{e_in} -> {e_out}", data_for(rng, [tuple(sizes[x] for x in names)], op), {}, sizes=sizes)


# 4b. omitted output: update operations
#    ops.py, _update_at_doc: "If no output expression is given, it is implicitly chosen to be the same as the input expression of the value tensor.
#    ... set_at("b [h w] c, b p [2], b p c", x, idx, update) / set_at("b [h w] c, b p [2], b p c -> b [h w] c", x, idx, update)"
def pair_implicit_update(rng):
    names, sizes = axes(rng, 5)
    b, h, w, c, p = names
    nd = rng.choice([1, 2])
    idx_axes = [h, w][:nd]
    for x in idx_axes:
        sizes[x] = max(sizes[x], 2)
    use_c = rng.random() < 0.6
    t = [b, "[" + " ".join(idx_axes) + "]"] + ([c] if use_c else [])
    e_t = " ".join(t)
    e_i = f"{b} {p} [{nd}]"
    e_u = " ".join([b, p] + ([c] if use_c else []))
    shapes = [(sizes[b],) + tuple(sizes[x] for x in idx_axes) + ((sizes[c],) if use_c else ()), (sizes[b], sizes[p], nd), (sizes[b], sizes[p]) + ((sizes[c],) if use_c else ())]
    op = rng.choice(FAMILY_OPS["update_at"])
    args = data_for(rng, shapes, op, coord={1: ([sizes[x] for x in idx_axes], 2)})
    if op == "set_at":
        # distinct targets per batch entry: the result of set_at with colliding coordinates is backend-defined
        idx = args[1]
        for bi in range(idx.shape[0]):
            seen = set()
            for pi in range(idx.shape[1]):
                while tuple(idx[bi, pi]) in seen and len(seen) < int(np.prod([sizes[x] for x in idx_axes])):
                    idx[bi, pi] = [rng.randrange(sizes[x]) for x in idx_axes]
                seen.add(tuple(idx[bi, pi]))
    desc = f"{e_t}, {e_i}, {e_u}"
    return mk("implicit_output_update", op, desc, f"{desc} -> {e_t}", args, {}, sizes=sizes)


# 5. un-bracketed reduction / dot
#    ops.py, _make_reduction_doc: "If there are no brackets in the expression, brackets are implicitly placed around all axes that do not appear
#    in the output expression. ... sum("a b -> a", x) / sum("a [b] -> a", x)";  dot: "dot("a b, b c -> a c") / dot("a [b], [b] c -> a c")"
def pair_auto_brackets(rng):
    if rng.random() < 0.6:
        names, sizes = axes(rng, rng.randint(1, 4))
        red = [x for x in names if rng.random() < 0.5] or [names[0]]
        plain = gen.group(rng, list(names), 0.25)
        e_s = " ".join(plain)
        e_l = re.sub(r"\b(" + "|".join(red) + r")\b", r"[\1]", e_s)
        keep = [x for x in names if x not in red]
        rng.shuffle(keep)
        op = rng.choice(FAMILY_OPS["reduce"])
        return mk("auto_brackets", op, f"{e_s} -> {' '.join(keep)}", f"{e_l} -> {' '.join(keep)}", data_for(rng, [gen.shape_of_expr(e_s, sizes)], op),
                  group_kwargs(plain, sizes), sizes=sizes)
    call = gen.gen_dot(rng)
    while call["note"] != ["auto"]:
        call = gen.gen_dot(rng)
    ins, out = call["desc"].split(" -> ")
    outn = out.split()
    e_l = ", ".join(" ".join(x if x in outn else f"[{x}]" for x in i.split()) for i in ins.split(", "))
    return mk("auto_brackets", "dot", call["desc"], f"{e_l} -> {out}", data_for(rng, call["shapes"]), {})


# 6. a number = a fresh axis of that length
#    advanced.rst, "Numerical axes": "Numerical axes are equivalent to introducing a new, unique axis name with a corresponding constraint:
#    id("a b -> a b 3", x)  same as  id("a b -> a b c", x, c=3)"; "Multiple numerical axes with the same name refer to *different* axes"
def pair_number(rng):
    base = rng.choice([pair_implicit_reduce, pair_auto_brackets, pair_implicit_same, pair_implicit_superset, gen_id_pair])(rng)
    desc = base["long"]
    sizes = base.get("sizes")
    toks = re.findall(r"[A-Za-z_]\w*|\d+|->|\.\.\.|[\[\]\(\),+]| +", desc)
    name_pos = [i for i, t in enumerate(toks) if re.fullmatch(r"[A-Za-z_]\w*", t) and sizes and t in sizes]
    mode = rng.random()
    short_t, long_t = list(toks), list(toks)
    kw_l = dict(base["kw_l"])
    if mode < 0.35 or not name_pos:
        # insert a new numeric axis into the (last) output
        k = rng.choice([1, 1, 2, 3])
        short_t.append(f" {k}")
        long_t.append(" n0_")
        kw_l["n0_"] = k
    else:
        # replace one or two occurrences of named axes by their length
        for n, i in enumerate(rng.sample(name_pos, min(len(name_pos), rng.choice([1, 1, 2])))):
            short_t[i] = str(sizes[toks[i]])
            long_t[i] = f"n{n}_"
            kw_l[f"n{n}_"] = sizes[toks[i]]
    return mk("number_is_fresh_axis", base["op_l"], "".join(short_t), "".join(long_t), base["args_l"], base["kw_l"], kw_l)


def gen_id_pair(rng):
    call = gen.gen_id(rng)
    while "diagonal" in call["note"]:
        call = gen.gen_id(rng)
    sizes = {}
    ins = call["desc"].split(" -> ")[0]
    # recover the sizes of the input axes from the shape where the axis stands alone
    for t, s in zip(ins.split(), call["shapes"][0]) if "(" not in ins else []:
        if not t.isdigit():
            sizes[t] = s
    sizes.update({k: v for k, v in call["kwargs"].items()})
    return mk("id", "id", call["desc"], call["desc"], data_for(rng, call["shapes"]), call["kwargs"], sizes=sizes)


# 7. an anonymous "..." = one shared named ellipsis
#    advanced.rst: "einx allows writing anonymous ellipses without a preceding expression. In this case, a new, unique axis name is generated and
#    used for all occurrences of the anonymous ellipsis: add("..., ... -> ...", x, y)  same as  add("s..., s... -> s...", x, y)"
def pair_anonymous(rng):
    names, sizes = axes(rng, 2)
    b, c = names
    ell = tuple(rng.choice(gen.SIZES) for _ in range(rng.randint(0, 3)))
    form = rng.randrange(6)
    L = "_anon..."
    if form == 0:
        op, long, shapes = "id", f"{b} {L} -> {L} {b}", [(sizes[b],) + ell]
    elif form == 1:
        op, long, shapes = rng.choice(["add", "multiply", "maximum"]), f"{L}, {L} -> {L}", [ell, ell]
    elif form == 2:
        op, long, shapes = rng.choice(FAMILY_OPS["reduce"]), f"{L} [{c}] -> {L}", [ell + (sizes[c],)]
    elif form == 3:
        op, long, shapes = rng.choice(FAMILY_OPS["reduce"]), f"{b} [{L}]", [(sizes[b],) + ell]
    elif form == 4:
        op, long, shapes = "id", f"{b} {L} -> {b} ({L})", [(sizes[b],) + ell]
    else:
        op, long, shapes = rng.choice(["add", "subtract"]), f"{L} {c}, {c} -> {L} {c}", [ell + (sizes[c],), (sizes[c],)]
    return mk("anonymous_ellipsis_shared", op, long.replace(L, "..."), long, data_for(rng, shapes, op), {})


# 8. an ellipsis = its written-out repetition
#    advanced.rst, "Ellipses": "The ellipsis is placed immediately after a sub-expression to indicate that this sub-expression is repeated zero or
#    more times": sum("s... [c] -> s...") expands to sum("s1 s2 s3 [c] -> s1 s2 s3"); mean("b [s]... c -> b c") expands to "b [s1] [s2] c -> b c";
#    id("(s ds)... c -> (s...) ds... c", ds=4) expands to id("(s1 ds1) (s2 ds2) c -> (s1 s2) ds1 ds2 c", ds1=4, ds2=4)
def expand_ellipses(desc, k):
    """Write out every `X...` of `desc` k times (the rule of the tutorial), numbering the axis names inside X."""
    s1 = c12._stage1()
    op = s1.parse_op(desc)

    def show(x, suffix):
        if isinstance(x, s1.Axis):
            return str(x.value) if x.value is not None else x.name + suffix
        if isinstance(x, s1.FlattenedAxis):
            return "(" + show(x.inner, suffix) + ")"
        if isinstance(x, s1.Brackets):
            return "[" + show(x.inner, suffix) + "]"
        if isinstance(x, s1.ConcatenatedAxis):
            return "(" + " + ".join(show(c, suffix) for c in x.children) + ")"
        if isinstance(x, s1.Ellipsis):
            return " ".join(show(x.inner, f"{suffix}_{i}") for i in range(k))
        if isinstance(x, s1.List):
            return " ".join(t for t in (show(c, suffix) for c in x.children) if t != "")
        if isinstance(x, s1.Args):
            return ", ".join(show(c, suffix) for c in x.children)
        if isinstance(x, s1.Op):
            return " -> ".join(show(c, suffix) for c in x.children)
        raise core.MachineryError(f"unknown node {type(x)}")
    return show(op, "")


def pair_ellipsis_repetition(rng):
    names, sizes = axes(rng, 3)
    a, b, c = names
    k = rng.randint(0, 3)
    ell = tuple(rng.choice(gen.SIZES) for _ in range(k))
    form = rng.randrange(7)
    kw_s, kw_l = {}, {}
    if form == 0:
        op, short, shapes = "id", f"{a}... {b} -> {b} {a}...", [ell + (sizes[b],)]
    elif form == 1:
        op, short, shapes = rng.choice(FAMILY_OPS["reduce"]), f"{a}... [{c}] -> {a}...", [ell + (sizes[c],)]
    elif form == 2:
        op, short, shapes = rng.choice(["mean", "sum", "max"]), f"{b} [{a}]... {c} -> {b} {c}", [(sizes[b],) + ell + (sizes[c],)]
    elif form == 3:
        op, short, shapes = "id", f"({a} {c})... {b} -> ({a}...) {c}... {b}", [tuple(s * 2 for s in ell) + (sizes[b],)]
        kw_s = {c: 2}
        kw_l = {f"{c}_{i}": 2 for i in range(k)}
    elif form == 4:
        op, short, shapes = rng.choice(["sum", "max"]), f"({a} [{c}])...", [tuple(s * 2 for s in ell)]
        kw_s = {c: 2}
        kw_l = {f"{c}_{i}": 2 for i in range(k)}
    elif form == 5:
        op, short, shapes = rng.choice(["add", "multiply"]), f"{a}..., {b}... -> {a}... {b}...", [ell, tuple(reversed(ell))]
    else:
        op, short, shapes = "id", f"{b} -> {b} {a}...", [(sizes[b],)]
        kw_s = {a: ell}
        kw_l = {f"{a}_{i}": ell[i] for i in range(k)}
    return mk("ellipsis_is_repetition", op, short, expand_ellipses(short, k), data_for(rng, shapes, op), kw_s, kw_l)


# 9. a scalar size for an ellipsis axis = the repeated tuple
#    advanced.rst: "Additional axis constraints for axes expanded by ellipses may be provided both as lists matching the repetition number, and as
#    simple integers that apply to all repetitions: id("(a b)... -> a... b...", x, b=2)  expands to  ...("(a1 b1) (a2 b2) -> a1 a2 b1 b2", b1=2, b2=2)"
def pair_scalar_constraint(rng):
    names, sizes = axes(rng, 3)
    a, b, c = names
    k = rng.randint(1, 3)
    ell = tuple(rng.choice([1, 2, 3]) for _ in range(k))
    s = rng.choice([1, 2, 3])
    form = rng.randrange(4)
    if form == 0:
        op, desc, shapes = "id", f"({a} {b})... -> {a}... {b}...", [tuple(x * s for x in ell)]
    elif form == 1:
        op, desc, shapes = rng.choice(["sum", "max", "prod"]), f"({a} [{b}])... {c}", [tuple(x * s for x in ell) + (sizes[c],)]
    elif form == 2:
        op, desc, shapes = "id", f"{c} {a}... -> {c} ({a} {b})...", [(sizes[c],) + ell]
    else:
        op, desc, shapes = rng.choice(["add", "maximum"]), f"({b} {a})..., {a}... -> {b}... {a}...", [tuple(x * s for x in ell), ell]
    return mk("scalar_constraint_is_repeated_tuple", op, desc, desc, data_for(rng, shapes, op), {b: s}, {b: (s,) * k})


# 10. a nested "->" = its top-level distribution
#     advanced.rst: "If either operator appears nested within an expression, the expression is expanded by moving these operators to the top level:
#     einx.{...}("a [b -> c]", x)  expands to  einx.{...}("a [b] -> a [c]", x)"
def pair_nested_arrow(rng):
    names, sizes = axes(rng, rng.randint(2, 5))
    n_in = rng.randint(1, min(3, len(names) - 1)) if len(names) > 1 else 1
    inner = names[:n_in]
    rest = names[n_in:]
    cut = rng.randint(0, len(rest))
    P, S = rest[:cut], rest[cut:]
    kind = rng.choice(["id", "preserve", "argfind", "reduce"])
    kw = {}
    shape_in = None
    if kind == "id":
        op, o, c = "id", "(", ")"
        I = list(inner)
        O = list(inner)
        rng.shuffle(O)
        shape_in = tuple(sizes[x] for x in P) + (int(np.prod([sizes[x] for x in I])),) + tuple(sizes[x] for x in S)
        kw = {x: sizes[x] for x in I[:-1]}
    elif kind == "preserve":
        op, o, c = rng.choice(["flip", "softmax", "roll"]), "[", "]"
        I, O = list(inner), list(inner)
        if op == "roll":
            kw["shift"] = tuple(rng.randint(-2, 3) for _ in I)
    elif kind == "argfind":
        op, o, c = rng.choice(FAMILY_OPS["argfind"]), "[", "]"
        I, O = list(inner), [str(len(inner))]
    else:
        op, o, c = rng.choice(FAMILY_OPS["reduce"]), "[", "]"
        I, O = list(inner), []
    if shape_in is None:
        shape_in = tuple(sizes[x] for x in P + I + S)
    j = lambda xs: " ".join(x for x in xs if x)
    short = j(P + [o + j(I) + " -> " + j(O) + c] + S)
    long = j(P + [o + j(I) + c] + S) + " -> " + j(P + [o + j(O) + c] + S)
    return mk("nested_arrow_distributes", op, short, long, data_for(rng, [shape_in], op), kw)


# 11. a nested "," = its top-level distribution
#     advanced.rst: einx.{...}("b p [i,->]", x, y)  expands to  einx.{...}("b p [i], b p -> b p", x, y)
def pair_nested_comma(rng):
    names, sizes = axes(rng, rng.randint(2, 5))
    form = rng.randrange(3)
    j = lambda xs: " ".join(x for x in xs if x)
    if form == 0:
        # element-wise: P (I1, I2) S -> out
        cut = rng.randint(0, len(names) - 1)
        P = names[:cut]
        rest = names[cut:]
        I1 = [x for x in rest if rng.random() < 0.6] or [rest[0]]
        I2 = [x for x in rest if rng.random() < 0.6]
        out = list(dict.fromkeys(P + I1 + I2))
        rng.shuffle(out)
        op = rng.choice(FAMILY_OPS["elementwise"])
        short = j(P + ["(" + j(I1) + ", " + j(I2) + ")"]) + " -> " + j(out)
        long = j(P + ["(" + j(I1) + ")"]) + ", " + j(P + ["(" + j(I2) + ")"]) + " -> " + j(out)
        prod = lambda xs: int(np.prod([sizes[x] for x in xs])) if xs else 1
        shapes = [tuple(sizes[x] for x in P) + (prod(I1),), tuple(sizes[x] for x in P) + (prod(I2),)]
        kw = {x: sizes[x] for x in I1[:-1] + I2[:-1]}
        return mk("nested_comma_distributes", op, short, long, data_for(rng, shapes, op), kw)
    if form == 1:
        # the tutorial's own form: "b p [i,->]" with a dot product over i against a vector
        b, p = names[0], names[1]
        i = "i_"
        n = rng.choice([1, 2, 3])
        short = f"{b} {p} [{i}, {i} -> ]"
        long = f"{b} {p} [{i}], {b} {p} [{i}] -> {b} {p}"
        shapes = [(sizes[b], sizes[p], n), (sizes[b], sizes[p], n)]
        return mk("nested_comma_distributes", "dot", short, long, data_for(rng, shapes), {})
    # dot with a shared contracted prefix: "[k] (a, c) -> a c"
    k, a, c = names[0], names[1], (names[2] if len(names) > 2 else None)
    second = c if c else ""
    short = f"[{k}] ({a}, {second}) -> {a} {second}".rstrip()
    long = f"[{k}] ({a}), [{k}] ({second}) -> {a} {second}".rstrip()
    shapes = [(sizes[k], sizes[a]), (sizes[k], sizes[c]) if c else (sizes[k], 1)]
    if not c:
        shapes[1] = (sizes[k], 1)
    return mk("nested_comma_distributes", "dot", short, long, data_for(rng, shapes), {})


# 12. adjacent brackets = one bracket
#     basics.rst: "brackets must be placed around the number of axes in an operation that matches the signature of the elementary operation. For
#     example, all of the following are valid: sum("[a] b [c] -> b") / sum("[a] [c] b -> b") / sum("[a c] b -> b")"
def pair_adjacent_brackets(rng):
    names, sizes = axes(rng, rng.randint(2, 5))
    i = rng.randrange(len(names) - 1)
    jx = rng.randint(i + 2, min(len(names), i + 3))
    run = names[i:jx]
    pre, post = names[:i], names[jx:]
    kind = rng.choice(["reduce", "reduce", "flip", "argfind", "softmax"])
    j = lambda xs: " ".join(x for x in xs if x)
    short_in = j(pre + [f"[{x}]" for x in run] + post)
    long_in = j(pre + ["[" + j(run) + "]"] + post)
    shape = tuple(sizes[x] for x in names)
    if kind == "reduce":
        op = rng.choice(FAMILY_OPS["reduce"])
        if rng.random() < 0.5:
            return mk("adjacent_brackets_merge", op, short_in, long_in, data_for(rng, [shape], op), {})
        out = pre + post
        rng.shuffle(out)
        return mk("adjacent_brackets_merge", op, f"{short_in} -> {j(out)}", f"{long_in} -> {j(out)}", data_for(rng, [shape], op), {})
    if kind == "argfind":
        op = rng.choice(FAMILY_OPS["argfind"])
        out = j(pre + [f"[{len(run)}]"] + post)
        return mk("adjacent_brackets_merge", op, f"{short_in} -> {out}", f"{long_in} -> {out}", data_for(rng, [shape], op), {})
    op = kind
    return mk("adjacent_brackets_merge", op, f"{short_in} -> {short_in}", f"{long_in} -> {long_in}", data_for(rng, [shape], op), {})


# 13. keepdims=True = wrapping each bracket in parentheses
#     ops.py, _keepdims_warning: "Please use a flattened axis instead. For example, instead of einx.{op}("a [b]", x, keepdims=True) write einx.{op}("a ([b])", x)"
def pair_keepdims(rng):
    names, sizes = axes(rng, rng.randint(1, 4))
    red = [x for x in names if rng.random() < 0.5] or [names[0]]
    items = [f"[{x}]" if x in red else x for x in names]
    e_s = " ".join(items)
    e_l = " ".join(f"({t})" if t.startswith("[") else t for t in items)
    op = rng.choice(FAMILY_OPS["reduce"])
    return mk("keepdims_is_parenthesised", op, e_s, e_l, data_for(rng, [tuple(sizes[x] for x in names)], op), {"keepdims": True}, {})


# 14. a length-1 coordinate bracket = no bracket
#     ops.py get_at: "For 1-dimensional value tensors, the elementary operation also accepts the signature [...] , [] -> []. For example, the following
#     two operations compute the same output: get_at("[h], p [1] -> p", x, idx) / get_at("[h], p -> p", x, idx[:, 0])";
#     update ops: "...("p [h], p [1], p -> p [h]", x, idx, update) / ...("p [h], p, p -> p [h]", x, idx[:, 0], update)";
#     arg ops: "argmax("a [b] -> a [1]", x) / argmax("a [b] -> a ", x)"
def pair_unit_coordinate(rng):
    names, sizes = axes(rng, rng.randint(2, 4))
    h = names[0]
    sizes[h] = max(sizes[h], 2)
    form = rng.randrange(3)
    j = lambda xs: " ".join(x for x in xs if x)
    if form == 0:
        vec = names[1:]
        t_items = [f"[{h}]"] + [x for x in vec if rng.random() < 0.5]
        rng.shuffle(t_items)
        tv = [x for x in t_items if not x.startswith("[")]
        cv = [x for x in vec if rng.random() < 0.7] or [vec[0]]
        pos = rng.randrange(len(cv) + 1)
        out = list(dict.fromkeys(tv + cv))
        rng.shuffle(out)
        short = f"{j(t_items)}, {j(cv[:pos] + ['[1]'] + cv[pos:])} -> {j(out)}"
        long = f"{j(t_items)}, {j(cv)} -> {j(out)}"
        tshape = tuple(sizes[x.strip('[]')] for x in t_items)
        cshape = tuple(sizes[x] for x in cv)
        args = data_for(rng, [tshape, cshape], coord={1: ([sizes[h]], None)})
        args_s = [args[0], np.expand_dims(args[1], pos)]
        return mk("unit_coordinate_bracket", "get_at", short, long, args_s, {}, args_l=args)
    if form == 1:
        p = names[1]
        op = rng.choice(["add_at", "subtract_at", "set_at"])
        short = f"{p} [{h}], {p} [1], {p} -> {p} [{h}]"
        long = f"{p} [{h}], {p}, {p} -> {p} [{h}]"
        args = data_for(rng, [(sizes[p], sizes[h]), (sizes[p],), (sizes[p],)], coord={1: ([sizes[h]], None)})
        args_s = [args[0], args[1][:, None], args[2]]
        return mk("unit_coordinate_bracket", op, short, long, args_s, {}, args_l=args)
    rest = names[1:]
    cut = rng.randint(0, len(rest))
    items = rest[:cut] + [f"[{h}]"] + rest[cut:]
    keep = list(rest)
    rng.shuffle(keep)
    pos = rng.randrange(len(keep) + 1)
    op = rng.choice(FAMILY_OPS["argfind"])
    short = f"{j(items)} -> {j(keep[:pos] + ['[1]'] + keep[pos:])}"
    long = f"{j(items)} -> {j(keep)}"
    shape = tuple(sizes[x.strip('[]')] for x in items)
    return mk("unit_coordinate_bracket", op, short, long, data_for(rng, [shape], op), {}, squeeze_short=pos)


# 15. additional spaces = single spaces
#     ops.py get_at writes get_at("[h], p     -> p", x, idx[:, 0]); update ops write "p [h], p,     p -> p [h]"; the notation's only separator is whitespace
def pair_spaces(rng):
    base = rng.choice(BASE_PAIRS)(rng)
    desc = base["long"]
    slots = c12.redundant_space_slots(desc)
    t = desc
    for i in sorted((rng.choice(slots) for _ in range(rng.randint(1, 4))), reverse=True):
        t = t[:i] + " " * rng.randint(1, 3) + t[i:]
    return mk("spaces_irrelevant", base["op_l"], t, desc, base["args_l"], base["kw_l"])


# 16. einx.rearrange = einx.id
#     removed_ops.py: "einx.rearrange is deprecated and will be removed in a future release. Please use einx.id instead."
KEYWORDISH = ["cse", "keepdims", "axis", "out", "dtype", "shift", "shape", "tensors", "parameters", "description_", "self", "args", "kwargs", "name", "size", "k", "x", "y"]


def _signature_names():
    """Parameter names of einx.rearrange / einx.id other than the ones every einx operation reserves: an axis may carry any
    other name, and its constraint is a keyword argument of that name."""
    import einx
    import inspect
    names = []
    for f in (einx.rearrange, einx.id):
        try:
            ps = inspect.signature(f).parameters.values()
        except (TypeError, ValueError):
            continue
        names += [q.name for q in ps if q.kind in (q.POSITIONAL_OR_KEYWORD, q.KEYWORD_ONLY) and q.name not in ("description", "backend", "graph")]
    return sorted(set(names))


def pair_rearrange(rng):
    if rng.random() < 0.45:
        # an axis named like a keyword: its size constraint travels as a keyword argument of that name
        n = rng.choice(_signature_names() + KEYWORDISH)
        k = rng.randint(2, 4)
        form = rng.randrange(4)
        if form == 0:      # the constraint determines a broadcast axis
            return mk("rearrange_is_id", "rearrange", f"a b -> a b {n}", f"a b -> a b {n}", data_for(rng, [(2, 3)]), {n: k}, op_l="id")
        if form == 1:      # the constraint determines a factor of a composition
            return mk("rearrange_is_id", "rearrange", f"a ({n} z) -> a {n} z", f"a ({n} z) -> a {n} z", data_for(rng, [(2, k * 3)]), {n: k}, op_l="id")
        if form == 2:      # the constraint contradicts the shape: both must raise
            return mk("rearrange_is_id", "rearrange", f"a {n} -> {n} a", f"a {n} -> {n} a", data_for(rng, [(2, k)]), {n: k + 3}, op_l="id")
        return mk("rearrange_is_id", "rearrange", f"a {n} -> {n} a", f"a {n} -> {n} a", data_for(rng, [(2, k)]), {n: k}, op_l="id")
    g = rng.choice([gen.gen_id, gen.gen_id, gen.gen_id_concat, gen.gen_id_ellipsis])
    call = g(rng)
    return mk("rearrange_is_id", "rearrange", call["desc"], call["desc"], data_for(rng, call["shapes"]), call["kwargs"], op_l="id")


# 3b. the documented exception of the element-wise rule
#     ops.py, _make_elwise_doc: add("a b, b a", x, y)  "# raises an exception due to ambiguous output expression";
#     advanced.rst: add("a, b", x, z) / add("a b, b a", x, z)  "# Raises exception: Cannot determine output expression"
def ambiguous_call(rng):
    names, sizes = axes(rng, rng.randint(2, 4))
    if rng.random() < 0.6:
        p1 = list(names)
        p2 = list(names)
        while p2 == p1:
            rng.shuffle(p2)
        ins = [p1, p2] + ([[x for x in names if rng.random() < 0.5]] if rng.random() < 0.3 else [])
    else:
        cut = rng.randint(1, len(names) - 1)
        ins = [names[:cut], names[cut:]]
    rng.shuffle(ins)
    op = rng.choice(["add", "multiply", "maximum", "minimum", "logical_and"])
    return op, ", ".join(" ".join(x) for x in ins), data_for(rng, [tuple(sizes[a] for a in x) for x in ins], op)


BASE_PAIRS = [pair_implicit_reduce, pair_implicit_same, pair_implicit_superset, pair_implicit_argfind, pair_auto_brackets, pair_nested_arrow,
              pair_adjacent_brackets, pair_unit_coordinate, pair_anonymous]

# 18. directed pairs: numbers and keepdims brackets at different ellipsis depths (each repetition of an ellipsis has its own
#     unnamed axes; every bracket gets its own kept unit axis wherever it stands)
_DIRECTED_STATE = {"i": 0}


def directed_pairs():
    x23 = np.arange(6, dtype=np.int64).reshape(2, 3) + 1
    x234 = np.arange(24, dtype=np.int64).reshape(2, 3, 4) + 1
    x2443 = np.arange(96, dtype=np.int64).reshape(2, 4, 4, 3) + 1
    big = np.arange(24, dtype=np.int64).reshape(4, 6) + 1
    P = [
        mk("number_in_ellipsis", "id", "s... -> (s 2)...", "s1 s2 -> (s1 2) (s2 2)", [x23]),
        mk("number_in_ellipsis", "id", "s... c -> (s 2)... c", "s1 s2 c -> (s1 2) (s2 2) c", [x234]),
        mk("number_in_ellipsis", "add", "(s 2)..., s...", "(s1 2) (s2 2), s1 s2", [big, x23]),
        mk("number_in_ellipsis", "id", "(s 2)... -> s... 2 2", "(s1 2) (s2 2) -> s1 s2 2 2", [big], {}, {}),
        mk("number_in_ellipsis", "sum", "(s [2])...", "(s1 [2]) (s2 [2])", [big]),
        mk("number_in_ellipsis", "id", "s... -> (s 1)... 3", "s1 s2 -> (s1 1) (s2 1) 3", [x23]),
        mk("keepdims_depths", "mean", "b [s]... [c]", "b ([s])... ([c])", [x2443], {"keepdims": True}, {}),
        mk("keepdims_depths", "sum", "[b] [s]... c", "([b]) ([s])... c", [x2443], {"keepdims": True}, {}),
        mk("keepdims_depths", "max", "b (s [ds])... [c]", "b (s ([ds]))... ([c])", [x2443], {"keepdims": True, "ds": 2}, {"ds": 2}),
        mk("keepdims_depths", "sum", "[a] b [c]", "([a]) b ([c])", [x234], {"keepdims": True}, {}),
        mk("keepdims_depths", "min", "[s]... [c]", "([s])... ([c])", [x234], {"keepdims": True}, {}),
    ]
    return P


def pair_directed(rng):
    P = directed_pairs()
    i = _DIRECTED_STATE["i"]
    _DIRECTED_STATE["i"] = i + 1
    if i >= len(P):
        raise IndexError("directed pairs exhausted")
    return P[i]


SHORTHANDS = [
    ("directed_depths", pair_directed),
    ("implicit_output_reduce", pair_implicit_reduce),
    ("implicit_output_same", pair_implicit_same),
    ("implicit_output_superset", pair_implicit_superset),
    ("implicit_output_argfind", pair_implicit_argfind),
    ("implicit_output_update", pair_implicit_update),
    ("auto_brackets", pair_auto_brackets),
    ("number_is_fresh_axis", pair_number),
    ("anonymous_ellipsis_shared", pair_anonymous),
    ("ellipsis_is_repetition", pair_ellipsis_repetition),
    ("scalar_constraint_is_repeated_tuple", pair_scalar_constraint),
    ("nested_arrow_distributes", pair_nested_arrow),
    ("nested_comma_distributes", pair_nested_comma),
    ("adjacent_brackets_merge", pair_adjacent_brackets),
    ("keepdims_is_parenthesised", pair_keepdims),
    ("unit_coordinate_bracket", pair_unit_coordinate),
    ("spaces_irrelevant", pair_spaces),
    ("rearrange_is_id", pair_rearrange),
]


# ------------------------------------------------------------------ shrinking and reporting

def pair_signature(p):
    kw = lambda d: sorted((k, str(v)) for k, v in d.items())
    return (f"{p['shorthand']}: einx.{p['op_s']}({p['short']!r}, shapes={[list(np.shape(a)) for a in p['args_s']]}, {kw(p['kw_s'])}) vs "
            f"einx.{p['op_l']}({p['long']!r}, shapes={[list(np.shape(a)) for a in p['args_l']]}, {kw(p['kw_l'])})")


def shrink_pair(p, gen_fn, rng_seed):
    """Re-generate with the same generator from nearby seeds and keep the failing pair with the shortest descriptions and
    smallest shapes (the generators are small grammars: a smaller instance of the same shape of failure is found quickly)."""
    import random
    best = p
    size = lambda q: (len(q["short"]) + len(q["long"]), sum(int(np.prod(np.shape(a))) for a in q["args_s"]))
    for s in range(300):
        r = random.Random(f"{rng_seed}/{s}")
        try:
            q = gen_fn(r)
        except Exception:  # noqa: BLE001
            continue
        if q["shorthand"] != p["shorthand"] or size(q) >= size(best):
            continue
        if pair_differs(q) is not None:
            best = q
    # then: all sizes that are > 2 -> 2 where the shapes allow it (same failure required)
    return best


def replay_of(p, why):
    return {"shorthand": p["shorthand"], "short": {"op": p["op_s"], "description": p["short"], "kwargs": {k: (list(v) if isinstance(v, tuple) else v) for k, v in p["kw_s"].items()},
                                                   "args": [np.asarray(a).tolist() for a in p["args_s"]]},
            "long": {"op": p["op_l"], "description": p["long"], "kwargs": {k: (list(v) if isinstance(v, tuple) else v) for k, v in p["kw_l"].items()},
                     "args": [np.asarray(a).tolist() for a in p["args_l"]]},
            "squeeze_short": p.get("squeeze_short"), "observed": why,
            "expected": "the documentation equates the two forms: equal values (or the same exception class)"}


# ------------------------------------------------------------------ run

class Recorder:
    """Records every invocation of the real `_parse_op` during the search (inputs, outputs / exception)."""

    def __init__(self):
        self.records = []
        self.efn = _efn()
        self.orig = None

    def __enter__(self):
        self.orig = self.efn._parse_op

        def wrapped(description, el_op, invocation, **kw):
            try:
                r = self.orig(description, el_op, invocation, **kw)
            except Exception as e:  # noqa: BLE001
                if len(self.records) < 20000 and isinstance(description, str):
                    self.records.append((CURRENT_OP[0], description, bool(kw.get("keepdims") or False), outcome_of_exception(e, description)))
                raise
            if len(self.records) < 20000:
                self.records.append((CURRENT_OP[0], description, bool(kw.get("keepdims") or False), outcome_of_result(r)))
            return r
        self.efn._parse_op = wrapped
        return self

    def __exit__(self, *a):
        self.efn._parse_op = self.orig


def check_structural(ctx, cases, label, disagreements, mode_diffs):
    """cases: [(family, description, keepdims, real outcome)]"""
    drv = ctx.driver()
    models = drv.ask_many([{"kind": "parse_op_model", "family": f, "description": d, "keepdims": k} for f, d, k, _ in cases])
    for (f, d, k, real), m in zip(cases, models):
        ctx.count(f"tstr:{label}:{f}:{'ok' if 'ok' in real else real['error']}")
        nontrivial = "ok" in real or real["error"] not in ("syntax",)
        ctx.case(("tstr", f, d, k), nontrivial=nontrivial)
        diff = compare_outcomes(real, m["string"])
        if diff is not None:
            disagreements.append((label, f, d, k, diff))
        if not modes_agree(m):
            mode_diffs.append((f, d, k, json.dumps(m["string"])[:200], json.dumps(m["tree"])[:200]))
        elif m["string"].get("error") == "elReparse":
            ctx.count("tstr:el_signature_does_not_reparse(D11)")


def run(ctx):
    rng = ctx.rng
    quick = ctx.quick
    ctx.extra["rule"] = (
        "structural tie: (family, description, keepdims) triples from lib/gen.py calls (and their output-less, bracket-less, cross-family variants), "
        "the C12 description grammar and a probe list, plus every `_parse_op` invocation recorded during the real calls of the search; the real "
        "`_parse_op` (called with the wrapper's own el_op builder and flags) against the Lean model: canonical (exprs_in, exprs_out) trees with node "
        "positions, or error kind with its details; non-trivial = the outcome is not a syntax error of the description. "
        "search: for each of the 17 documented shorthand forms (the 15 of DESIGN.md, with 'omitted output' split by operation family) "
        "20 (quick) / 500 (thorough) generated (short, long) pairs of real calls on integer data: equal values or the same exception class; distinct = distinct pair of descriptions+shapes")
    ctx.assumptions.append("the documentation sentences that equate the two forms of every pair are quoted next to the pair generators in tools/props/c07.py")
    ctx.assumptions.append("pairs are run on the default (numpy) backend; other frameworks are not installed")

    # ---- T-src facts that have no Lean counterpart: the public einx.rearrange is the function whose body was extracted
    import einx
    import einx._src.frontend.removed_ops as removed_ops
    import einx._src.frontend.ops as fops
    if einx.rearrange is not removed_ops.rearrange or removed_ops.id is not fops.id or einx.id is not fops.id:
        ctx.tie_broken("extract:rearrange-binding", "einx.rearrange / einx.id are not the functions whose source was extracted")
    fam_of = ctx.facts.get("Elab", {}).get("name_to_op", {}) if hasattr(ctx, "facts") else {}
    for fam, ops in FAMILY_OPS.items():
        for o in ops:
            if fam_of and fam_of.get(o) != fam:
                ctx.tie_broken("extract:_name_to_op", f"einx.{o} is built with wrapper {fam_of.get(o)}, the check assumes {fam}")

    disagreements, mode_diffs = [], []
    # ---- structural tie on the generator stream
    if ctx.driver_ok:
        n = 1500 if quick else 30000
        triples = tstr_cases(rng, n)
        for k in range(0, len(triples), 2000):
            part = triples[k:k + 2000]
            check_structural(ctx, [(f, d, kd, real_parse_op(f, d, kd)) for f, d, kd in part], "stream", disagreements, mode_diffs)

    # ---- stage-2/3 shorthands: Lean transformations vs einx's long forms, real solve_* short vs long (props/c07_stage2.py)
    c07_stage2.run_stream(ctx)

    # ---- search: metamorphic pairs on the real code
    per = 20 if quick else 500
    if ctx.broken:
        per = max(per, 200)
    failures = {}
    amb_reported = 0
    _DIRECTED_STATE["i"] = 0
    with Recorder() as rec:
        for name, fn in SHORTHANDS:
            done = 0
            tries = 0
            seen = set()
            while done < per and tries < per * 6:
                tries += 1
                sub_seed = f"{ctx.seed}/{name}/{tries}"
                import random
                r = random.Random(sub_seed)
                try:
                    p = fn(r)
                except core.MachineryError:
                    raise
                except Exception as e:  # noqa: BLE001 - a generator that cannot build an instance (e.g. too few axes) tries again
                    ctx.count(f"pair_generator_retry:{name}:{type(e).__name__}")
                    continue
                p["shorthand"] = name
                sig = pair_signature(p)
                if sig in seen or (p["short"] == p["long"] and p["kw_s"] == p["kw_l"] and p["op_s"] == p["op_l"]):
                    continue
                seen.add(sig)
                done += 1
                why = pair_differs(p)
                ctx.case(sig, nontrivial=True)
                ctx.count(f"pair:{name}:{'agree' if why is None else 'DIFFER'}")
                if why is None:
                    a = outcome(p["op_s"], p["short"], p["args_s"], p["kw_s"])
                    ctx.count(f"pair_outcome:{name}:{'both-raise:' + a['exc'] if 'exc' in a else 'values'}")
                    if "exc" not in a and done <= (8 if quick else 40):
                        ca, cb = code_of(p["op_s"], p["short"], p["args_s"], p["kw_s"]), code_of(p["op_l"], p["long"], p["args_l"], p["kw_l"])
                        if ca is not None and cb is not None and "def op" in ca:
                            ctx.count(f"pair_code:{name}:{'equal-up-to-renaming' if ca == cb else 'different-code-equal-values'}")
                    if len(ctx.samples) < 17 and not any(s.get("shorthand") == name for s in ctx.samples if isinstance(s, dict)):
                        ctx.sample({"shorthand": name, "short": f"einx.{p['op_s']}({p['short']!r}, {p['kw_s']})", "long": f"einx.{p['op_l']}({p['long']!r}, {p['kw_l']})",
                                    "shapes": [list(np.shape(x)) for x in p["args_s"]], "outcome": a.get("exc", "equal values")}, cap=40)
                elif name not in failures or len(failures[name]) < 3:
                    failures.setdefault(name, []).append((p, fn, sub_seed, why))
        # the documented exception: no unique superset input -> the call must raise
        for k in range(per):
            import random
            r = random.Random(f"{ctx.seed}/ambiguous/{k}")
            op, desc, args = ambiguous_call(r)
            o = outcome(op, desc, args, {})
            ctx.case(("ambiguous", op, desc), nontrivial=True)
            ctx.count(f"ambiguous_output:{'raises:' + o['exc'] if 'exc' in o else 'RETURNS'}")
            if "exc" not in o and amb_reported < 2:
                amb_reported += 1
                ctx.violation(f"implicit_output_ambiguous: einx.{op}({desc!r}, shapes={[list(a.shape) for a in args]}) returns a value",
                              {"shorthand": "implicit_output_ambiguous", "op": op, "description": desc, "args": [a.tolist() for a in args],
                               "expected": "an exception: no input expression is the unique superset of the others (documented)", "observed": f"value of shape {o['val'][0].shape}"})
    for name, fs in failures.items():
        reported = set()
        for p, fn, sub_seed, why in fs:
            small = shrink_pair(p, fn, sub_seed)
            why2 = pair_differs(small) or why
            key = re.sub(r"\d+", "N", why2)[:60]
            if key in reported:
                continue
            reported.add(key)
            ctx.violation(pair_signature(small), replay_of(small, why2))

    # ---- structural tie on everything the real calls sent through `_parse_op`
    if ctx.driver_ok:
        fam_by_op = {o: f for f, ops in FAMILY_OPS.items() for o in ops}
        fam_by_op.update(fam_of)
        fam_by_op["rearrange"] = "id"
        cases, seen = [], set()
        for opname, d, kd, real in rec.records:
            f = fam_by_op.get(opname)
            if f is None or (f, d, kd) in seen:
                continue
            seen.add((f, d, kd))
            cases.append((f, d, kd, real))
        for k in range(0, len(cases), 2000):
            check_structural(ctx, cases[k:k + 2000], "recorded", disagreements, mode_diffs)
        ctx.extra["recorded_parse_op_invocations"] = len(cases)

    ctx.extra["model_disagreements"] = len(disagreements)
    ctx.extra["mode_disagreements"] = len(mode_diffs)
    for label, f, d, kd, diff in disagreements[:6]:
        ctx.tie_broken("correspondence:parse_op-model", f"{label} family={f} description={d!r} keepdims={kd}: {diff}")
    for f, d, kd, s, t in mode_diffs[:4]:
        ctx.tie_broken("correspondence:el_op-tree-vs-string", f"family={f} description={d!r} keepdims={kd}: string mode {s} / tree mode {t}")


def replay(ctx, path):
    with open(path) as f:
        doc = json.load(f)
    r = doc["replay"]
    print(json.dumps(r, indent=1, default=str)[:3000])
    if r.get("shorthand") == "implicit_output_ambiguous":
        o = outcome(r["op"], r["description"], [np.asarray(a) for a in r["args"]], {})
        print("replay: the call", "still returns a value" if "exc" not in o else f"raises {o['exc']} now")
        return 0 if "exc" in o else 1
    if r.get("stream") == "stage2":
        return c07_stage2.replay_record(r)
    if "short" not in r:
        print("replay: nothing to re-run for this record")
        return 0
    tup = lambda d: {k: (tuple(v) if isinstance(v, list) else v) for k, v in d.items()}
    p = {"shorthand": r["shorthand"], "op_s": r["short"]["op"], "op_l": r["long"]["op"], "short": r["short"]["description"], "long": r["long"]["description"],
         "args_s": [np.asarray(a) for a in r["short"]["args"]], "args_l": [np.asarray(a) for a in r["long"]["args"]],
         "kw_s": tup(r["short"]["kwargs"]), "kw_l": tup(r["long"]["kwargs"]), "squeeze_short": r.get("squeeze_short")}
    why = pair_differs(p)
    print("replay: the two forms", f"still differ: {why}" if why else "agree now")
    return 1 if why else 0
