"""C15 — adapted user functions follow loop-notation semantics; their outputs are checked.

Proof: Props/C15.lean (`kwonly_never_axis`, `split_partition`, `iskwarg_iff_kwonly`, `expr_to_axis_correct`,
`position_interleave`, `reduce_axis_semantics`, `elementwise_expected_shape`, `adapt_result_checked`, `adaptOK_sound`,
`extracted_*`).
Tie (T-src): Extracted/Adapt.lean — `_make_iskwarg`'s kind dispatch, the `iskwarg` lambdas of `adapt_numpylike_*`, the clash
check / split loop / receivers in `op.inner`, the call shapes of `reduce.inner` / `elementwise.inner`, `_ensure_output`'s
assert order, and `_expr_to_axis` translated statement by statement.
Tie (T-str): the real traced graph (as compiled) of every generated adapter call is decoded in the Lean driver and accepted
by the proved checker `adaptOK` against the model's own prediction (axis tuple, forwarded options, asserted shape); the
model's `splitKwargs` / `exprToAxis` / expected shapes are compared with the values observed inside einx (hooks on
`_expr_to_axis`, `_ensure_output`, `solve`).
Search (independent of Lean, on the real code through the public path `einx.numpy.adapt_numpylike_*`): instrumented user
functions that record every invocation:
  (i)   result == lib.denote's loop interpreter with the user function as elementary operation,
  (ii)  exactly one invocation per execution with the documented arguments (whole aligned tensor + `axis` = bracketed
        positions / equal-rank broadcast-compatible tensors) and exactly the caller's keyword-only options, verbatim,
  (iii) repeated calls with different and with equal-but-differently-typed option values (2 / 2.0 / True),
  (iv)  an axis named like a keyword-only parameter is rejected with SemanticError, the function is not invoked,
  (v)   misbehaving functions (list, scalar, None, duck-typed non-tensor, wrong arity / shape / rank) make the call raise,
        also when the interpreter runs with -O (sub-process).
`adapt_with_vmap` is not exercised: no framework with vmap is installed on this image.
"""
import functools
import inspect
import itertools
import json
import re
import warnings

import numpy as np

from lib import core, exectie, gen, graphcap, denote, oracle

EXTRACTORS = ["Adapt"]
EXTRA_PROPS = ["C15Exec"]


# ------------------------------------------------------------------------------------------------ user functions

def _f_sum():
    def user_sum(x, axis):
        return np.asarray(np.sum(x, axis=axis))
    return user_sum


def _f_scaled():
    def user_scaled_sum(x, axis, *, scale=1):
        return np.asarray(np.sum(x, axis=axis) * scale)
    return user_scaled_sum


def _f_var():
    def user_var(x, axis, *, ddof=0, where=None):
        return np.asarray(np.var(x, axis=axis, ddof=ddof, where=True if where is None else where))
    return user_var


def _f_norm():
    def user_norm(x, axis, *, ord=2):
        return np.asarray(np.sum(np.abs(x).astype(np.float64) ** ord, axis=axis) ** (1.0 / ord))
    return user_norm


def _f_affine_max():
    def user_affine_max(x, axis, *, offset=0, weight=1):
        return np.asarray(np.max(x, axis=axis) * weight + offset)
    return user_affine_max


def _g_sub():
    def user_sub(a, b):
        return np.asarray(a - 2 * b)
    return user_sub


def _g_axpy():
    def user_axpy(a, b, *, alpha=1.0):
        return np.asarray(a + alpha * b)
    return user_axpy


def _g_neg():
    def user_neg(a):
        return np.asarray(-a)
    return user_neg


def _g_shift():
    def user_shift(a, *, shift=0, flip=False):
        return np.asarray((-a if flip else a) + shift)
    return user_shift


class FnClass:
    def __init__(self, name, family, nin, build, options):
        self.name, self.family, self.nin, self.build, self.options = name, family, nin, build, options

    def gen_opts(self, rng):
        names = [n for n in self.options if rng.random() < 0.7]
        rng.shuffle(names)
        return {n: rng.choice(self.options[n]) for n in names}


CLASSES = [
    FnClass("sum(x, axis)", "reduce", 1, _f_sum, {}),
    FnClass("scaled_sum(x, axis, *, scale=1)", "reduce", 1, _f_scaled, {"scale": [2, 3, -1, 2.0, 0.5, True, 1]}),
    FnClass("var(x, axis, *, ddof=0, where=None)", "reduce", 1, _f_var, {"ddof": [0, 1, 1.0, True], "where": [None, True]}),
    FnClass("norm(x, axis, *, ord=2)", "reduce", 1, _f_norm, {"ord": [1, 2, 3, 2.0, 0.5]}),
    FnClass("affine_max(x, axis, *, offset=0, weight=1)", "reduce", 1, _f_affine_max, {"offset": [0, 5, -3, 1.5], "weight": [1, 2, -1, 2.0]}),
    FnClass("sub(a, b)", "elementwise", 2, _g_sub, {}),
    FnClass("axpy(a, b, *, alpha=1.0)", "elementwise", 2, _g_axpy, {"alpha": [1.0, 2, 2.0, -3, 0.5, True]}),
    FnClass("neg(a)", "elementwise", 1, _g_neg, {}),
    FnClass("shift(a, *, shift=0, flip=False)", "elementwise", 1, _g_shift, {"shift": [0, 7, -2, 0.5], "flip": [False, True, 1, 0]}),
]
BY_NAME = {c.name: c for c in CLASSES}


def instrument(plain, log):
    """A wrapper with the signature of `plain` (inspect follows __wrapped__) that records positional and keyword arguments."""
    @functools.wraps(plain)
    def recorded(*args, **kwargs):
        log.append({"args": args, "kwargs": dict(kwargs)})
        return plain(*args, **kwargs)
    return recorded


def adapt(family, f):
    import einx
    return getattr(einx.numpy, f"adapt_numpylike_{family}")(f)


# ------------------------------------------------------------------------------------------------ generators

def gen_unary(rng):
    while True:
        c = gen.gen_id(rng)
        if "diagonal" not in c["note"]:
            c = dict(c)
            c["family"] = "elementwise"
            return c


def gen_desc(rng, fc):
    if fc.family == "reduce" and rng.random() < 0.15:
        # nothing bracketed and nothing disappears: the elementary operation is applied to every 0-d sub-tensor
        # (axis=()), so the function is still called with the whole tensor, its options and an empty axis tuple
        c = rng.choice([
            {"desc": "a b", "shapes": [(2, 3)], "kwargs": {}, "note": ["no-brackets"]},
            {"desc": "a b -> a b", "shapes": [(3, 2)], "kwargs": {}, "note": ["no-brackets"]},
            {"desc": "a b -> b a", "shapes": [(2, 3)], "kwargs": {}, "note": ["no-brackets"]},
            {"desc": "(a b) -> a b", "shapes": [(6,)], "kwargs": {"a": 2}, "note": ["no-brackets"]},
        ])
    elif fc.family == "reduce":
        c = gen.gen_reduce(rng)
    elif fc.nin == 2:
        c = gen.gen_elementwise(rng)
        while len(c["shapes"]) != 2:      # the shared generator also produces three-operand forms; these functions take two
            c = gen.gen_elementwise(rng)
    else:
        c = gen_unary(rng)
    return {"desc": c["desc"], "shapes": [tuple(s) for s in c["shapes"]], "kwargs": dict(c["kwargs"]), "note": list(c["note"])}


def make_args(rng, shapes, shuffled):
    """Distinct integers per input (so that every element identifies its position in the input)."""
    out = []
    for i, shape in enumerate(shapes):
        n = int(np.prod(shape)) if len(shape) else 1
        vals = list(range(1 + 1000 * i, n + 1 + 1000 * i))
        if shuffled:
            rng.shuffle(vals)
        out.append(np.asarray(vals, dtype=np.int64).reshape(shape))
    return out


CANON = {
    ("reduce", 1): [("[a]", [(2,)], {}), ("a [b]", [(2, 3)], {}), ("[a] b", [(2, 3)], {}), ("a [b] c", [(2, 3, 2)], {}), ("(a [b])", [(6,)], {"b": 3}),
                    ("a b -> b", [(2, 3)], {})],
    ("elementwise", 2): [("a, a", [(2,), (2,)], {}), ("a b, b -> a b", [(2, 3), (3,)], {}), ("a, b -> b a", [(2,), (3,)], {}), ("a b, b a -> a b", [(2, 3), (3, 2)], {})],
    ("elementwise", 1): [("a", [(2,)], {}), ("a b -> b a", [(2, 3)], {}), ("(a b) -> b a", [(6,)], {"a": 2})],
}


def canon_cases(fc):
    return [{"desc": d, "shapes": s, "kwargs": dict(k), "note": ["canonical"]} for d, s, k in CANON[(fc.family, fc.nin)]]


def sig(fc, case, opts=None, extra=""):
    s = f"{fc.name} | {case['desc']!r} shapes={[list(x) for x in case['shapes']]} sizes={sorted(case['kwargs'].items())}"
    if opts is not None:
        s += f" options={[(k, type(v).__name__, repr(v)) for k, v in opts.items()]}"
    return s + (f" | {extra}" if extra else "")


# ------------------------------------------------------------------------------------------------ probes inside einx

class Probe:
    def __init__(self):
        self.axis_calls = []      # (marks, sizes, result)
        self.ensure = []          # {"expected": [...], "typed": bool, "calls": [{"shapes": [...], "kwargs": {...}}]}
        self.solve_params = []    # dict
        self.solved_ok = 0        # number of completed `solve` calls


class probe:
    """Observe (without changing) `_expr_to_axis`, `_ensure_output` of the decomposed-level adapters and the parameters
    handed to `solve`."""

    def __enter__(self):
        import einx._src.adapter.decomposednamedtensor_from_classical as dnc
        import einx._src.adapter.einx_from_namedtensor as efn
        import einx._src.namedtensor.stage3 as stage3
        self.dnc, self.efn = dnc, efn
        self.orig = (dnc._expr_to_axis, dnc._ensure_output, efn.solve)
        p = Probe()
        o_axis, o_ensure, o_solve = self.orig

        def _expr_to_axis(expr):
            r = o_axis(expr)
            p.axis_calls.append(([bool(stage3.is_in_brackets(a)) for a in expr], [int(a.value) for a in expr], r))
            return r

        def _ensure_output(op, expected_out_shapes, expected_type=None, **kw):
            rec = {"expected": [tuple(int(v) for v in s) for s in expected_out_shapes], "typed": expected_type is not None, "calls": []}
            p.ensure.append(rec)
            inner = o_ensure(op, expected_out_shapes, expected_type=expected_type, **kw)

            @functools.wraps(inner)
            def observed(*args, **kwargs):
                rec["calls"].append({"shapes": [tuple(int(v) for v in a.shape) if getattr(a, "shape", None) is not None else None for a in args], "kwargs": dict(kwargs)})
                return inner(*args, **kwargs)
            return observed

        def solve(exprs_in, exprs_out, shapes, invocation, parameters, *a, **k):
            p.solve_params.append(dict(parameters))
            r = o_solve(exprs_in, exprs_out, shapes, invocation, parameters, *a, **k)
            p.solved_ok += 1
            return r

        dnc._expr_to_axis, dnc._ensure_output, efn.solve = _expr_to_axis, _ensure_output, solve
        return p

    def __exit__(self, *exc):
        self.dnc._expr_to_axis, self.dnc._ensure_output, self.efn.solve = self.orig
        return False


def run_adapted(fc, case, opts, args):
    """Fresh function object, fresh adapter (hence a cold cache).  -> dict(res | exc, log, rec, probe, plain)."""
    log = []
    plain = fc.build()
    out = {"log": log, "plain": plain, "rec": None, "probe": None}
    try:
        f = adapt(fc.family, instrument(plain, log))
    except Exception as e:
        out["exc"] = e
        out["stage"] = "adapt"
        return out
    out["adapted"] = f
    with warnings.catch_warnings():
        warnings.simplefilter("ignore")
        with np.errstate(all="ignore"):
            try:
                with graphcap.capture() as cap:
                    with probe() as p:
                        out["probe"] = p
                        out["res"] = f(case["desc"], *args, **case["kwargs"], **opts)
            except Exception as e:
                out["exc"] = e
                out["stage"] = "call"
            out["rec"] = cap.records[-1] if cap.records else None
    return out


# ------------------------------------------------------------------------------------------------ oracle pieces

def same_typed(sent, recv):
    """verbatim: same type and equal value, recursively for tuples."""
    if type(sent) is not type(recv):
        return False
    if isinstance(sent, tuple):
        return len(sent) == len(recv) and all(same_typed(a, b) for a, b in zip(sent, recv))
    return sent == recv


def same_result(a, b):
    a, b = np.asarray(a), np.asarray(b)
    if a.dtype.kind != b.dtype.kind and not (a.dtype.kind in "iu" and b.dtype.kind in "iu"):
        return False
    return oracle.same(a, b)


def expected_result(fc, plain, opts, solved, args):
    ei, eo = solved
    with warnings.catch_warnings():
        warnings.simplefilter("ignore")
        with np.errstate(all="ignore"):
            if fc.family == "reduce":
                return denote.denote_reduce(lambda sub: plain(sub, axis=tuple(range(sub.ndim)), **opts), ei[0], eo[0], args[0])
            return denote.denote_elementwise(lambda *xs: plain(*xs, **opts), ei, eo[0], args)


def leaf_view(expr_json):
    v = denote._single_view(expr_json)
    for d in v:
        if d[0] == "off":
            raise denote.Unsupported("concatenation")
    return denote.leaves(v)


def align(x, X, lv):
    """Is the received tensor `x` the input `X` viewed along the leaf axes `lv` of its expression (all elements of X distinct),
    up to dropping/adding length-1 dims and a permutation of the axes?  -> (ok, [leaf index | None per dim of x], in_expression_order)."""
    x = np.asarray(x)
    sizes = [l.size for l in lv]
    if int(np.prod(sizes)) != X.size or x.size != X.size:
        return False, None, False
    XL = X.reshape(sizes)
    pos = {int(v): k for k, v in enumerate(X.reshape(-1))}
    strides = [int(np.prod(sizes[k + 1:])) for k in range(len(sizes))]
    nt_leaves = [k for k, s in enumerate(sizes) if s > 1]
    dim_leaf = [None] * x.ndim
    zero = (0,) * x.ndim
    if x.size == 0:
        return True, dim_leaf, True
    try:
        base = pos[int(x[zero])]
    except KeyError:
        return False, None, False
    for j in range(x.ndim):
        if x.shape[j] <= 1:
            continue
        e = tuple(1 if t == j else 0 for t in range(x.ndim))
        v = int(x[e])
        if v not in pos:
            return False, None, False
        delta = pos[v] - base
        cands = [k for k in nt_leaves if strides[k] == delta and sizes[k] == x.shape[j]]
        if len(cands) != 1:
            return False, None, False
        dim_leaf[j] = cands[0]
    used = [k for k in dim_leaf if k is not None]
    if sorted(used) != nt_leaves:
        return False, None, False
    sq = XL.reshape([sizes[k] for k in nt_leaves]) if nt_leaves else XL.reshape(())
    perm = [nt_leaves.index(k) for k in used]
    xs = x.reshape([x.shape[j] for j in range(x.ndim) if x.shape[j] > 1]) if used else x.reshape(())
    ok = bool(np.array_equal(xs, np.transpose(sq, perm) if perm else sq))
    return ok, dim_leaf, used == sorted(used)


def check_invocation(fc, case, opts, args, run, solved):
    """(ii): list of problems (strings) with the recorded invocations; also returns evidence tags."""
    log = run["log"]
    tags = []
    if len(log) != 1:
        return [f"the function was invoked {len(log)} times during one execution"], tags
    rec = log[0]
    plain = run["plain"]
    try:
        bound = inspect.signature(plain).bind(*rec["args"], **rec["kwargs"])
    except TypeError as e:
        return [f"arguments do not bind to the function's signature: {e}"], tags
    problems = []
    ei, eo = solved
    npos = 1 if fc.family == "reduce" else fc.nin
    recv_opts = {k: v for k, v in rec["kwargs"].items() if not (fc.family == "reduce" and k == "axis")}
    if len(rec["args"]) > (2 if fc.family == "reduce" else npos):
        problems.append(f"{len(rec['args'])} positional arguments")
    # options: exactly the caller's, verbatim
    if list(sorted(recv_opts)) != list(sorted(opts)):
        problems.append(f"keyword options received {sorted(recv_opts)} but the caller passed {sorted(opts)}")
    else:
        for k, v in opts.items():
            if not same_typed(v, recv_opts[k]):
                problems.append(f"option {k}: caller passed {v!r} ({type(v).__name__}), function received {recv_opts[k]!r} ({type(recv_opts[k]).__name__})")
    tensors = [bound.arguments[n] for n in list(inspect.signature(plain).parameters)[:npos] if n in bound.arguments]
    if len(tensors) != npos or not all(isinstance(t, np.ndarray) for t in tensors):
        problems.append(f"tensor arguments: {[type(t).__name__ for t in tensors]}")
        return problems, tags
    if fc.family == "reduce":
        axis = bound.arguments.get("axis", None)
        if not (isinstance(axis, tuple) and all(type(a) is int for a in axis)):
            problems.append(f"axis is {axis!r} ({type(axis).__name__}), not a tuple of ints")
            return problems, tags
        x = tensors[0]
        if not (all(0 <= a < x.ndim for a in axis) and all(a < b for a, b in zip(axis, axis[1:]))):
            problems.append(f"axis {axis} is not a strictly increasing tuple of positions of a rank-{x.ndim} tensor")
            return problems, tags
        try:
            lv = leaf_view(ei[0])
        except denote.Unsupported:
            tags.append("align:unsupported")
            return problems, tags
        if len({l.name for l in lv}) != len(lv):
            tags.append("align:repeated-axis")
            return problems, tags
        ok, dim_leaf, inorder = align(x, args[0], lv)
        if not ok:
            problems.append(f"the tensor passed (shape {x.shape}) is not the whole input viewed along its axes {[(l.name, l.size) for l in lv]}")
            return problems, tags
        tags.append("align:expression-order" if inorder else "align:permuted")
        marked_dims = tuple(j for j, k in enumerate(dim_leaf) if k is not None and lv[k].marked)
        axis_nt = tuple(a for a in axis if x.shape[a] > 1)
        if axis_nt != marked_dims:
            problems.append(f"axis={axis} but the bracketed axes {[l.name for l in lv if l.marked]} sit at positions {marked_dims} of the tensor passed (shape {x.shape})")
        n_marked_trivial = sum(1 for l in lv if l.marked and l.size == 1)
        if len(axis) - len(axis_nt) != n_marked_trivial:
            # every bracketed axis (also of length 1) must be reduced, no un-bracketed one may be
            problems.append(f"axis={axis} names {len(axis) - len(axis_nt)} length-1 positions, the expression brackets {n_marked_trivial} length-1 axes")
        strong = tuple(x.shape) == tuple(l.size for l in lv) and axis == tuple(i for i, l in enumerate(lv) if l.marked)
        tags.append("align:all-leaves" if strong else "align:unit-axes-dropped")
    else:
        nd = {t.ndim for t in tensors}
        if len(nd) != 1:
            problems.append(f"tensors of different rank: {[t.shape for t in tensors]}")
            return problems, tags
        try:
            np.broadcast_shapes(*[t.shape for t in tensors])
        except ValueError:
            problems.append(f"tensors are not broadcast-compatible: {[t.shape for t in tensors]}")
            return problems, tags
        names_at = [dict() for _ in range(tensors[0].ndim)]
        for i, (t, X) in enumerate(zip(tensors, args)):
            try:
                lv = leaf_view(ei[i])
            except denote.Unsupported:
                tags.append("align:unsupported")
                continue
            if len({l.name for l in lv}) != len(lv) or t.size != X.size:
                tags.append("align:skipped")
                continue
            ok, dim_leaf, inorder = align(t, X, lv)
            if not ok:
                problems.append(f"tensor {i} passed (shape {t.shape}) is not the whole input viewed along its axes {[(l.name, l.size) for l in lv]}")
                continue
            for j, k in enumerate(dim_leaf):
                if k is not None:
                    names_at[j][i] = lv[k].name
            tags.append("align:ok")
        for j, d in enumerate(names_at):
            if len(set(d.values())) > 1:
                problems.append(f"position {j} of the tensors passed carries different axes {d}")
    return problems, tags


# ------------------------------------------------------------------------------------------------ model correspondence

def pyval_json(v):
    return {"ty": type(v).__name__, "repr": repr(v)}


def identifiers(desc):
    return list(dict.fromkeys(re.findall(r"[A-Za-z_][A-Za-z0-9_]*", desc)))


def sig_params(plain):
    return [[n, p.kind.name] for n, p in inspect.signature(plain).parameters.items()]


def model_checks(ctx, fc, case, opts, run):
    """T-str / model correspondence for one executed call. Returns the number of disagreements recorded."""
    drv = ctx.driver()
    p = run["probe"]
    rec = run["rec"]
    bad = 0
    call_kwargs = list(case["kwargs"].items()) + list(opts.items())
    r = drv.ask({"kind": "split_kwargs", "family": fc.family, "params": sig_params(run["plain"]), "used": identifiers(case["desc"]),
                 "kwargs": [[k, pyval_json(v)] for k, v in call_kwargs]})
    if "options" not in r:
        ctx.tie_broken("correspondence:split-kwargs", f"{sig(fc, case, opts)}: model rejects ({json.dumps(r)[:200]}) a call einx accepts")
        return 1
    if not p.ensure or len(p.ensure[-1]["calls"]) != 1 or not p.solve_params:
        ctx.tie_broken("correspondence:probe", f"{sig(fc, case, opts)}: _ensure_output/solve not reached as modelled ({len(p.ensure)} wrappers, {len(p.solve_params)} solves)")
        return 1
    ens = p.ensure[-1]
    ecall = ens["calls"][0]
    real_opts = [[k, pyval_json(v)] for k, v in ecall["kwargs"].items() if not (fc.family == "reduce" and k == "axis")]
    real_params = [[k, pyval_json(v)] for k, v in p.solve_params[-1].items()]
    ctx.count("model:split_kwargs")
    if r["options"] != real_opts or r["parameters"] != real_params:
        bad += 1
        ctx.tie_broken("correspondence:split-kwargs", f"{sig(fc, case, opts)}: model options/parameters {r['options']}/{r['parameters']} vs real {real_opts}/{real_params}")
    if fc.family == "reduce":
        if len(p.axis_calls) != 1:
            ctx.tie_broken("correspondence:probe", f"{sig(fc, case, opts)}: _expr_to_axis called {len(p.axis_calls)} times")
            return bad + 1
        marks, sizes, real_axis = p.axis_calls[0]
        a = drv.ask({"kind": "expr_to_axis", "marks": marks, "sizes": sizes})
        ctx.count("model:expr_to_axis")
        if not (isinstance(real_axis, tuple) and list(real_axis) == a["axis"] == a["extracted"]) or [tuple(a["out_shape"])] != ens["expected"]:
            bad += 1
            ctx.tie_broken("correspondence:expr-to-axis", f"{sig(fc, case, opts)}: marks {marks} sizes {sizes}: model axis {a['axis']} (translated {a['extracted']}) shape {a['out_shape']} vs real {real_axis!r} {ens['expected']}")
        arg_shapes, axis, out_shape = [sizes], a["axis"], a["out_shape"]
        if ecall["shapes"] != [tuple(sizes)]:
            bad += 1
            ctx.tie_broken("correspondence:expr-to-axis", f"{sig(fc, case, opts)}: the function is traced on shapes {ecall['shapes']}, the expression has {sizes}")
    else:
        if any(s is None for s in ecall["shapes"]):
            ctx.tie_broken("correspondence:probe", f"{sig(fc, case, opts)}: an argument without a traced shape")
            return bad + 1
        a = drv.ask({"kind": "elementwise_shape", "shapes": [list(s) for s in ecall["shapes"]]})
        ctx.count("model:elementwise_shape")
        if "out_shape" not in a or [tuple(a["out_shape"])] != ens["expected"]:
            bad += 1
            ctx.tie_broken("correspondence:elementwise-shape", f"{sig(fc, case, opts)}: aligned shapes {ecall['shapes']}: model {a} vs real {ens['expected']}")
            return bad
        arg_shapes, axis, out_shape = [list(s) for s in ecall["shapes"]], None, a["out_shape"]
    if rec is None or rec.get("post") is None:
        ctx.tie_broken("correspondence:adapt-graph", f"{sig(fc, case, opts)}: no graph captured")
        return bad + 1
    gj, _ = graphcap.graph_to_json(rec["post"])
    ser = graphcap.GraphSerializer()
    model_opts = {k: v for k, v in opts.items() if [k, pyval_json(v)] in r["options"]}
    model_opts = [[k, ser.value(dict(opts)[k])] for k, _ in r["options"]] if len(model_opts) == len(r["options"]) else None
    if model_opts is None:
        return bad
    v = drv.ask({"kind": "adapt_check", "graph": gj, "arg_shapes": arg_shapes, "axis": axis, "options": model_opts, "out_shape": out_shape})
    # the verdict is the proved checker's (`adaptOK`, field "bool"); `adaptCheck` only supplies the reason
    if v["ok"] != v["bool"]:
        raise core.MachineryError(f"adaptCheck and adaptOK disagree on {sig(fc, case, opts)}")
    ctx.count("adapt_check:" + ("accepted" if v["bool"] else "rejected"))
    if v["bool"]:
        ctx.extra["graphs_checked"] = ctx.extra.get("graphs_checked", 0) + 1
    else:
        bad += 1
        ctx.tie_broken("correspondence:adapt-graph", f"{sig(fc, case, opts)}: the proved checker rejects the traced graph: {v['reason']}\ncode:\n{rec['code']}")
    # work package "exec": the graph that was compiled, translated from the C04 graph; premises and instance of
    # exec_from_compile / adapter_called_once_compiled (Props/C15Exec.lean)
    cg = rec.get("compiled_graph")
    if cg is not None:
        before = len(ctx.broken)
        exectie.exec_adapt(ctx, cg, rec.get("code"), arg_shapes, axis, model_opts, out_shape, sig(fc, case, opts))
        bad += len(ctx.broken) - before
    return bad


# ------------------------------------------------------------------------------------------------ (i) + (ii) on one case

def baseline_ok(fc, case, args):
    """Does the description work with a built-in operation of the same signature class (generator sanity)?"""
    import einx
    f = einx.sum if fc.family == "reduce" else einx.add
    try:
        with warnings.catch_warnings():
            warnings.simplefilter("ignore")
            f(case["desc"], *args, **case["kwargs"])
        return True
    except Exception:
        return False


def raise_is_failure(fc, case, args, run):
    """A raise of the adapted call on a generated description is a failure of the adapter when it happens in the compiled function,
    or outside einx's own error classes after the description was solved; a rejection by einx's front end (parser, solver, semantic
    checks) counts only if a built-in operation of the same signature class accepts the same description."""
    import einx
    e = run["exc"]
    if run.get("stage") == "adapt":
        return True
    front = isinstance(e, einx.errors.EinxError) and not isinstance(e, einx.errors.CallOperationError)
    solved = run["probe"] is not None and run["probe"].solved_ok > 0
    if isinstance(e, einx.errors.CallOperationError) or (solved and not front):
        return True
    return baseline_ok(fc, case, args)


def eval_case(fc, case, opts, args):
    """-> (status, problems, run, tags)   status in ok | FAIL | rejected-by-einx | oracle-unsupported"""
    run = run_adapted(fc, case, opts, args)
    if "exc" in run:
        if raise_is_failure(fc, case, args, run):
            e = run["exc"]
            msg = [l for l in str(e).splitlines() if l.strip()]
            return "FAIL", [f"the adapted call raises {type(e).__name__} on a valid description: {(msg[0] if msg else '')[:160]} / {(msg[-1] if msg else '')[:160]}"], run, []
        return "rejected-by-einx", [], run, []
    rec = run["rec"]
    if rec is None or not rec["solved"]:
        # A freshly adapted, never seen function object was not traced: the call was answered by a compiled function that
        # belongs to another adapter.  If the new function was never invoked the call cannot have used it as elementary
        # operation (a failing input in itself); otherwise the solved expressions are unknown and the case is skipped.
        if not run["log"]:
            return "FAIL", ["the call returned although the freshly adapted function was invoked 0 times and nothing was traced: the result comes from "
                            "the compiled function of a different adapted function"], run, ["served-by-foreign-adapter"]
        return "no-capture", [], run, []
    solved = rec["solved"][-1]
    problems, tags = check_invocation(fc, case, opts, args, run, solved)
    try:
        exp = expected_result(fc, run["plain"], opts, solved, args)
    except denote.Unsupported:
        return ("FAIL" if problems else "oracle-unsupported"), problems, run, tags
    res = run["res"]
    if not isinstance(res, np.ndarray):
        problems.append(f"the adapted call returned a {type(res).__name__}")
    elif not same_result(res, exp):
        problems.append(f"result differs from the loop-notation denotation with the function as elementary operation: observed {np.asarray(res).tolist()!r:.300} expected {np.asarray(exp).tolist()!r:.300}")
    return ("FAIL" if problems else "ok"), problems, run, tags


def report(ctx, kind, fc, case, opts, args, problems, fails, extra=None):
    """Shrink (canonical small inputs first) and record the violation."""
    best = (case, args, problems)
    for c in canon_cases(fc):
        a = make_args(ctx.rng, c["shapes"], False)
        try:
            pr = fails(c, a)
        except core.MachineryError:
            raise
        except Exception:
            pr = None
        if pr:
            best = (c, a, pr)
            break
    c, a, pr = best
    rep = {"kind": kind, "function": fc.name, "desc": c["desc"], "shapes": [list(s) for s in c["shapes"]], "sizes": c["kwargs"],
           "options": [[k, type(v).__name__, repr(v)] for k, v in (opts or {}).items()], "inputs": [x.tolist() for x in a], "what_differed": pr,
           "original": {"desc": case["desc"], "shapes": [list(s) for s in case["shapes"]], "sizes": case["kwargs"], "what_differed": problems}}
    if extra:
        rep.update(extra)
    head = pr[0].split(":")[0][:120] if kind != "repeat" else pr[0][:200]
    ctx.violation(sig(fc, c, opts if kind != "repeat" else None, f"{kind}: {head}"), rep)


# ------------------------------------------------------------------------------------------------ (iii) repeated calls

def typed_histories(fc):
    """Option histories: different values, then equal-but-differently-typed values (2 / 2.0, 1 / 1.0 / True, 0 / False)."""
    out = []
    for name in fc.options:
        if name == "where":
            continue
        if name == "flip":
            out.append((name, [True, 1, False, 0, True]))
        elif name == "ddof":
            out.append((name, [1, 0, 1.0, True, 0, False]))
        else:
            # ... and values whose CPython hashes collide although the values differ (hash(-1) == hash(-2) == -2)
            out.append((name, [2, 3, 2.0, 2, True, 1, 1.0, 2.0, -1, -2, -1, -1.0, -2.0]))
    return out


def eval_history(fc, case, args, name, hist):
    """Calls one adapted function repeatedly; -> list of (index, problem) for every call that misbehaves."""
    log = []
    plain = fc.build()
    f = adapt(fc.family, instrument(plain, log))
    bad = []
    for t, v in enumerate(hist):
        log.clear()
        with warnings.catch_warnings():
            warnings.simplefilter("ignore")
            with np.errstate(all="ignore"):
                fresh = run_adapted(fc, case, {name: v}, args)
                if "exc" in fresh:
                    return None      # not accepted even on a fresh adapter: reported by the single-call checks
                try:
                    res = f(case["desc"], *args, **case["kwargs"], **{name: v})
                except Exception as e:
                    bad.append((t, f"call {t} ({name}={v!r}) raises {type(e).__name__} on the used adapter, not on a fresh one"))
                    continue
        if len(log) != 1:
            bad.append((t, f"call {t} ({name}={v!r}) invoked the function {len(log)} times"))
            continue
        recv = log[0]["kwargs"].get(name, "<missing>")
        if not same_typed(v, recv):
            prev = [u for u in hist[:t] if u == v and not same_typed(u, v)]
            bad.append((t, f"after {name}={prev[0]!r} ({type(prev[0]).__name__}) the call with {name}={v!r} ({type(v).__name__}) invoked the function with {name}={recv!r} ({type(recv).__name__})"
                        if prev else f"call {t}: {name}={v!r} ({type(v).__name__}) arrived as {recv!r} ({type(recv).__name__})"))
        elif not same_result(res, fresh["res"]):
            bad.append((t, f"call {t} ({name}={v!r}) returns {np.asarray(res).tolist()!r:.200} on the used adapter, {np.asarray(fresh['res']).tolist()!r:.200} on a fresh one"))
    return bad


def minimal_history(fc, case, args, name, hist, t):
    """Shortest prefix-pair reproducing the failure of call t."""
    v = hist[t]
    for u in hist[:t]:
        if u == v and not same_typed(u, v):
            b = eval_history(fc, case, args, name, [u, v])
            if b:
                return [u, v], b
    return hist[:t + 1], None


# ------------------------------------------------------------------------------------------------ (iv) clashes

def clash_cases(fc, rng, fixed=None):
    """A description that uses the option name `o` as an axis name, with the size keyword `o=<its length>`.
    `fixed=k`: the k-th template with fixed names and sizes (used first, and for shrinking)."""
    o = rng.choice(list(fc.options)) if fixed is None else list(fc.options)[0]
    others = [n for n in gen.NAMES if n != o]
    a, b = rng.sample(others, 2) if fixed is None else others[:2]
    sa, sb, so = (rng.choice([1, 2, 3]), rng.choice([2, 3]), rng.choice([2, 3, 4])) if fixed is None else (2, 2, 3)
    if fc.family == "reduce":
        t = [(f"{a} [{o}]", [(sa, so)], {o: so}), (f"[{o}] {a} -> {a}", [(so, sa)], {o: so}), (f"({a} [{o}])", [(sa * so,)], {o: so}),
             (f"{a} {o} -> {a}", [(sa, so)], {o: so}), (f"[{a}] {o}", [(sa, so)], {o: so}), (f"{a} [{b}] -> {a} {o}", [(sa, sb)], {o: so})]
    elif fc.nin == 2:
        t = [(f"{a} {o}, {o} -> {a} {o}", [(sa, so), (so,)], {o: so}), (f"{a}, {b} -> {a} {b} {o}", [(sa,), (sb,)], {o: so}),
             (f"({a} {o}), {a} -> {a} {o}", [(sa * so,), (sa,)], {o: so})]
    else:
        t = [(f"{a} -> {a} {o}", [(sa,)], {o: so}), (f"{a} {o} -> {o} {a}", [(sa, so)], {o: so}), (f"({a} {o}) -> {a} {o}", [(sa * so,)], {o: so})]
    d, s, k = rng.choice(t) if fixed is None else t[fixed % len(t)]
    return o, {"desc": d, "shapes": s, "kwargs": k, "note": ["clash"]}


def eval_clash(fc, case, args):
    import einx
    log = []
    plain = fc.build()
    f = adapt(fc.family, instrument(plain, log))
    try:
        with warnings.catch_warnings():
            warnings.simplefilter("ignore")
            r = f(case["desc"], *args, **case["kwargs"])
    except einx.errors.SemanticError as e:
        if log:
            return [f"SemanticError, but the function was invoked {len(log)} times"]
        return []
    except Exception as e:
        if log:
            return [f"{type(e).__name__} after the function was invoked with {log[0]['kwargs']}"]
        return [f"rejected with {type(e).__name__} instead of SemanticError: {str(e).splitlines()[0][:160] if str(e) else ''}"]
    return [f"accepted: returned shape {np.asarray(r).shape}; function invoked with keywords {[l['kwargs'] for l in log]}"]


# ------------------------------------------------------------------------------------------------ (v) misbehaving functions

MISBEHAVE = ["list", "scalar", "none", "tuple2", "wrong_shape", "wrong_rank", "transposed", "duck"]


class Duck:
    """Not a tensor, but quacks like one: has the right `.shape`."""

    def __init__(self, r):
        self.shape = tuple(r.shape)
        self.ndim = r.ndim
        self.dtype = r.dtype
        self._r = r

    def __array__(self, dtype=None, copy=None):
        return self._r


def misbehaving(fc, variant):
    good = fc.build()

    def twist(r):
        r = np.asarray(r)
        if variant == "list":
            return r.tolist() if r.ndim else [r.tolist()]
        if variant == "scalar":
            return float(r.reshape(-1)[0]) if r.size else 0.0
        if variant == "none":
            return None
        if variant == "duck":
            return Duck(r)
        if variant == "tuple2":
            return (r, r)
        if variant == "wrong_rank":
            return r[None]
        if variant == "transposed" and r.ndim >= 2 and r.shape != r.T.shape:
            return np.ascontiguousarray(r.T)
        # wrong_shape (and transposed where transposition does not change the shape): same rank, one dim longer
        if r.ndim == 0:
            return np.zeros((2,), dtype=r.dtype)
        return np.concatenate([r, r.take([0], axis=0)], axis=0) if r.shape[0] > 0 else np.zeros((1,) + r.shape[1:], dtype=r.dtype)

    if fc.family == "reduce":
        def bad(x, axis):
            return twist(good(x, axis))
    elif fc.nin == 2:
        def bad(a, b):
            return twist(good(a, b))
    else:
        def bad(a):
            return twist(good(a))
    return bad


def eval_misbehave(fc, variant, case, args):
    log = []
    f = adapt(fc.family, instrument(misbehaving(fc, variant), log))
    try:
        with warnings.catch_warnings():
            warnings.simplefilter("ignore")
            r = f(case["desc"], *args, **case["kwargs"])
    except Exception as e:
        return [], type(e).__name__
    return [f"the function returned a {variant.replace('_', ' ')} value and the call returned {type(r).__name__} of shape {getattr(r, 'shape', None)} instead of failing"], None


OPTIMIZED_SCRIPT = r"""
import numpy as np, einx
def wrong_shape(x, axis):
    return np.zeros((3,), dtype=x.dtype)
def as_list(x, axis):
    return np.sum(x, axis=axis).tolist()
def wrong_shape2(a, b):
    return np.zeros((3, 2), dtype=a.dtype)
cases = [("reduce", wrong_shape, "a [b]", [np.arange(6).reshape(2, 3)]), ("reduce", as_list, "a [b]", [np.arange(6).reshape(2, 3)]),
         ("elementwise", wrong_shape2, "a b, b -> a b", [np.arange(6).reshape(2, 3), np.arange(3)])]
for fam, f, desc, args in cases:
    g = getattr(einx.numpy, "adapt_numpylike_" + fam)(f)
    try:
        r = g(desc, *args)
        print("RETURNED", f.__name__, type(r).__name__, getattr(r, "shape", None))
    except Exception as e:
        print("RAISED", f.__name__, type(e).__name__)
"""


def eval_misbehave_optimized():
    """(v) under `python -O`: the checks on the function's result must not depend on the interpreter's optimisation level.
    -> list of problems."""
    import os
    import subprocess
    import sys
    p = subprocess.run([sys.executable, "-O", "-c", OPTIMIZED_SCRIPT], capture_output=True, text=True, timeout=300, env=dict(os.environ))
    lines = [l for l in p.stdout.splitlines() if l.startswith(("RETURNED", "RAISED"))]
    if p.returncode != 0 or len(lines) != 3:
        raise core.MachineryError(f"python -O subprocess failed: {p.stderr[-500:]}")
    return [f"under python -O the misbehaving function {l.split()[1]} makes the call return {' '.join(l.split()[2:])} instead of failing" for l in lines if l.startswith("RETURNED")]


# ------------------------------------------------------------------------------------------------ run

def run(ctx):
    rng = ctx.rng
    n_desc = 15 if ctx.quick else 300
    n_hist = 3 if ctx.quick else 30
    n_clash = 6 if ctx.quick else 60
    n_mis = 3 if ctx.quick else 40
    if ctx.broken:
        n_desc, n_hist, n_clash, n_mis = n_desc * 3, n_hist * 3, n_clash * 3, n_mis * 3
    facts = getattr(ctx, "facts", {}).get("Adapt", {})
    ctx.extra["extracted"] = {k: facts.get(k) for k in ("option", "rejected", "reduce_excluded", "reduce_reserved", "elementwise_excluded", "axis_keyword",
                                                         "clashCheckBeforeSplit", "splitLoopPartitions", "solverGetsParameters", "opGetsOptions", "ensure", "expr_to_axis_translated")}
    ctx.extra["rule"] = (
        "9 instrumented numpy functions (reduce signature: plain, one option, two options incl. None-valued, float-valued norm, two int options; elementwise: binary, "
        "binary+option, unary, unary+two options) x descriptions from lib.gen's reduce / elementwise / id generators (grouping, 1-axes, implicit outputs, keepdims, "
        "broadcast) x random subsets of keyword-only options in random order, through the public path einx.numpy.adapt_numpylike_*; distinct-valued integer data; "
        "every call: fresh function object (cold cache), result vs loop interpreter, recorded invocation vs documented arguments, traced graph vs proved checker; "
        "plus option histories with equal-but-differently-typed values, clashing axis names, misbehaving functions; non-trivial = at least two axes or an option "
        "passed; distinct by (function, description, shapes, options)")
    ctx.assumptions.append("solved stage-3 expression trees are taken from einx itself (front-trusted; tied by C02/C07/C12); the loop interpreter lib/denote.py is the specification")
    ctx.assumptions.append("the numpy-like contract f(x, axis=A)[rho] = f(x[rho, :]) is a hypothesis of reduce_axis_semantics; the test functions satisfy it by construction (numpy reductions)")
    ctx.assumptions.append("adapt_with_vmap: not exercised, no framework with vmap is installed on this image")
    ctx.assumptions.append("adapter_called_once_compiled (Props/C15Exec.lean) connects adaptOK with the emitted program (C04) under the decidable premises wf_graph/supported/fwf/reachable, which are evaluated on every compiled graph of this run together with the instance of the conclusion (histogram exec-thm:*); the model text is compared with the real emitted text; CPython executing the emitted text statement by statement is trusted")
    ctx.assumptions.append("option values of literal types (int, float, bool, None, str, tuples of these); einx embeds options as literals in generated code, so lists arrive as tuples, "
                           "arrays as nested tuples and arbitrary objects are refused with NotImplementedError (observed on the pinned tree, not flagged)")
    use_model = bool(getattr(ctx, "driver_ok", False))
    model_bad = 0
    found = 0

    # ---- (i) (ii) + T-str
    for fc in CLASSES:
        cases = canon_cases(fc)[:2] + [gen_desc(rng, fc) for _ in range(n_desc)]
        for ci, case in enumerate(cases):
            opts = fc.gen_opts(rng)
            args = make_args(rng, case["shapes"], shuffled=rng.random() < 0.4)
            st, problems, run_, tags = eval_case(fc, case, opts, args)
            ctx.case(sig(fc, case, opts), st in ("ok", "FAIL") and (sum(len(s) for s in case["shapes"]) >= 2 or bool(opts)))
            ctx.count("function:" + fc.name)
            ctx.count("status:" + st)
            ctx.count("options_passed:%d" % len(opts))
            for t in tags:
                ctx.count(t)
            for n in case["note"]:
                ctx.count("note:" + n)
            if ci == 2:
                ctx.sample({"function": fc.name, "desc": case["desc"], "shapes": [list(s) for s in case["shapes"]], "sizes": case["kwargs"],
                            "options": {k: repr(v) for k, v in opts.items()}, "status": st,
                            "invocation": [{"args": [list(a.shape) if isinstance(a, np.ndarray) else repr(a) for a in l["args"]],
                                            "kwargs": {k: repr(v) for k, v in l["kwargs"].items()}} for l in run_["log"]]})
            if st == "FAIL" and found < 2:
                found += 1
                report(ctx, "call", fc, case, opts, args, problems,
                       lambda c, a, fc=fc, opts=opts: (lambda r: r[1] if r[0] == "FAIL" else None)(eval_case(fc, c, opts, a)))
            if st == "ok" and use_model and model_bad < 3 and run_["probe"] is not None:
                model_bad += model_checks(ctx, fc, case, opts, run_)
    if ctx.hist.get("status:no-capture", 0):
        ctx.tie_broken("correspondence:adapt-capture", f"{ctx.hist['status:no-capture']} calls of freshly adapted functions were not traced (served from another adapter's cache)")
    if ctx.hist.get("status:rejected-by-einx", 0) > 0.1 * max(1, ctx.evaluations):
        raise core.MachineryError(f"einx rejects {ctx.hist['status:rejected-by-einx']} of {ctx.evaluations} generated calls: the generator is out of step with the accepted notation")

    # ---- model: signatures with **kwargs are refused at adapt time; clashes -> SemanticError with the same names
    if use_model:
        drv = ctx.driver()

        def with_varkw(x, axis, *, scale=1, **extra):
            return x
        for fam in ("reduce", "elementwise"):
            try:
                adapt(fam, with_varkw)
                real = "accepted"
            except ValueError:
                real = "ValueError"
            except Exception as e:
                real = type(e).__name__
            m = drv.ask({"kind": "split_kwargs", "family": fam, "params": sig_params(with_varkw), "used": [], "kwargs": []})
            ctx.count("model:varkw")
            if ("value_error" in m) != (real == "ValueError"):
                ctx.tie_broken("correspondence:make-iskwarg", f"function with **kwargs: real {real}, model {m}")

    # ---- (iv) clashes
    found_clash = 0
    for fc in [c for c in CLASSES if c.options]:
        for ci in range(n_clash + 6):
            o, case = clash_cases(fc, rng, fixed=ci if ci < 6 else None)
            args = make_args(rng, case["shapes"], False)
            pr = eval_clash(fc, case, args)
            ctx.case(sig(fc, case, None, "clash"), True)
            ctx.count("clash:" + ("rejected-with-SemanticError" if not pr else "FAIL"))
            if use_model:
                m = ctx.driver().ask({"kind": "split_kwargs", "family": fc.family, "params": sig_params(fc.build()), "used": identifiers(case["desc"]),
                                      "kwargs": [[k, pyval_json(v)] for k, v in case["kwargs"].items()]})
                if (m.get("semantic") == [o]) != (not pr) and sum(1 for b in ctx.broken if b["name"] == "correspondence:clash") < 3:
                    ctx.tie_broken("correspondence:clash", f"{sig(fc, case)}: model {m}, real {'SemanticError' if not pr else pr}")
            if pr and found_clash < 2:
                found_clash += 1
                ctx.violation(sig(fc, case, None, "axis named like a keyword-only parameter: " + pr[0].split(":")[0]),
                              {"kind": "clash", "function": fc.name, "desc": case["desc"], "shapes": [list(s) for s in case["shapes"]], "sizes": case["kwargs"],
                               "inputs": [a.tolist() for a in args], "what_differed": pr, "expected": f"einx.errors.SemanticError naming '{o}', function not invoked"})

    # ---- (v) misbehaving functions
    found_mis = 0
    for fc in [BY_NAME["sum(x, axis)"], BY_NAME["sub(a, b)"], BY_NAME["neg(a)"]]:
        for variant in MISBEHAVE:
            for case in canon_cases(fc)[:2] + [gen_desc(rng, fc) for _ in range(n_mis)]:
                args = make_args(rng, case["shapes"], False)
                if not baseline_ok(fc, case, args):
                    continue
                pr, exc = eval_misbehave(fc, variant, case, args)
                ctx.case(sig(fc, case, None, "misbehave:" + variant), True)
                ctx.count(f"misbehave:{variant}:" + ("raises:" + exc if not pr else "RETURNED"))
                if pr and found_mis < 3:
                    found_mis += 1
                    c = case
                    for cc in canon_cases(fc):
                        a2 = make_args(rng, cc["shapes"], False)
                        p2, _ = eval_misbehave(fc, variant, cc, a2)
                        if p2:
                            c, args, pr = cc, a2, p2
                            break
                    ctx.violation(sig(fc, c, None, f"function returns {variant}: the call returns instead of failing"),
                                  {"kind": "misbehave", "variant": variant, "function": fc.name, "desc": c["desc"], "shapes": [list(s) for s in c["shapes"]], "sizes": c["kwargs"],
                                   "inputs": [a.tolist() for a in args], "what_differed": pr})

    pr = eval_misbehave_optimized()
    ctx.case("misbehave under python -O", True)
    ctx.count("misbehave:python -O:" + ("raises" if not pr else "RETURNED"))
    if pr:
        ctx.violation("python -O | wrong_shape(x, axis) | 'a [b]' shapes=[[2, 3]] | function returns a wrong shape / a list: the call returns instead of failing",
                      {"kind": "misbehave-optimized", "what_differed": pr, "script": OPTIMIZED_SCRIPT})

    # ---- (iii) repeated calls with different / equal-but-differently-typed option values
    found_hist = 0
    for fc in [c for c in CLASSES if c.options]:
        cases = canon_cases(fc)[:1] + [gen_desc(rng, fc) for _ in range(n_hist)]
        for case in cases:
            args = make_args(rng, case["shapes"], False)
            for name, hist in typed_histories(fc):
                bad = eval_history(fc, case, args, name, hist)
                if bad is None:
                    ctx.count("history:rejected-by-einx")
                    break
                ctx.case(sig(fc, case, None, f"history {name}={hist}"), True)
                ctx.count("history:" + ("ok" if not bad else "FAIL"))
                ctx.count("history_calls", len(hist))
                if bad and found_hist < 2:
                    found_hist += 1
                    t, msg = bad[0]
                    # shrink: canonical smallest description first, then the shortest history
                    c, a = case, args
                    for cc in canon_cases(fc):
                        a2 = make_args(rng, cc["shapes"], False)
                        b2 = eval_history(fc, cc, a2, name, hist)
                        if b2:
                            c, a, t, msg = cc, a2, b2[0][0], b2[0][1]
                            break
                    h2, b3 = minimal_history(fc, c, a, name, hist, t)
                    if b3:
                        msg = b3[0][1]
                    ctx.violation(sig(fc, c, None, f"history {name}=" + " then ".join(f"{v!r}" for v in h2) + f": {msg}"),
                                  {"kind": "repeat", "function": fc.name, "desc": c["desc"], "shapes": [list(s) for s in c["shapes"]], "sizes": c["kwargs"],
                                   "inputs": [x.tolist() for x in a], "option": name, "history": [[type(v).__name__, repr(v)] for v in h2], "what_differed": [msg],
                                   "original": {"desc": case["desc"], "shapes": [list(s) for s in case["shapes"]], "history": [repr(v) for v in hist], "all": [m for _, m in bad]}})
                    break
            if found_hist >= 2:
                break
        if found_hist >= 2:
            break
    ctx.extra["model_disagreements"] = model_bad
    ctx.extra["traces_validated_against_impl"] = ctx.extra.get("graphs_checked", 0)


# ------------------------------------------------------------------------------------------------ replay

def _parse_typed(ty, rp):
    return {"int": int, "float": float, "bool": lambda s: s == "True", "NoneType": lambda s: None, "str": lambda s: s.strip("'\"")}[ty](rp)


def replay(ctx, path):
    with open(path) as f:
        r = json.load(f)["replay"]
    if r.get("kind") == "misbehave-optimized":
        pr = eval_misbehave_optimized()
        for p in pr:
            print("STILL FAILS:", p)
        if not pr:
            print("the recorded input satisfies the property on the current tree")
        return 1 if pr else 0
    if "function" not in r:
        print(json.dumps(r, indent=1)[:4000])
        return 0
    fc = BY_NAME[r["function"]]
    case = {"desc": r["desc"], "shapes": [tuple(s) for s in r["shapes"]], "kwargs": r["sizes"], "note": []}
    args = [np.asarray(a, dtype=np.int64).reshape(s) for a, s in zip(r["inputs"], case["shapes"])]
    print("function:", fc.name, "| description:", case["desc"], "| shapes:", case["shapes"], "| sizes:", case["kwargs"])
    kind = r["kind"]
    if kind == "call":
        opts = {k: _parse_typed(t, v) for k, t, v in r["options"]}
        st, pr, _, _ = eval_case(fc, case, opts, args)
    elif kind == "repeat":
        hist = [_parse_typed(t, v) for t, v in r["history"]]
        pr = [m for _, m in (eval_history(fc, case, args, r["option"], hist) or [])]
    elif kind == "clash":
        pr = eval_clash(fc, case, args)
    elif kind == "misbehave":
        pr, _ = eval_misbehave(fc, r["variant"], case, args)
    else:
        pr = []
    if pr:
        for p in pr:
            print("STILL FAILS:", p)
        return 1
    print("the recorded input satisfies the property on the current tree")
    return 0
