"""T-str tie of the lowering models `Generic.lowerElementwise` / `Generic.lowerReduce` (lean/EinxModel/Generic/LowerOps.lean)
with really traced graphs (used by the checks of C01 and C17).

For generated and hand-written elementwise / reduce calls on the numpy backend the call is traced (graph before
optimisation, captured from outside einx), einx's solved stage-3 expressions and the serialised graph are sent to the
Lean driver (kind `lower_model`), which

  * runs the model on the expressions and compares its instruction list with the translation of the traced graph
    (same primitives, operand registers, shapes, permutations, axes, in the same depth-first order, same output register),
  * says whether the description satisfies the decidable hypotheses of `lower_elementwise_correct` /
    `lower_reduce_correct` (Props/C01LowerOps.lean) and recomputes the instance of the theorem's conclusion
    (the validator accepts the model's program against the loop-notation denotation),
  * checks that the stage-3 expression the theorems speak about has the same dimensions as einx's tree.

Every description is traced under the base lengths and two further assignments with the same 1-pattern; the skeletons of
the model's programs must agree, and the instance of `lower_elementwise_size_generic` / `lower_reduce_size_generic`
(Props/C17LowerOps.lean) is recomputed by the driver (kind `lower_generic`) for the base assignment paired with each other one.

A disagreement is a broken tie (`ctx.tie_broken`), not a violation by itself.
"""
import json
import random

from lib import gen, graphcap

# hand-written calls that the shared generator does not produce: ternary `where`, a single operand, four operands,
# unnamed unit axes, broadcast output axes, nested groups, reductions of grouped / unit / all axes, keepdims
EXTRA = [
    {"op": "where", "family": "elementwise", "desc": "a b, a, b -> b a", "shapes": [(2, 3), (2,), (3,)], "kwargs": {}},
    {"op": "where", "family": "elementwise", "desc": "(a b), b a, -> a b c", "shapes": [(6,), (3, 2), ()], "kwargs": {"a": 2, "c": 2}},
    {"op": "logical_and", "family": "elementwise", "desc": "a (b c) -> c b a", "shapes": [(2, 6)], "kwargs": {"b": 2}},
    {"op": "minimum", "family": "elementwise", "desc": "a 1 b, (b a) -> b a d", "shapes": [(2, 1, 3), (6,)], "kwargs": {"d": 2}},
    {"op": "add", "family": "elementwise", "desc": "a, b, a b, c -> c (a b)", "shapes": [(2,), (3,), (2, 3), (4,)], "kwargs": {}},
    {"op": "multiply", "family": "elementwise", "desc": "a (b c), c a 1, b -> b a c d", "shapes": [(2, 6), (3, 2, 1), (2,)], "kwargs": {"d": 4}},
    {"op": "maximum", "family": "elementwise", "desc": "a, a -> a", "shapes": [(3,), (3,)], "kwargs": {}},
    {"op": "subtract", "family": "elementwise", "desc": "a 1 b, b -> a b", "shapes": [(2, 1, 3), (3,)], "kwargs": {}},
    {"op": "less", "family": "elementwise", "desc": "a, b -> a b c", "shapes": [(2,), (3,)], "kwargs": {"c": 4}},
    {"op": "logaddexp", "family": "elementwise", "desc": "((a b) c), c -> c b a", "shapes": [(12,), (2,)], "kwargs": {"a": 2, "b": 3}},
    # permutations that are not involutions (a 3-cycle differs from its inverse), in the operand alignment and after the call
    {"op": "add", "family": "elementwise", "desc": "a b c, c a b -> b c a", "shapes": [(2, 3, 4), (4, 2, 3)], "kwargs": {}},
    {"op": "greater", "family": "elementwise", "desc": "c a b, a -> a b c", "shapes": [(4, 2, 3), (2,)], "kwargs": {}},
    {"op": "sum", "family": "reduce", "desc": "a [b] c d -> d a c", "shapes": [(2, 3, 4, 5)], "kwargs": {}},
    {"op": "max", "family": "reduce", "desc": "(a b) c [d] -> c a b", "shapes": [(6, 4, 2)], "kwargs": {"a": 2}},
    {"op": "sum", "family": "reduce", "desc": "a [b] (c [d]) 1 -> c a 1", "shapes": [(2, 3, 8, 1)], "kwargs": {"c": 2}},
    {"op": "sum", "family": "reduce", "desc": "a [b] (c [d]) 1", "shapes": [(2, 3, 8, 1)], "kwargs": {"c": 2, "keepdims": True}},
    {"op": "max", "family": "reduce", "desc": "[a b]", "shapes": [(2, 3)], "kwargs": {}},
    {"op": "mean", "family": "reduce", "desc": "a [b] -> a c", "shapes": [(2, 3)], "kwargs": {"c": 2}},
    {"op": "prod", "family": "reduce", "desc": "([a] b) c -> c b", "shapes": [(6, 2)], "kwargs": {"a": 2}},
    {"op": "any", "family": "reduce", "desc": "a [1] b -> b a", "shapes": [(2, 1, 3)], "kwargs": {}},
    {"op": "min", "family": "reduce", "desc": "a b -> b", "shapes": [(2, 3)], "kwargs": {}},
]


def canon_unnamed(ei, eo):
    """einx names every unnamed axis `unnamed.<counter>` with a process-wide counter, so two traces of one description differ
    in these names; rename them, consistently within one call, in order of first occurrence."""
    ren = {}

    def walk(j):
        if isinstance(j, dict):
            if j.get("k") == "axis" and isinstance(j.get("name"), str) and j["name"].startswith("unnamed"):
                return dict(j, name=ren.setdefault(j["name"], f"unnamed.c{len(ren)}"))
            return {k: walk(v) for k, v in j.items()}
        if isinstance(j, list):
            return [walk(v) for v in j]
        return j
    return walk(ei), walk(eo)


def lower_tie(ctx, n, SizedCall, variants, prefix="lower"):
    drv = ctx.driver()
    # an own generator (seeded by VERIF_SEED): the call streams of the checks that run this tie stay what they were
    rng = random.Random(f"lower_tie:{ctx.seed}")
    done = 0
    tries = 0
    extra = list(EXTRA)          # all hand-written calls on every run, then generated ones
    rng.shuffle(extra)
    n = max(n, len(extra) + 4)
    while done < n and tries < 6 * n:
        tries += 1
        if extra:
            call = extra.pop()
        else:
            call = gen.gen_elementwise(rng) if rng.random() < 0.55 else gen.gen_reduce(rng)
        fam = call["family"]
        try:
            sc = SizedCall.from_call(call, "numpy")
        except Exception:
            ctx.count(f"{prefix}:unsizable")
            continue
        assigns = [dict(sc.axes)] + [a for _, a in variants(sc, rng)[:2]]
        skels = []
        solved = []
        counted = False
        for a in assigns:
            try:
                graphcap.clear_caches()
                with graphcap.capture() as cap:
                    sc.text(a)
            except Exception as ex:
                ctx.count(f"{prefix}:{fam}:raises-" + type(ex).__name__)
                break
            if not cap.records or not cap.records[-1]["solved"] or cap.records[-1]["pre"] is None:
                ctx.count(f"{prefix}:no-capture")
                break
            rec = cap.records[-1]
            ei, eo = rec["solved"][-1]
            gj, _ = graphcap.graph_to_json(rec["pre"])
            r = drv.ask({"kind": "lower_model", "family": fam, "op": sc.op, "exprs_in": ei, "exprs_out": eo, "graph": gj})
            where = f"einx.{sc.op}({sc.desc!r}) shapes={sc.shapes(a)} kwargs={sc.kwargs(a)}"
            if "err" in r["model"]:
                err = r["model"]["err"]
                if err.startswith("unsupported"):
                    ctx.count(f"{prefix}:{fam}:model-{err[:44]}")
                else:
                    # einx traced the call, so its lowering succeeded: the model must not fail on it
                    ctx.tie_broken(f"correspondence:{prefix}-model", f"{where}: the model fails ({err}) on a call that einx lowers")
                    ctx.count(f"{prefix}:{fam}:MODEL-ERROR")
                break
            if not r.get("dims_equal", False):
                ctx.tie_broken(f"correspondence:{prefix}-dims", f"{where}: the expression of the theorem has other dimensions than einx's solved tree")
            if not counted:
                counted = True
                if r.get("theorem_domain"):
                    ctx.count(f"{prefix}:{fam}:in-domain-of-theorem")
                else:
                    ctx.count(f"{prefix}:{fam}:outside-domain-of-theorem")
            if r.get("theorem_domain") and not r.get("theorem_instance"):
                ctx.tie_broken(f"model:{prefix}_{fam}_correct-instance",
                               f"{where}: hypotheses hold but the validator rejects the model's program against the denotation")
            if "ok" not in r["real"]:
                ctx.count(f"{prefix}:{fam}:real-untranslatable")
                break
            if not r["equal"]:
                ctx.tie_broken(f"correspondence:{prefix}-model",
                               f"{where}: model {json.dumps(r['model']['ok'])} out={r['model']['out']} vs traced graph {json.dumps(r['real']['ok'])} outs={r['real']['outs']}")
                ctx.count(f"{prefix}:{fam}:DIFF")
                break
            ctx.count(f"{prefix}:{fam}:equal")
            skels.append(json.dumps(r["model"]["skeleton"]))
            solved.append((ei, eo))
        else:
            done += 1
            ctx.count(f"{prefix}:{fam}:descriptions")
            ctx.extra["graphs_validated"] = ctx.extra.get("graphs_validated", 0) + len(assigns)
            if len(set(skels)) != 1:
                ctx.tie_broken(f"model:{prefix}-skeleton", f"einx.{sc.op}({sc.desc!r}): the model's skeleton differs between assignments with the same 1-pattern")
            # the instance of `lower_elementwise_size_generic` / `lower_reduce_size_generic` (Props/C17LowerOps.lean) for the base
            # assignment paired with every other one: hypotheses (both in the domain, related by gsim) and conclusion recomputed
            ei1, eo1 = canon_unnamed(*solved[0])
            for ei2, eo2 in (canon_unnamed(*x) for x in solved[1:]):
                g = drv.ask({"kind": "lower_generic", "family": fam, "op": sc.op, "exprs_in": ei1, "exprs_out": eo1,
                             "exprs_in2": ei2, "exprs_out2": eo2})
                if g.get("unsupported"):
                    ctx.count(f"{prefix}:{fam}:size-generic-unsupported")
                    continue
                if not g["related"]:
                    # the harness's re-assignment is supposed to keep the description and the 1-pattern
                    ctx.tie_broken(f"correspondence:{prefix}-size-generic-hypothesis",
                                   f"einx.{sc.op}({sc.desc!r}): einx's solved expressions of two assignments with the same 1-pattern are not related by gsim")
                    continue
                key = "in-domain" if g["domain"] else "outside-domain"
                ctx.count(f"{prefix}:{fam}:size-generic-pairs-{key}" + ("" if g["both_lowered"] else "-not-both-lowered"))
                if g["domain"] and not g["instance"]:
                    ctx.tie_broken(f"model:{prefix}_{fam}_size_generic-instance",
                                   f"einx.{sc.op}({sc.desc!r}): hypotheses of the size-genericity theorem hold but the skeletons differ")
    ctx.extra[f"{prefix}_descriptions"] = done
    return done
