"""C06 search oracle, real-code side: call specifications, their execution on the real einx, canonical
outcomes, and the fork server that provides pristine interpreters.

This module is imported by tools/props/c06.py (to build specs, print them as Python source and compare
outcomes) and is run as a script (`python c06_world.py --server`) to become the fork server: a process
that has imported numpy and einx but has made no einx call; for every job it forks a child, the child
executes a list of call specifications in order and returns one canonical JSON outcome per call.

Nothing in here knows about the Lean model.
"""
import json
import math
import os
import select
import signal
import sys
import time

# ------------------------------------------------------------------------------------------------ value specs
# A value spec is a JSON list:
#   ["int", n] ["float", num, den] ["bool", b] ["np", dtype, num, den] ["str", s] ["none"]
#   ["tuple", [..]] ["list", [..]] ["arr", dtype, nested-int-lists]
NP_DTYPES = ["int8", "int32", "int64", "uint8", "float16", "float32", "float64", "bool_"]


def v_src(v):
    k = v[0]
    if k == "int":
        return repr(int(v[1]))
    if k == "float":
        return repr(v[1] / v[2])
    if k == "bool":
        return "True" if v[1] else "False"
    if k == "np":
        if v[1] == "bool_":
            return f"np.bool_({bool(v[2])})"
        if v[1].startswith("float"):
            return f"np.{v[1]}({v[2] / v[3]!r})"
        return f"np.{v[1]}({int(v[2])})"
    if k == "str":
        return repr(v[1])
    if k == "none":
        return "None"
    if k == "tuple":
        return "(" + ", ".join(v_src(x) for x in v[1]) + ("," if len(v[1]) == 1 else "") + ")"
    if k == "list":
        return "[" + ", ".join(v_src(x) for x in v[1]) + "]"
    if k == "arr":
        return f"np.array({v[2]!r}, dtype=np.{v[1]})"
    raise ValueError(f"bad value spec {v}")


def v_build(v):
    import numpy as np
    k = v[0]
    if k == "int":
        return int(v[1])
    if k == "float":
        return v[1] / v[2]
    if k == "bool":
        return bool(v[1])
    if k == "np":
        t = getattr(np, v[1])
        if v[1] == "bool_":
            return t(bool(v[2]))
        if v[1].startswith("float"):
            return t(v[2] / v[3])
        return t(int(v[2]))
    if k == "str":
        return v[1]
    if k == "none":
        return None
    if k == "tuple":
        return tuple(v_build(x) for x in v[1])
    if k == "list":
        return [v_build(x) for x in v[1]]
    if k == "arr":
        return np.array(v[2], dtype=getattr(np, v[1]))
    raise ValueError(f"bad value spec {v}")


def v_sig(v):
    """Short typed rendering used in violation signatures: value with its Python type."""
    k = v[0]
    if k in ("int", "float", "bool"):
        return f"{k}:{v_src(v)}"
    if k == "np":
        return f"np.{v[1]}:{v_src(v)}"
    if k in ("tuple", "list"):
        return f"{k}:" + ("(" if k == "tuple" else "[") + ",".join(v_sig(x) for x in v[1]) + (")" if k == "tuple" else "]")
    if k == "arr":
        return f"ndarray[{v[1]}]:{v[2]!r}".replace(" ", "")
    return f"{k}:{v_src(v)}"


# ------------------------------------------------------------------------------------------------ tensor arguments
# ["T", shape, dtype]            numpy array with deterministic data
# ["I", shape, hi]               integer index array with values in [0, hi)
# ["S", valuespec]               Python / numpy scalar used as a tensor
# ["F", kind]                    tensor factory (see FACTORIES)
# ["L", nested]                  a Python list (not a valid tensor type for the numpy backend)
# ["N"]                          None (solve_* accept it)
FACTORY_SRC = {
    "lambda_ones": "lambda shape: np.ones(shape)",
    "lambda_arange": "lambda shape: np.arange(int(np.prod(shape))).reshape(shape)",
    "def_scale_int": "_mk('def f(shape, scale=1):\\n    return np.ones(shape) * scale')",
    "def_scale_float": "_mk('def f(shape, scale=1.0):\\n    return np.ones(shape) * scale')",
    "def_list_default": "_mk('def f(shape, init=[1, 2]):\\n    return np.full(shape, init[0])')",
    "def_tuple_default": "_mk('def f(shape, init=(1, 2)):\\n    return np.full(shape, init[0])')",
    "def_array_default": "_mk('def f(shape, init=np.zeros(2)):\\n    return np.full(shape, init[0])')",
    "callable_obj": "_mk('class f:\\n    def __call__(self, shape):\\n        return np.zeros(shape)\\nf = f()')",
    "np_ones": "np.ones",
    "wrong_shape": "lambda shape: np.ones(tuple(shape) + (1,))",
    "wrong_type": "lambda shape: [0.0] * int(np.prod(shape))",
    "raises": "_mk('def f(shape):\\n    raise RuntimeError(\"factory failed\")')",
    # factories of the mandatory ordered pairs (c06.mandatory_pairs): what einx passes to a factory (`name`, `arg_index`,
    # `signature`; all of them with **kwargs) depends on the factory's signature only, and every factory below returns a value
    # that shows which keywords it received
    "sig_shape": "_mk('def f(shape):\\n    return np.full(shape, 1.0)')",
    "sig_shape_kwargs": "_mk('def f(shape, **kwargs):\\n    return np.full(shape, 10.0 * len(kwargs) + len(kwargs.get(\"name\", \"\")))')",
    "sig_shape_name": "_mk('def f(shape, name):\\n    return np.full(shape, 100.0 + len(name))')",
    "sig_shape_name_opt": "_mk('def f(shape, name=\"none\"):\\n    return np.full(shape, 200.0 + len(name))')",
    "sig_shape_argindex_opt": "_mk('def f(shape, arg_index=7):\\n    return np.full(shape, 300.0 + arg_index)')",
    "partial_name_opt": "_mk('def g(shape, name=\"none\", scale=1):\\n    return np.full(shape, scale * (400.0 + len(name)))\\nf = functools.partial(g, scale=2)')",
    "partial_argindex_opt": "_mk('def g(shape, arg_index=7, scale=1):\\n    return np.full(shape, scale * (500.0 + arg_index))\\nf = functools.partial(g, scale=2)')",
    "obj_repr_shape": "_mk('class f:\\n    def __repr__(self):\\n        return \"Factory()\"\\n    def __call__(self, shape):\\n        return np.full(shape, 600.0)\\nf = f()')",
    "obj_repr_shape_name_opt": "_mk('class f:\\n    def __repr__(self):\\n        return \"Factory()\"\\n    def __call__(self, shape, name=\"none\"):\\n        return np.full(shape, 700.0 + len(name))\\nf = f()')",
    "lambda_shape": "lambda shape: np.full(shape, 800.0)",
    "lambda_shape_kwargs": "lambda shape, **kw: np.full(shape, 900.0 + len(kw))",
    "fill_1": "_Fill(1.0)",
    "fill_2": "_Fill(2.0)",
}
PRELUDE = """import functools
import types
import numpy as np
import einx


def _mk(src):
    ns = {"np": np, "functools": functools}
    exec(src, ns)
    return ns["f"]


class _Fill:
    # tensor factory: all instances have the same class, signature and repr, the state differs
    def __init__(self, v):
        self.v = v

    def __repr__(self):
        return "_Fill()"

    def __call__(self, shape):
        return np.full(shape, self.v)


class _ScaledSum:
    # numpy-like reduction: all instances have the same class, __name__ and repr, the state differs
    __name__ = "op"

    def __init__(self, k):
        self.k = k

    def __repr__(self):
        return "Op()"

    def __call__(self, x, axis):
        return np.sum(x, axis=axis) * self.k


class _ScaledAdd:
    # numpy-like elementwise operation: as _ScaledSum
    __name__ = "op"

    def __init__(self, k):
        self.k = k

    def __repr__(self):
        return "Op()"

    def __call__(self, x, y):
        return (x + y) * self.k


def _data(shape, dtype):
    n = int(np.prod(shape))
    a = (np.arange(n) * 3 % 7 - 2).reshape(shape)
    return (a % 2 == 0) if dtype == "bool_" else a.astype(dtype)


def _index(shape, hi):
    n = int(np.prod(shape))
    return (np.arange(n) * 5 % hi).reshape(shape)
"""
ADAPTER_SRC = {
    "reduce_sum": "einx.numpy.adapt_numpylike_reduce(np.sum)",
    "reduce_scaled": "einx.numpy.adapt_numpylike_reduce(_mk('def f(x, axis, *, scale=1):\\n    return np.sum(x, axis=axis) * scale'))",
    "elementwise_add": "einx.numpy.adapt_numpylike_elementwise(np.add)",
    "elementwise_scaled": "einx.numpy.adapt_numpylike_elementwise(_mk('def f(x, y, *, scale=1):\\n    return (x + y) * scale'))",
    # adapted callables of the mandatory ordered pairs: the code generated for the two members of a pair is the same text
    # (same repr in the comment line, same name hints); only the constant bound to `const1` differs
    "reduce_obj_k1": "einx.numpy.adapt_numpylike_reduce(_ScaledSum(1))",
    "reduce_obj_k2": "einx.numpy.adapt_numpylike_reduce(_ScaledSum(2))",
    "elementwise_obj_k1": "einx.numpy.adapt_numpylike_elementwise(_ScaledAdd(1))",
    "elementwise_obj_k2": "einx.numpy.adapt_numpylike_elementwise(_ScaledAdd(2))",
    "reduce_obj_sum": "einx.numpy.adapt_numpylike_reduce(_mk('class f:\\n    __name__ = \"op\"\\n    def __repr__(self):\\n        return \"Op()\"\\n    def __call__(self, x, axis):\\n        return np.sum(x, axis=axis)\\nf = f()'))",
    "reduce_obj_max": "einx.numpy.adapt_numpylike_reduce(_mk('class f:\\n    __name__ = \"op\"\\n    def __repr__(self):\\n        return \"Op()\"\\n    def __call__(self, x, axis):\\n        return np.max(x, axis=axis)\\nf = f()'))",
}


def t_src(t):
    k = t[0]
    if k == "T":
        return f"_data({tuple(t[1])!r}, {t[2]!r})"
    if k == "I":
        return f"_index({tuple(t[1])!r}, {t[2]!r})"
    if k == "S":
        return v_src(t[1])
    if k == "F":
        return FACTORY_SRC[t[1]]
    if k == "L":
        return repr(t[1])
    if k == "N":
        return "None"
    raise ValueError(f"bad tensor spec {t}")


def t_sig(t):
    k = t[0]
    if k == "T":
        return f"ndarray[{t[2]}]{tuple(t[1])}".replace(" ", "")
    if k == "I":
        return f"index{tuple(t[1])}<{t[2]}".replace(" ", "")
    if k == "S":
        return "scalar " + v_sig(t[1])
    if k == "F":
        return f"factory:{t[1]}"
    if k == "L":
        return f"list:{t[1]!r}".replace(" ", "")
    return "None"


# ------------------------------------------------------------------------------------------------ call specs
# {"fn": "id" | ... | "solve_shapes" | "solve_axes" | "matches" | "adapter:<name>",
#  "desc": str, "targs": [tensor specs], "kw": [[name, value spec], ...] (ordered),
#  "tkw": [[name, tensor spec], ...] (tensors passed by keyword, in this order, before "kw"),
#  "backend": None | ["name", n] | ["obj", n] | ["bad"],  "graph": bool,
#  "with": [backend names of the enclosing `with einx.backend.get(n):` blocks, outermost first],
#  "escape": bool  (a failing call propagates out of all enclosing with-blocks before it is caught)}
def call_src(c, indent=""):
    fn = c["fn"]
    callee = f"ADAPTERS[{fn[8:]!r}]" if fn.startswith("adapter:") else f"einx.{fn}"
    parts = [repr(c["desc"])] + [t_src(t) for t in c["targs"]] + [f"{k}={t_src(t)}" for k, t in c.get("tkw") or []] + [f"{k}={v_src(v)}" for k, v in c["kw"]]
    b = c.get("backend")
    if b is not None:
        parts.append("backend=" + (repr(b[1]) if b[0] == "name" else f"einx.backend.get({b[1]!r})" if b[0] == "obj" else "42"))
    if c.get("graph"):
        parts.append("graph=True")
    return f"{indent}{callee}({', '.join(parts)})"


def call_sig(c):
    """One-line identification of a call with the types of everything tracing could look at."""
    parts = [repr(c["desc"])] + [t_sig(t) for t in c["targs"]] + [f"{k}={t_sig(t)}" for k, t in c.get("tkw") or []] + [f"{k}={v_sig(v)}" for k, v in c["kw"]]
    b = c.get("backend")
    if b is not None:
        parts.append(f"backend={b[0]}:{b[1] if len(b) > 1 else ''}")
    if c.get("graph"):
        parts.append("graph=True")
    w = c.get("with") or []
    return ("with[" + ">".join(w) + "] " if w else "") + f"{c['fn']}({', '.join(parts)})" + (" !escape" if c.get("escape") else "")


def history_src(items):
    """A runnable Python script that executes the history and prints every outcome (for replay files)."""
    used = sorted({c["fn"][8:] for c in items if c["fn"].startswith("adapter:")})
    lines = [PRELUDE, "ADAPTERS = {" + ", ".join(f"{n!r}: {ADAPTER_SRC[n]}" for n in used) + "}", "", ""]
    lines.append("def show(i, thunk):\n    try:\n        r = thunk()\n        print(i, 'ok', getattr(r, 'shape', None), getattr(r, 'dtype', None), r if not hasattr(r, 'tolist') else r.tolist())\n"
                 "    except Exception as e:\n        print(i, 'raised', type(e).__module__ + '.' + type(e).__name__)\n        return e\n\n")
    for i, c in enumerate(items):
        w = c.get("with") or []
        ind = ""
        if c.get("escape") and w:
            lines.append("try:")
            ind = "    "
        for n in w:
            lines.append(f"{ind}with einx.backend.get({n!r}):")
            ind += "    "
        if c.get("escape") and w:
            lines.append(f"{ind}_e = show({i}, lambda: {call_src(c)})\n{ind}if _e is not None:\n{ind}    raise _e\nexcept Exception:\n    pass")
        else:
            lines.append(f"{ind}show({i}, lambda: {call_src(c)})")
    return "\n".join(lines) + "\n"


# ------------------------------------------------------------------------------------------------ execution (child process)
class Env:
    def __init__(self):
        ns = {}
        exec(PRELUDE, ns)
        self.ns = ns
        self.adapters = {}

    def adapter(self, name):
        if name not in self.adapters:
            self.adapters[name] = eval(ADAPTER_SRC[name], self.ns)
        return self.adapters[name]

    def tensor(self, t):
        return eval(t_src(t), self.ns)


def canon_graph(text):
    """Graph text up to variable naming: parse, rename parameters/locals by first occurrence, drop comments."""
    import ast
    try:
        tree = ast.parse(text)
    except SyntaxError:
        return "UNPARSEABLE:" + text
    names = {}

    def nm(x):
        if x not in names:
            names[x] = f"v{len(names)}"
        return names[x]

    local = set()
    for n in ast.walk(tree):
        if isinstance(n, ast.arg):
            local.add(n.arg)
        elif isinstance(n, ast.Name) and isinstance(n.ctx, ast.Store):
            local.add(n.id)

    class R(ast.NodeTransformer):
        def visit_arg(self, n):
            n.arg = nm(n.arg)
            return n

        def visit_Name(self, n):
            if n.id in local or (n.id.startswith("const") and n.id[5:].isdigit()):
                n.id = nm(n.id)
            return n

    # rename in source order: ast.NodeTransformer visits fields in order, which is source order for these programs
    tree = R().visit(tree)
    return ast.unparse(tree)


def canon_value(r):
    import numpy as np
    if isinstance(r, str):
        return {"graph": canon_graph(r)}
    if isinstance(r, np.ndarray):
        kind = r.dtype.kind
        flat = r.reshape(-1).tolist()
        if kind == "f":
            flat = [("nan" if math.isnan(x) else "inf" if x == math.inf else "-inf" if x == -math.inf else float(x)) for x in flat]
        elif kind in "iub":
            flat = [int(x) for x in flat]
        else:
            flat = [repr(x) for x in flat]
        return {"array": {"shape": [int(s) for s in r.shape], "kind": kind, "dtype": str(r.dtype), "v": flat}}
    if isinstance(r, (bool, np.bool_)):
        return {"bool": bool(r)}
    if isinstance(r, (int, np.integer)):
        return {"int": int(r)}
    if isinstance(r, (float, np.floating)):
        return {"float": float(r)}
    if isinstance(r, (tuple, list)):
        return {"seq": [canon_value(x) for x in r]}
    if isinstance(r, dict):
        return {"map": [[str(k), canon_value(v)] for k, v in sorted(r.items(), key=lambda kv: str(kv[0]))]}
    if r is None:
        return {"none": True}
    return {"other": type(r).__name__}


def canon_exc(e):
    out = {"err": f"{type(e).__module__}.{type(e).__name__}"}
    if e.__cause__ is not None:
        out["cause"] = type(e.__cause__).__name__
    out["msg"] = str(e)[:160]
    return out


class _Escape(Exception):
    def __init__(self, inner):
        self.inner = inner


def run_call(c, env):
    """Execute one call spec against the real einx; returns (outcome, exception-or-None)."""
    import einx
    try:
        fn = c["fn"]
        f = env.adapter(fn[8:]) if fn.startswith("adapter:") else getattr(einx, fn)
        args = [c["desc"]] + [env.tensor(t) for t in c["targs"]]
        kwargs = {k: env.tensor(t) for k, t in c.get("tkw") or []}
        kwargs.update({k: v_build(v) for k, v in c["kw"]})
        b = c.get("backend")
        if b is not None:
            kwargs["backend"] = b[1] if b[0] == "name" else einx.backend.get(b[1]) if b[0] == "obj" else 42
        if c.get("graph"):
            kwargs["graph"] = True
    except Exception as e:  # building the arguments is not part of the call under test
        return {"harness-error": f"{type(e).__name__}: {e}"}, None
    try:
        r = f(*args, **kwargs)
    except Exception as e:
        return canon_exc(e), e
    return {"ok": canon_value(r)}, None


def run_history(items, env=None):
    """Execute the items in order, honouring their with-stacks with real `with` statements."""
    import einx
    env = env or Env()
    outs = []
    probe = KeyProbe() if any(c.get("probe_key") for c in items) else None

    def block(i, stack):
        while i < len(items):
            w = items[i].get("with") or []
            if w[:len(stack)] != stack:
                return i
            if len(w) > len(stack):
                name = w[len(stack)]
                try:
                    b = einx.backend.get(name)
                except Exception as e:
                    outs.append({"with-error": canon_exc(e)})
                    i += 1
                    continue
                with b:
                    i = block(i, stack + [name])
                continue
            if probe is not None:
                probe.begin(items[i])
            o, exc = run_call(items[i], env)
            outs.append(o)
            if probe is not None:
                probe.end()
            i += 1
            if exc is not None and items[i - 1].get("escape") and stack:
                raise _Escape(i)
        return i

    i = 0
    while i < len(items):
        try:
            i = block(i, [])
        except _Escape as esc:
            i = esc.inner
    if probe is not None:
        probe.restore()
        return outs, stacks_state(), probe.result()
    return outs, stacks_state(), None


class KeyProbe:
    """Records what reaches `_freeze_args` of the compiled-function cache (the list `args` and the dict `kwargs` of
    `construct_graph_with_cache(args=..., kwargs=...)`) for every call, as JSON values of the Lean model."""

    def __init__(self):
        import einx._src.util.lru_cache as L
        self.L = L
        self.orig = L._freeze_value
        self.depth = 0
        self.cv = Converter()
        self.keys = []
        self.cur = None
        self.ops = {}
        probe = self

        def wrapper(x):
            if probe.depth == 0 and probe.cur is not None:
                probe.cur.append(x)
            probe.depth += 1
            try:
                return probe.orig(x)
            finally:
                probe.depth -= 1

        L._freeze_value = wrapper

    def begin(self, c):
        self.cur = []
        self.fn = c["fn"]

    def end(self):
        raw = self.cur
        self.cur = None
        if len(raw) >= 2 and isinstance(raw[0], list) and isinstance(raw[1], dict):
            op = self.ops.setdefault(self.fn, len(self.ops))
            kw = self.cv.conv(raw[1])
            self.keys.append({"op": op, "args": [self.cv.conv(a) for a in raw[0]], "kwargs": kw["kvs"]})
        else:
            self.keys.append(None)

    def restore(self):
        self.L._freeze_value = self.orig

    def result(self):
        return {"keys": self.keys, "env": self.cv.env_json()}


def stacks_state():
    """Lengths of the process-global context stacks (must be 0 between top-level calls)."""
    import einx._src.frontend.backend as B
    import einx._src.tracer.graph as G
    return {"use_stack": len(B.registry.state.use_stack), "dependon": len(getattr(G._dependon, "stack", []))}


# ------------------------------------------------------------------------------------------------ key probe
# Used only by the model correspondence of c06.py: real Python objects -> JSON values of the Lean model.
import inspect  # noqa: E402
import types  # noqa: E402

import numpy as np  # noqa: E402

NP_KIND = {"bool": "npBool", "int8": "npInt8", "int16": "npInt16", "int32": "npInt32", "int64": "npInt64", "uint8": "npUInt8",
           "float16": "npFloat16", "float32": "npFloat32", "float64": "npFloat64"}
KIND_TYPENAME = {"pyInt": "int", "pyBool": "bool", "pyFloat": "float", "npBool": "numpy.bool", "npInt8": "numpy.int8",
                 "npInt16": "numpy.int16", "npInt32": "numpy.int32", "npInt64": "numpy.int64", "npUInt8": "numpy.uint8",
                 "npFloat16": "numpy.float16", "npFloat32": "numpy.float32", "npFloat64": "numpy.float64"}
KIND_TYPE = {"pyInt": int, "pyBool": bool, "pyFloat": float, "npBool": np.bool_, "npInt8": np.int8, "npInt16": np.int16,
             "npInt32": np.int32, "npInt64": np.int64, "npUInt8": np.uint8, "npFloat16": np.float16, "npFloat32": np.float32,
             "npFloat64": np.float64}
INT_KINDS = ["pyInt", "npInt8", "npInt16", "npInt32", "npInt64", "npUInt8"]
FLOAT_KINDS = ["pyFloat", "npFloat16", "npFloat32", "npFloat64"]
BOOL_KINDS = ["pyBool", "npBool"]
ALL_KINDS = INT_KINDS + FLOAT_KINDS + BOOL_KINDS


def _dy(fr):
    """(numerator, exponent) of an exactly representable float / int: value = n / 2**e in normal form."""
    if isinstance(fr, (bool, np.bool_)):
        return int(bool(fr)), 0
    if isinstance(fr, (int, np.integer)):
        return int(fr), 0
    n, d = float(fr).as_integer_ratio()
    e = d.bit_length() - 1
    if d != 1 << e:
        raise ValueError(f"not dyadic: {fr!r}")
    return n, e


class Converter:
    """Real Python objects -> JSON values of the Lean model (and the hash environment for them)."""

    def __init__(self):
        self.obj_ids = {}
        self.keep = []
        self.env = {"str": {}, "cls": {}, "obj": {}}
        for k, t in KIND_TYPE.items():
            self.env["cls"][KIND_TYPENAME[k]] = hash(t)
        self.env["cls"]["inspect._ParameterKind"] = hash(inspect._ParameterKind)

    def type_name(self, t):
        for k, tt in KIND_TYPE.items():
            if t is tt:
                return KIND_TYPENAME[k]
        return f"{t.__module__}.{t.__qualname__}"

    def conv(self, x):
        from einx._src.tracer.signature.classical import Tensor, ConvertibleTensor
        import frozendict
        import einx._src.util.lru_cache as L
        for name in dir(L):
            cls = getattr(L, name)
            # a typed scalar wrapper used as cache key is, as a key, the tuple (type(x), x)
            if isinstance(cls, type) and cls.__module__ == L.__name__ and getattr(cls, "__slots__", None) == ("value",) and isinstance(x, cls):
                return {"t": "tuple", "xs": [self.conv(type(x.value)), self.conv(x.value)]}
        if isinstance(x, (bool, np.bool_, int, np.integer, float, np.floating)) and not isinstance(x, inspect._ParameterKind):
            kind = next(k for k, t in KIND_TYPE.items() if type(x) is t)
            n, e = _dy(x)
            return {"t": "num", "k": kind, "n": n, "e": e}
        if isinstance(x, inspect._ParameterKind):
            return {"t": "num", "k": "paramKind", "n": int(x), "e": 0}
        if isinstance(x, str):
            self.env["str"][x] = hash(x)
            return {"t": "str", "s": x}
        if x is None:
            return {"t": "none"}
        if isinstance(x, type):
            n = self.type_name(x)
            self.env["cls"][n] = hash(x)
            return {"t": "cls", "n": n}
        if isinstance(x, tuple):
            return {"t": "tuple", "xs": [self.conv(e) for e in x]}
        if isinstance(x, list):
            return {"t": "list", "xs": [self.conv(e) for e in x]}
        if isinstance(x, np.ndarray):
            return {"t": "ndarray", "d": NP_KIND[x.dtype.name], "x": self.conv(x.tolist())}
        if isinstance(x, (dict, frozendict.frozendict)):
            return {"t": "dict", "kvs": [[self._key(k), self.conv(v)] for k, v in x.items()]}
        if isinstance(x, types.SimpleNamespace):
            return {"t": "ns", "kvs": [[self._key(k), self.conv(v)] for k, v in vars(x).items()]}
        if isinstance(x, inspect.Parameter):
            return {"t": "param", "n": self._key(x.name), "d": self.conv(x.default), "a": self.conv(x.annotation), "k": int(x.kind)}
        if isinstance(x, ConvertibleTensor):
            return {"t": "conv", "c": self.conv(x.concrete), "s": None if x.shape is None else [int(s) for s in x.shape]}
        if isinstance(x, Tensor):
            return {"t": "tensor", "s": [int(s) for s in x.shape]}
        # anything else: compared and hashed by identity
        if id(x) not in self.obj_ids:
            self.obj_ids[id(x)] = len(self.obj_ids) + 1
            self.keep.append(x)
            self.env["obj"][self.obj_ids[id(x)]] = hash(x)
        return {"t": "obj", "id": self.obj_ids[id(x)]}

    def _key(self, k):
        if not isinstance(k, str):
            raise ValueError(f"non-string mapping key {k!r}")
        self.env["str"][k] = hash(k)
        return k

    def env_json(self):
        return {"str": [[k, v] for k, v in self.env["str"].items()], "cls": [[k, v] for k, v in self.env["cls"].items()],
                "obj": [[k, v] for k, v in self.env["obj"].items()], "none": hash(None)}



# ------------------------------------------------------------------------------------------------ fork server
def _child(job, wfd):
    try:
        import warnings
        warnings.simplefilter("ignore")
        outs, stacks, probe = run_history(job)
        data = json.dumps({"outs": outs, "stacks": stacks, **(probe or {})})
    except BaseException as e:  # noqa: BLE001
        data = json.dumps({"child-error": f"{type(e).__name__}: {e}"})
    with os.fdopen(wfd, "w") as f:
        f.write(data)
    os._exit(0)


def serve(workers, timeout):
    import numpy  # noqa: F401
    import einx  # noqa: F401  -- imported, but no einx call is ever made in this process
    import gc
    gc.collect()
    gc.freeze()   # children do not touch (and thereby copy) the pages of objects that exist already
    sys.stdout.write(json.dumps({"ready": True, "pid": os.getpid()}) + "\n")
    sys.stdout.flush()
    for line in sys.stdin:
        req = json.loads(line)
        jobs = req["jobs"]
        results = [None] * len(jobs)
        pending = list(range(len(jobs)))[::-1]
        running = {}  # rfd -> (idx, pid, t0, chunks)
        while pending or running:
            while pending and len(running) < workers:
                idx = pending.pop()
                r, w = os.pipe()
                pid = os.fork()
                if pid == 0:
                    os.close(r)
                    _child(jobs[idx], w)
                os.close(w)
                running[r] = (idx, pid, time.time(), [])
            ready, _, _ = select.select(list(running), [], [], 0.5)
            for r in ready:
                idx, pid, t0, chunks = running[r]
                data = os.read(r, 1 << 16)
                if data:
                    chunks.append(data)
                else:
                    os.close(r)
                    os.waitpid(pid, 0)
                    del running[r]
                    try:
                        results[idx] = json.loads(b"".join(chunks).decode())
                    except ValueError:
                        results[idx] = {"child-error": "no result (child died)"}
            now = time.time()
            for r, (idx, pid, t0, chunks) in list(running.items()):
                if now - t0 > timeout:
                    os.kill(pid, signal.SIGKILL)
                    os.waitpid(pid, 0)
                    os.close(r)
                    del running[r]
                    results[idx] = {"child-error": "timeout"}
        sys.stdout.write(json.dumps({"results": results}) + "\n")
        sys.stdout.flush()


if __name__ == "__main__":
    if len(sys.argv) >= 2 and sys.argv[1] == "--server":
        serve(int(sys.argv[2]) if len(sys.argv) > 2 else 8, float(sys.argv[3]) if len(sys.argv) > 3 else 120.0)
