"""C12 — the expression parser is total and stable under re-printing and extra spacing.

Tie (T-src): Extracted/Notation.lean (`_nary_ops`, literals, ellipsis, axis-name regex, anonymous name,
handled operators, the brace constants of `Ellipsis.__str__`, `str.isdigit`/`str.isdecimal` tables).
Tie (T-beh): the Lean model M1 (`parseOp`/`parseArgs`/`parseArg`, `print`) against the real
`stage1.parse_op`/`parse_args`/`parse_arg` and `str(tree)`: canonical tree *with node positions* (fresh
names and ellipsis ids renumbered by first occurrence), printed form, error class, error kind and caret
positions, on all token sequences up to a length bound, random strings and grammar-generated expressions.
Tie (T-beh, normal form): on every accepted string of the same streams the model's `NRoot`/`Excluded`/`Printable` verdicts
against the real round trip `parse_op(str(parse_op(s)))` (prediction of `parse_print_parse`: not Excluded => same shape).
Search (independent of the model, on the real code only):
  O1  no exception other than einx.errors.SyntaxError escapes parse_op
  O2  the SyntaxError quotes the caller's string and every caret is inside it
  O3  inserting redundant spaces (DESIGN.md C12 reading) keeps the tree / the error kind
  O4  str(tree) parses again to an equal tree
  O5  public operations never raise a SyntaxError that quotes text the caller did not write
"""
import itertools
import json
import re

import numpy as np

from lib import core

EXTRACTORS = ["Notation"]

TOKENS = ["a", "b", "1", "2", "(", ")", "[", "]", "...", "->", ",", "+", " ", "|"]
TOKENS_NODIGIT = [t for t in TOKENS if t not in ("1", "2")]
EXTRA_CHARS = "²١éα中①\U0001d7d8\t\n{}"


# ------------------------------------------------------------------ real code access

def _stage1():
    import einx._src.namedtensor.stage1 as s1
    return s1


def _syntax_error():
    import einx
    return einx.errors.SyntaxError


_KINDS = [
    ("is not allowed:", "invalidToken"),
    ("Found a closing", "closingNotOpened"),
    ("Found an opening", "openingNotClosed"),
    ("Only named axes, unnamed axes, and flattened axes", "concatOperand"),
    ("Concatenated axes must be wrapped", "concatNotWrapped"),
    ("Are you maybe missing a whitespace?", "invalidExpr+ws"),
    ("is not valid.", "invalidExpr"),
    ("All '->' operators must appear", "arrowLevel"),
    ("All ',' operators must appear", "commaLevel"),
    ("must not contain more than one '->'", "multipleArrows"),
    ("inconsistent bracket", "inconsistentBrackets"),
    ("must not contain a '->' operator", "argsHasArrow"),
    ("must not contain a ',' operator", "argHasComma"),
]


def error_kind(msg):
    for needle, k in _KINDS:
        if needle in msg:
            return k
    return "unknown:" + msg[:40]


def quoted_expression(msg):
    """The text between `Expression: "` and the closing quote that `ExpressionIndicator.create` writes."""
    m = re.search(r'Expression: "(.*?)"\n {13}', msg, flags=re.S)
    return m.group(1) if m else None


def tree_json(x):
    s1 = _stage1()
    b, e = int(x.begin_pos), int(x.end_pos)
    if isinstance(x, s1.Axis):
        return {"t": "axis", "name": x.name, "value": None if x.value is None else int(x.value), "b": b, "e": e}
    if isinstance(x, s1.FlattenedAxis):
        return {"t": "flat", "inner": tree_json(x.inner), "b": b, "e": e}
    if isinstance(x, s1.Brackets):
        return {"t": "brackets", "inner": tree_json(x.inner), "b": b, "e": e}
    if isinstance(x, s1.Ellipsis):
        return {"t": "ellipsis", "inner": tree_json(x.inner), "id": x.ellipsis_id, "b": b, "e": e}
    for cls, t in ((s1.ConcatenatedAxis, "concat"), (s1.List, "list"), (s1.Args, "args"), (s1.Op, "op")):
        if isinstance(x, cls):
            return {"t": t, "cs": [tree_json(c) for c in x.children], "b": b, "e": e}
    raise core.MachineryError(f"unknown stage-1 node {type(x)}")


def canon(tree, positions=True):
    """positions=True: renumber `unnamed.<id>` names and ellipsis ids by first occurrence (pre-order) -- used for the
    correspondence with the model.  positions=False: the *structure* (`Expr.shape` of the model): positions, ellipsis
    ids and the names of unnamed axes erased, as `Expr.__eq__` would compare if two parses could share uuids."""
    names, ids = {}, {}

    def go(n):
        out = {"t": n["t"]}
        if positions:
            out["b"], out["e"] = n["b"], n["e"]
        if n["t"] == "axis":
            nm = n["name"]
            if nm.startswith("unnamed."):
                nm = names.setdefault(nm, f"unnamed#{len(names)}") if positions else "unnamed"
            out["name"], out["value"] = nm, n["value"]
        elif n["t"] == "ellipsis":
            out["id"] = ids.setdefault(n["id"], len(ids)) if positions else 0
            out["inner"] = go(n["inner"])
        elif n["t"] in ("flat", "brackets"):
            out["inner"] = go(n["inner"])
        else:
            out["cs"] = [go(c) for c in n["cs"]]
        return out

    return go(tree)


def real_parse(text, entry="op"):
    s1 = _stage1()
    fn = {"op": s1.parse_op, "args": s1.parse_args, "arg": s1.parse_arg}[entry]
    try:
        t = fn(text)
    except _syntax_error() as e:
        msg = str(e)
        return {"error": "syntax", "kind": error_kind(msg), "pos": [int(p) for p in e.pos], "quoted": quoted_expression(msg)}
    except RecursionError:
        raise
    except Exception as e:  # noqa: BLE001 - any other exception class is an observation, not a harness failure
        return {"error": "other", "type": type(e).__name__, "msg": str(e)[:120]}
    return {"ok": tree_json(t), "str": str(t)}


_INTERNAL_CLASS = {"unhandledOp": "AssertionError", "assertAxisName": "AssertionError", "assertDelimiter": "AssertionError",
                   "assertMoveUp": "AssertionError", "assertRoot": "AssertionError", "intLiteral": "ValueError"}


def compare(real, model):
    """None if the model's answer corresponds to the real one, else a short description."""
    if "ok" in real:
        if "ok" not in model:
            return f"real parses, model: {json.dumps(model)[:200]}"
        if canon(real["ok"]) != canon(model["ok"]):
            return f"trees differ: real {json.dumps(canon(real['ok']))[:300]} model {json.dumps(canon(model['ok']))[:300]}"
        if real["str"] != model["str"]:
            return f"printed forms differ: real {real['str']!r} model {model['str']!r}"
        return None
    if real["error"] == "syntax":
        if model.get("error") != "syntax":
            return f"real SyntaxError {real['kind']}, model: {json.dumps(model)[:200]}"
        # the kind is read off the message text; a message the table does not know (reworded) is compared by class and
        # caret positions only
        if not real["kind"].startswith("unknown:") and real["kind"] != model["kind"]:
            return f"error kinds differ: real {real['kind']} model {model['kind']}"
        if real["pos"] != model["pos"] and real["pos"] not in model.get("alts", []):
            return f"caret positions differ ({real['kind']}): real {real['pos']} model {model['pos']} alts {model.get('alts')}"
        return None
    if model.get("error") != "internal":
        return f"real raises {real['type']}, model: {json.dumps(model)[:200]}"
    if _INTERNAL_CLASS.get(model["kind"]["k"]) != real["type"]:
        return f"exception classes differ: real {real['type']} model {model['kind']}"
    return None


# ------------------------------------------------------------------ generators

def enum_strings(tokens, maxlen):
    for k in range(maxlen + 1):
        for tup in itertools.product(tokens, repeat=k):
            yield "".join(tup)


def random_string(rng):
    n = rng.choice([1, 2, 3, 4, 5, 6, 8, 10, 14, 20])
    alphabet = rng.choice(["tok", "ascii", "mixed"])
    out = []
    for _ in range(n):
        if alphabet == "tok" or (alphabet == "mixed" and rng.random() < 0.7):
            out.append(rng.choice(TOKENS + ["c", "ab", "_x", "12", "a1"]))
        elif alphabet == "ascii" or rng.random() < 0.5:
            out.append(chr(rng.randint(32, 126)))
        else:
            out.append(rng.choice(EXTRA_CHARS))
    return "".join(out)


def gen_expr(rng, depth):
    r = rng.random()
    if depth <= 0 or r < 0.35:
        return rng.choice(["a", "b", "c", "d", "1", "2", "3", "..."])
    if r < 0.5:
        return "(" + gen_list(rng, depth - 1) + ")"
    if r < 0.68:
        return "[" + gen_list(rng, depth - 1) + "]"
    if r < 0.86:
        return gen_expr(rng, depth - 1) + "..."
    return "(" + " + ".join(gen_expr(rng, 0) if rng.random() < 0.7 else "(" + gen_list(rng, depth - 1) + ")" for _ in range(rng.randint(2, 3))) + ")"


def gen_list(rng, depth):
    return " ".join(gen_expr(rng, depth) for _ in range(rng.choice([0, 1, 1, 2, 2, 3])))


def gen_description(rng):
    def args():
        return ", ".join(gen_list(rng, rng.randint(1, 3)) for _ in range(rng.choice([1, 1, 1, 2, 3])))
    s = args()
    if rng.random() < 0.4:
        s += " -> " + args()
    if rng.random() < 0.15:
        # an arrow or a comma below the top level (exercises the move_up passes)
        s = s.replace(" ", " (" + rng.choice(["a -> b", "a, b"]) + ") ", 1)
    return s


# ------------------------------------------------------------------ oracles on the real code (independent of the model)

def redundant_space_slots(s):
    """Indices i such that inserting ' ' before s[i] inserts a redundant space (DESIGN.md, C12 reading)."""
    out = []
    for i in range(len(s) + 1):
        left, right = s[:i], s[i:]
        if (i == 0 or i == len(s) or left.endswith(" ") or right.startswith(" ") or left[-1] in "([" or right[0] in ")]"
                or any(left.endswith(x) or right.startswith(x) for x in ("->", ",", "+"))):
            # a position strictly inside a literal is not "next to" it
            if any(s[j:j + len(l)] == l and j < i < j + len(l) for l in ("->", "...") for j in range(max(0, i - 2), i)):
                continue
            out.append(i)
    return out


def outcome_class(r):
    if "ok" in r:
        return ("ok", json.dumps(canon(r["ok"], positions=False), sort_keys=True))
    if r["error"] == "syntax":
        return ("syntax", r["kind"])
    return ("other", r["type"])


def lex_for_shrinking(s):
    """Own tokenizer (literals of the notation, runs of other characters) -- only used to shrink failing inputs."""
    toks, cur, i = [], "", 0
    lits = ["->", "...", "|", ",", "+", " ", "(", ")", "[", "]"]
    while i < len(s):
        for l in lits:
            if s.startswith(l, i):
                if cur:
                    toks.append(cur)
                    cur = ""
                toks.append(l)
                i += len(l)
                break
        else:
            cur += s[i]
            i += 1
    if cur:
        toks.append(cur)
    return toks


def shrink_string(s, fails):
    """Greedy deterministic shrink: delete tokens, simplify tokens, rename axes a, b, c… by first occurrence."""
    toks = lex_for_shrinking(s)

    def ok(ts):
        try:
            return fails("".join(ts))
        except core.MachineryError:
            raise
        except Exception:  # noqa: BLE001
            return False

    changed = True
    while changed:
        changed = False
        for width in (4, 2, 1):
            i = 0
            while i + width <= len(toks):
                cand = toks[:i] + toks[i + width:]
                if ok(cand):
                    toks = cand
                    changed = True
                else:
                    i += 1
        pair = {"(": ")", "[": "]"}
        i = 0
        while i < len(toks):
            done = False
            if toks[i] in pair:
                for j in range(i + 1, len(toks)):
                    if toks[j] == pair[toks[i]]:
                        cand = toks[:i] + toks[i + 1:j] + toks[j + 1:]
                        if ok(cand):
                            toks = cand
                            changed = done = True
                            break
            if not done:
                i += 1
        # replace an ellipsis token or an empty group by a fresh axis name
        used = set(toks)
        fresh = next((c for c in "abcdefghij" if c not in used), None)
        if fresh is not None:
            for i in range(len(toks)):
                for width in (2, 1):
                    seg = toks[i:i + width]
                    if seg in (["..."], ["(", ")"], ["[", "]"]):
                        cand = toks[:i] + [fresh] + toks[i + width:]
                        if ok(cand):
                            toks = cand
                            changed = True
                            break
                if changed:
                    break
        for i, t in enumerate(toks):
            if i >= len(toks):
                break
            fresh_i = next((c for c in "abcdefghij" if c not in toks), "a")
            for simple in (fresh_i, "1", "²"):
                if simple == "²" and t.isascii():
                    continue
                is_name = re.fullmatch(r"[a-zA-Z_][a-zA-Z0-9_]*", t) is not None
                if t in ("->", "...", "|", ",", "+", " ", "(", ")", "[", "]") or t == simple:
                    continue
                # names of one character stay unless they repeat an earlier name; everything else is simplified
                if is_name and len(t) == 1 and (simple != fresh_i or t not in toks[:i]):
                    continue
                if t == "1" or (t.isdigit() and t.isascii() and len(t) == 1 and simple == "1"):
                    if simple != fresh_i:
                        continue
                cand = toks[:i] + [simple] + toks[i + 1:]
                if ok(cand):
                    toks = cand
                    changed = True
                    break
            if len(toks[i]) > 1 and toks[i] not in ("->", "...") and not changed:
                for j in range(len(toks[i])):
                    cand = toks[:i] + [toks[i][:j] + toks[i][j + 1:]] + toks[i + 1:]
                    if cand[i] and ok(cand):
                        toks = cand
                        changed = True
                        break
    # canonical axis names
    names = {}
    ren = []
    for t in toks:
        if re.fullmatch(r"[a-zA-Z_][a-zA-Z0-9_]*", t):
            ren.append(names.setdefault(t, "abcdefghij"[min(len(names), 9)]))
        else:
            ren.append(t)
    if ok(ren):
        toks = ren
    return "".join(toks)


class Oracles:
    def __init__(self, ctx):
        self.ctx = ctx
        self.reported = {"O1": set(), "O2": set(), "O3": set(), "O4": set(), "O5": set()}
        self.cap = 24

    def full(self, o):
        return len(self.reported[o]) >= self.cap

    def report(self, oracle, sig, replay):
        sig = re.sub(r"\d{20,}", "<uuid>", sig)  # uuid4().int in unnamed axis names / argmax's output axis
        if sig in self.reported[oracle]:
            return
        self.reported[oracle].add(sig)
        self.ctx.violation(sig, replay)

    # O1 + O2 on one string; returns the real result for reuse
    def check_parse(self, s, r=None):
        r = real_parse(s) if r is None else r
        if r.get("error") == "other":
            if not self.full("O1"):
                typ = r["type"]
                small = shrink_string(s, lambda x: real_parse(x).get("type") == typ)
                self.report("O1", f"parse_op({small!r}) raises {typ}",
                            {"oracle": "O1", "call": "einx._src.namedtensor.stage1.parse_op", "text": small, "found_as": s,
                             "expected": "a tree or einx.errors.SyntaxError", "observed": f"{typ}: {real_parse(small).get('msg')}"})
        elif r.get("error") == "syntax":
            bad_pos = [p for p in r["pos"] if not (0 <= p < len(s))]
            if (r["quoted"] != s or bad_pos) and not self.full("O2"):
                self.report("O2", f"parse_op({s!r}) SyntaxError quotes {r['quoted']!r} carets {r['pos']}",
                            {"oracle": "O2", "text": s, "expected": "message quotes the caller's string, carets inside it", "observed": r})
        return r

    # O3
    def check_spaces(self, s, r, rng, n_variants=2):
        slots = redundant_space_slots(s)
        if not slots:
            return
        base = outcome_class(r)
        for _ in range(n_variants):
            k = rng.randint(1, 3)
            ins = sorted(rng.choice(slots) for _ in range(k))
            t = s
            for i in reversed(ins):
                t = t[:i] + " " + t[i:]
            self.ctx.count("space_variants")
            if outcome_class(real_parse(t)) != base and not self.full("O3"):
                def fails(x):
                    for i in redundant_space_slots(x):
                        if outcome_class(real_parse(x[:i] + " " + x[i:])) != outcome_class(real_parse(x)):
                            return True
                    return False
                small = shrink_string(s, fails) if fails(s) else s
                wit = next((small[:i] + " " + small[i:] for i in redundant_space_slots(small)
                            if outcome_class(real_parse(small[:i] + " " + small[i:])) != outcome_class(real_parse(small))), t)
                self.report("O3", f"parse_op({small!r}) vs parse_op({wit!r}) differ",
                            {"oracle": "O3", "text": small, "with_redundant_space": wit, "found_as": [s, t],
                             "a": outcome_class(real_parse(small)), "b": outcome_class(real_parse(wit))})

    # O4
    @staticmethod
    def roundtrip_fails(s):
        r = real_parse(s)
        if "ok" not in r:
            return False
        r2 = real_parse(r["str"])
        return "ok" not in r2 or canon(r2["ok"], positions=False) != canon(r["ok"], positions=False)

    def check_roundtrip(self, s, r):
        if "ok" not in r:
            return
        self.ctx.count("roundtrips")
        r2 = real_parse(r["str"])
        if ("ok" not in r2 or canon(r2["ok"], positions=False) != canon(r["ok"], positions=False)) and not self.full("O4"):
            small = shrink_string(s, self.roundtrip_fails)
            rs = real_parse(small)
            self.report("O4", f"str(parse_op({small!r})) = {rs['str']!r} does not parse back to the same tree",
                        {"oracle": "O4", "text": small, "printed": rs["str"], "found_as": s,
                         "reparse": {k: v for k, v in real_parse(rs["str"]).items() if k != "ok"}})

    # O5
    API = ["sum", "sort", "dot", "get_at", "argmax", "set_at", "id", "add"]

    @staticmethod
    def shape_of(x):
        s1 = _stage1()
        if isinstance(x, s1.Axis):
            return [2 if x.value is None else int(x.value)]
        if isinstance(x, s1.FlattenedAxis):
            return [int(np.prod(Oracles.shape_of(x.inner), dtype=np.int64))]
        if isinstance(x, s1.ConcatenatedAxis):
            return [sum(int(np.prod(Oracles.shape_of(c), dtype=np.int64)) for c in x.children)]
        if isinstance(x, s1.Brackets | s1.Ellipsis):
            return Oracles.shape_of(x.inner)
        if isinstance(x, s1.List):
            return [d for c in x.children for d in Oracles.shape_of(c)]
        return []

    @staticmethod
    def api_call(fn, desc):
        """Call einx.<fn>(desc, tensors of a rank derived from desc).  Returns the foreign text quoted by a SyntaxError, or None."""
        import einx
        try:
            op = _stage1().parse_op(desc)
        except Exception:  # noqa: BLE001 - whatever parse_op raises for the caller's own text is O1/O2's business
            return None
        tensors = []
        for a in op.children[0].children:
            shp = [min(int(d), 4) for d in Oracles.shape_of(a)][:6]
            tensors.append(np.zeros(shp, dtype="int64" if fn in ("get_at", "set_at") and tensors else "float64"))
        try:
            getattr(einx, fn)(desc, *tensors)
        except _syntax_error() as e:
            q = quoted_expression(str(e))
            if q != desc:
                return q if q is not None else "<no expression quoted>"
        except Exception:  # noqa: BLE001 - other error classes belong to C03
            return None
        return None

    def check_api(self, desc):
        for fn in self.API:
            self.ctx.count("api_calls")
            q = self.api_call(fn, desc)
            if q is not None and not self.full("O5"):
                small = shrink_string(desc, lambda x, fn=fn: self.api_call(fn, x) is not None)
                q2 = self.api_call(fn, small)
                self.report("O5", f"einx.{fn}({small!r}, …) raises SyntaxError quoting {q2!r}",
                            {"oracle": "O5", "call": f"einx.{fn}", "description": small, "found_as": desc, "quoted": q2,
                             "expected": "any SyntaxError quotes the caller's description"})

    @staticmethod
    def solve_call(desc, params):
        import einx
        try:
            n = len(_stage1().parse_op(desc).children[0].children)
        except Exception:  # noqa: BLE001
            return None
        try:
            einx.solve_axes(desc, *([None] * n), **params)
        except _syntax_error() as e:
            q = quoted_expression(str(e))
            carets = getattr(e, "pos", [])
            if q != desc and not (q == desc + " ->" and all(p < len(desc) for p in carets)):
                return q if q is not None else "<no expression quoted>"
        except Exception:  # noqa: BLE001
            return None
        return None

    def check_solve(self, desc, rng):
        s1 = _stage1()
        try:
            op = s1.parse_op(desc)
        except Exception:  # noqa: BLE001
            return
        names = sorted({n.name for n in op.nodes() if isinstance(n, s1.Axis) and n.value is None and re.fullmatch(r"[a-z]\w*", n.name)})
        if not names:
            return
        params = {n: rng.choice([-1, 2, 3, 0, -2, [2, -1]]) for n in rng.sample(names, rng.randint(1, len(names)))}
        self.ctx.count("solve_calls")
        q = self.solve_call(desc, params)
        if q is not None and not self.full("O5"):
            # shrink: one parameter (the first axis name of the description), the simplest bad value, then the description
            def first_name(x):
                m = re.search(r"[a-z]\w*", x)
                return m.group(0) if m else None

            def fails_with(val):
                return lambda x: first_name(x) is not None and self.solve_call(x, {first_name(x): val}) is not None

            vals = [v for v in [-1] + sorted({json.dumps(v) for v in params.values()}) if True]
            val = next((v if isinstance(v, int) else json.loads(v) for v in vals
                        if any(self.solve_call(desc, {n: (v if isinstance(v, int) else json.loads(v))}) is not None for n in names)), None)
            if val is None:
                small, p_small = desc, params
            else:
                n0 = next(n for n in names if self.solve_call(desc, {n: val}) is not None)
                # put the failing axis first so that `first_name` finds it, then shrink
                start = n0 + " " + desc if first_name(desc) != n0 and self.solve_call(n0 + " " + desc, {n0: val}) is not None else desc
                small = shrink_string(start, fails_with(val)) if fails_with(val)(start) else desc
                p_small = {first_name(small): val} if fails_with(val)(small) else {n0: val}
            params = p_small
            q = self.solve_call(small, params)
            ps = ", ".join(f"{k}={v}" for k, v in sorted(params.items()))
            self.report("O5", f"einx.solve_axes({small!r}, …, {ps}) raises SyntaxError quoting {q!r}",
                        {"oracle": "O5", "call": "einx.solve_axes", "description": small, "params": params, "found_as": desc, "quoted": q,
                         "expected": "a size error for a non-positive size; a SyntaxError may only quote the caller's description"})


# ------------------------------------------------------------------ run

def correspond(ctx, strings, entry, disagreements, label):
    """Compare the model with the real code on `strings`; returns the list of real results."""
    drv = ctx.driver()
    reals = [real_parse(s, entry) for s in strings]
    models = drv.ask_many([{"kind": "notation", "req": "parse", "entry": entry, "text": s} for s in strings])
    for s, r, m in zip(strings, reals, models):
        d = compare(r, m)
        if d is not None:
            disagreements.append((label, entry, s, d))
    return reals


def correspond_nf(ctx, strings, reals, disagreements, label):
    """Normal form / `parse_print_parse` stream: on every string the real parser accepts, the model's verdicts on the tree
    (`NRoot`: the normal form theorem `parse_normal_form`; `Excluded`; `Printable`: `parse_printable`) against the REAL
    round trip `parse_op(str(parse_op(s)))`: not Excluded  =>  the real round trip succeeds with the same tree shape
    (the prediction of the theorem `parse_print_parse`).  A tree excluded by one of the three patterns is expected NOT to
    round-trip on the real code (counted; a round trip that unexpectedly succeeds there is reported as a broken tie too,
    because the witnesses `excluded_*_necessary` would no longer describe the code)."""
    idx = [i for i, r in enumerate(reals) if "ok" in r]
    if not idx:
        return
    answers = ctx.driver().ask_many([{"kind": "notation_nf", "text": strings[i]} for i in idx])
    for i, m in zip(idx, answers):
        s, r = strings[i], reals[i]
        ctx.count("nf:cases")
        if not m.get("ok"):
            disagreements.append((label, "nf", s, "real parses, model (notation_nf) does not"))
            continue
        if m["str"] != r["str"]:
            disagreements.append((label, "nf", s, f"printed forms differ: real {r['str']!r} model {m['str']!r}"))
            continue
        if not m["nroot"]:
            disagreements.append((label, "nf", s, "the model's tree violates NRoot (theorem parse_normal_form)"))
        if not m["excluded"] and not m["printable"]:
            disagreements.append((label, "nf", s, "not Excluded but not Printable (theorem parse_printable)"))
        r2 = real_parse(r["str"])
        same = "ok" in r2 and canon(r2["ok"], positions=False) == canon(r["ok"], positions=False)
        bad = m["ellList"] or m["ellEll"] or m["flatConcat"]
        if not m["excluded"]:
            ctx.count("nf:not_excluded")
            if m["adjSpaces"]:
                ctx.count("nf:not_excluded_with_adjacent_spaces")
            if not same:
                disagreements.append((label, "nf", s, f"not Excluded, but the real round trip fails: str = {r['str']!r}, "
                                      f"reparse {json.dumps({k: v for k, v in r2.items() if k != 'ok'})[:160]}"))
        elif bad:
            ctx.count("nf:excluded_pattern")
            if same:
                ctx.count("nf:excluded_pattern_but_roundtrips")
                disagreements.append((label, "nf", s, f"tree contains an excluded pattern but the real round trip succeeds: {r['str']!r}"))
        else:
            disagreements.append((label, "nf", s, "Excluded without one of the three patterns"))


def run(ctx):
    rng = ctx.rng
    quick = ctx.quick
    orc = Oracles(ctx)
    ctx.extra["rule"] = (
        "correspondence cases: (i) every concatenation of at most L tokens from {a b 1 2 ( ) [ ] ... -> , + space |} (L = 4 quick, 5 thorough, "
        "6 without digits thorough [sampled]), (ii) random strings over notation tokens / printable ASCII / a few non-ASCII characters, (iii) grammar-generated "
        "(thorough: a uniform sample of 400 000 of the 12^6 six-token strings without digits instead of all of them) descriptions with nesting, ellipses, brackets, concatenations and nested '->' / ','; each compared with the Lean model on canonical tree with "
        "positions, printed form, error kind and caret positions (parse_op; samples also through parse_args/parse_arg). non-trivial = at least two tokens "
        "and the outcome is not the lexer's invalid-token error; distinct = distinct input string")
    ctx.assumptions.append("strings contain no lone surrogates and fewer than 4300 consecutive digits (CPython's int() digit limit is not modelled)")
    ctx.assumptions.append("str.isdigit/str.isdecimal tables are those of the Python that runs the check (extracted on every run)")

    disagreements = []
    n_random = 2000 if quick else 100000
    n_grammar = 1500 if quick else 40000

    if ctx.driver_ok:
        correspond_nf(ctx, NF_PROBES, [real_parse(s) for s in NF_PROBES], disagreements, "nf-probe")

    def batches():
        yield [("probe", s) for s in PROBES]
        buf = []
        for s in enum_strings(TOKENS, 4 if quick else 5):
            buf.append(("enum", s))
            if len(buf) >= 4000:
                yield buf
                buf = []
        if not quick:
            # length 6 without digits: 12^6 = 3.0e6 strings; a uniform sample of 400 000 keeps the tier inside its budget
            for _ in range(400000):
                buf.append(("enum6", "".join(rng.choice(TOKENS_NODIGIT) for _ in range(6))))
                if len(buf) >= 4000:
                    yield buf
                    buf = []
        for _ in range(n_random):
            buf.append(("random", random_string(rng)))
        for _ in range(n_grammar):
            buf.append(("grammar", gen_description(rng)))
        for k in range(0, len(buf), 4000):
            yield buf[k:k + 4000]

    seen_kinds = {}
    api_budget = 250 if quick else 4000
    api_done = 0
    for batch in batches():
        strings = [s for _, s in batch]
        if ctx.driver_ok:
            reals = correspond(ctx, strings, "op", disagreements, batch[0][0])
            correspond_nf(ctx, strings, reals, disagreements, batch[0][0])
        else:
            reals = [real_parse(s) for s in strings]
        for (label, s), r in zip(batch, reals):
            oc = outcome_class(r)
            key = oc[0] if oc[0] == "ok" else f"{oc[0]}:{oc[1]}"
            ctx.count(f"{'enum' if label.startswith('enum') else label}:{key}")
            ntok = len(lex_for_shrinking(s))
            ctx.case(s, nontrivial=ntok >= 2 and key != "syntax:invalidToken")
            if key not in seen_kinds and len(s) < 60:
                seen_kinds[key] = s
            orc.check_parse(s, r)
            # O3/O4 on everything that is cheap enough: all grammar/random/probe cases and a sample of the enumeration
            if label in ("random", "grammar", "probe") or rng.random() < (0.25 if quick else 0.05):
                orc.check_spaces(s, r, rng)
                orc.check_roundtrip(s, r)
        # parse_args / parse_arg on a sample
        if ctx.driver_ok:
            sample = [s for _, s in batch if rng.random() < 0.03]
            correspond(ctx, sample, "args", disagreements, "args")
            correspond(ctx, sample, "arg", disagreements, "arg")
        # print: model printer on the real tree (exercises `print` on trees the parser does not produce is done below)
        for (label, s), r in zip(batch, reals):
            if "ok" in r and label in ("grammar", "probe") and api_done < api_budget:
                api_done += 1
                orc.check_api(s)
                orc.check_solve(s, rng)
    # the model's printer on trees that are not parser outputs: el-op style trees (brackets removed)
    if ctx.driver_ok:
        check_printer_on_elop_trees(ctx, rng, disagreements, 300 if quick else 5000)

    for k, s in sorted(seen_kinds.items()):
        ctx.sample({"outcome": k, "example": s}, cap=40)
    ctx.extra["model_disagreements"] = len(disagreements)
    for label, entry, s, d in disagreements[:5]:
        tie = "correspondence:notation-normal-form" if entry == "nf" else f"correspondence:notation-model:{entry}"
        ctx.tie_broken(tie, f"{label} input {s!r}: {d}")
        ctx.sample({"DISAGREEMENT": True, "entry": entry, "text": s, "detail": d}, cap=60)


def check_printer_on_elop_trees(ctx, rng, disagreements, n):
    """`_to_el_expr` builds trees the parser never returns (an ellipsis directly over a list); compare `str` with the model's printer."""
    from einx._src.adapter.einx_from_namedtensor import _to_el_expr
    s1 = _stage1()
    drv = ctx.driver()
    reqs, want = [], []
    for _ in range(n):
        d = gen_description(rng)
        try:
            t = _to_el_expr(s1.parse_op(d))
        except Exception:  # noqa: BLE001
            continue
        reqs.append({"kind": "notation", "req": "print", "tree": tree_json_ids(t)})
        want.append((d, str(t)))
    for (d, w), m in zip(want, drv.ask_many(reqs)):
        ctx.count("printer_cases")
        if m["str"] != w:
            disagreements.append(("printer", "print", d, f"str(el tree) = {w!r}, model prints {m['str']!r}"))


def tree_json_ids(x):
    """tree_json with ellipsis ids reduced to small naturals (the driver reads them as Nat)."""
    j = canon(tree_json(x))
    return j


PROBES = [
    "a | a", "|", "[a b]...", "[......]...", "[a...]...", "[[a b]...]", "[[......]...]", "[[a...]...]", "a", "²", "a ²", "١ a", "a b, c -> (a + b) c", "[...] ...", "[[a]] a",
    "(a -> b) c, d", "(a , b) (c -> d)", "(a, b) (c, d, e)", "a -> b -> c", "(a + (b -> c))", "[] + a", "( [] + a)", "a ( -> b", "a...", "a ...",
    "......", "(a b)...", "((a + b))", "((a + b) + c)", "((a + b) -> c)", "((a + b), c)", "[a, b] c", "a [b [c]] d", "01 1", "",
]

# Probes of the normal-form stream only (no search oracle runs on them: some are further inputs of the known findings D11/D18,
# e.g. D18 through the bracket pass, and must not add new violation signatures).
NF_PROBES = [
    "[([(a + b)])]", "a [1]", "a, -> b", "[a [1]] 1", "(a, -> b)", "[[a] (b -> c)...]", "[[a b] -> c]...", "a, , b", "b ......",
    "[[a b]...]", "[[a...]...]", "((a + b) -> c)", "[(a -> b)...]", "([a] -> [b])... c", "[[1]...] (2 + a)", "[a, b] [c]",
    "a [b [c]] d, (e -> f)", "(a [b] -> c) [d]", "[[a] -> b]", "([a b] , c)...",
]


def replay(ctx, path):
    with open(path) as f:
        doc = json.load(f)
    r = doc["replay"]
    print(json.dumps(r, indent=1, default=str)[:3000])
    o = r.get("oracle")
    still = None
    if o == "O1":
        res = real_parse(r["text"])
        still = res.get("error") == "other"
        print("now:", {k: v for k, v in res.items() if k != "ok"})
    elif o == "O2":
        res = real_parse(r["text"])
        still = res.get("error") == "syntax" and (res["quoted"] != r["text"] or any(not (0 <= p < len(r["text"])) for p in res["pos"]))
    elif o == "O3":
        still = outcome_class(real_parse(r["text"])) != outcome_class(real_parse(r["with_redundant_space"]))
    elif o == "O4":
        still = Oracles.roundtrip_fails(r["text"])
    elif o == "O5" and r["call"] == "einx.solve_axes":
        still = Oracles.solve_call(r["description"], r["params"]) is not None
    elif o == "O5":
        still = Oracles.api_call(r["call"].split(".")[1], r["description"]) is not None
    if still is None:
        print("replay: nothing to re-run for this record")
        return 0
    print("replay: the real code", "still fails" if still else "no longer fails", "on this input")
    return 1 if still else 0
