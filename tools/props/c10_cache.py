"""C10, clause "trigger first-time compilation concurrently": the compiled-function cache under real threads.

Model: lean/EinxModel/Cache/Concurrent.lean (micro steps lookup / miss / compute / insert of `functools.cache`),
theorems in Props/C10Cache.lean (`cache_concurrent_serializable`, `cache_final_content`, ...).
Tie (T-src): Extracted/Cacheconc.lean (tools/extract/cacheconc.py).
Tie (T-beh): the deterministic scheduler of c10.py drives 2-3 real threads through
  (L1) `einx._src.util.lru_cache.lru_cache(fn)` for an instrumented `fn` (which logs every run and hands out a fresh
       token, so that it is visible *whose* value a call returned and which value stayed in the cache), requested with
       equal-but-not-identical renderings of the same key, different keys and a raising key;
  (L2) real einx operations whose (description, shapes) have never been seen before - first-time compilations of the
       same and of different signatures, plus a description that fails to parse;
with preemption exactly at the cache's own events: call / return of `func_frozen` (the call enters / leaves the cache) and
call / return of `func_unfrozen` (the wrapped function starts / has finished).  Between two such events a thread performs
exactly one micro step of the model; the observed sequence of (thread, step kind) is replayed in the model
(`cache_sched`), which must reproduce every hit / miss decision, every result (token), the final cache content
(probed serially afterwards), and `cache_info()`.  For the smallest programs all schedules are enumerated and the set of
observed outcomes must equal the set the model reaches over all interleavings (`cache_explore`).
Search / ORACLE (independent of Lean): every call returns what it returns in a serial execution of the same calls on a
fresh cache (value for its key, or the same exception class; for einx calls: the numpy reference value), and the final
cache holds exactly the distinct successfully computed keys.
"""
import itertools
import json
import os
import random

import numpy as np

from lib import core
from props import c10 as C

CACHE_EVENTS = {("func_frozen", "call"), ("func_frozen", "return"), ("func_unfrozen", "call"), ("func_unfrozen", "return")}


def _wrapper_roles():
    """{actual name of the wrapper in util/lru_cache.py: the role name used in this file}.  The two wrappers are found by
    structure - the nested function that `_freeze_args` / `_unfreeze_scalar_args` returns - not by their spelling, so that
    renaming `func_frozen` / `func_unfrozen` in einx does not derail the scheduler (work package "robust")."""
    import ast
    roles = {}
    try:
        with open(os.path.join(core.REPO, "einx/_src/util/lru_cache.py")) as f:
            tree = ast.parse(f.read())
        for outer, role in (("_freeze_args", "func_frozen"), ("_unfreeze_scalar_args", "func_unfrozen")):
            fn = next((n for n in tree.body if isinstance(n, ast.FunctionDef) and n.name == outer), None)
            if fn is None:
                continue
            inner = [n.name for n in fn.body if isinstance(n, ast.FunctionDef)]
            returned = [n.value.id for n in fn.body if isinstance(n, ast.Return) and isinstance(n.value, ast.Name)]
            hit = [n for n in inner if n in returned]
            if len(hit) == 1:
                roles[hit[0]] = role
    except (OSError, SyntaxError):
        pass
    for role in ("func_frozen", "func_unfrozen"):
        if role not in roles.values():
            roles[role] = role          # not recognised: the historical spelling
    return roles


ROLE = _wrapper_roles()


def _role(name):
    return ROLE.get(name, name if name not in ("func_frozen", "func_unfrozen") else "?" + name)


def cache_points(frame, event):
    return (_role(frame.f_code.co_name), event) in CACHE_EVENTS


class Logged:
    """Policy wrapper: records where the thread that ran a step stopped."""

    def __init__(self, inner):
        self.inner = inner
        self.last = None
        self.log = []

    def _note(self, s):
        if self.last is not None:
            w = s.workers[self.last]
            self.log.append((self.last, w.pos[2], _role(w.pos[3].split(".")[-1])))

    def __call__(self, s, en):
        self._note(s)
        self.last = self.inner(s, en)
        return self.last

    def finish(self, s):
        self._note(s)
        self.last = None


def classify(log, raised_at):
    """[(thread, kind)] for the model-relevant steps.  `raised_at[t]` = per thread, the list of booleans 'the n-th run of the
    wrapped function by this thread raised'.  A step is classified by where it started and where it stopped, so the
    return event of `func_frozen` may or may not be a preemption point."""
    prev = {}
    ncomp = {}
    last_raised = {}
    out = []
    for t, ev, fn in log:
        p = prev.get(t)
        kind = None
        if (fn, ev) == ("func_unfrozen", "call"):
            kind = "miss"
        elif (fn, ev) == ("func_unfrozen", "return"):
            n = ncomp.get(t, 0)
            ncomp[t] = n + 1
            r = raised_at[t][n] if n < len(raised_at[t]) else None
            if r is None:
                raise core.MachineryError("cache scheduler: a return of func_unfrozen without a logged run of the wrapped function")
            last_raised[t] = r
            kind = "raise" if r else "compute"
        elif (fn, ev) in (("func_frozen", "return"), ("func_frozen", "call")) or ev == "end":
            if p == ("func_frozen", "call"):
                kind = "hit"                # went through the cache without running the wrapped function
            elif p == ("func_unfrozen", "return"):
                kind = None if last_raised.get(t) else "insert"
            elif p == ("func_unfrozen", "call"):
                raise core.MachineryError("cache scheduler: the wrapped function was left without a return event")
        else:
            # any other line / call / return of util/lru_cache.py (fine-grained runs): no access to the shared dictionary
            continue
        prev[t] = (fn, ev)
        if kind is not None:
            out.append((t, kind))
    return out


COARSE_EVENTS = CACHE_EVENTS - {("func_frozen", "return")}


def coarse_cache_points(frame, event):
    """Without the return of `func_frozen`: insert-and-leave is one step (leaving touches nothing shared)."""
    return (_role(frame.f_code.co_name), event) in COARSE_EVENTS


# ===================================================================================================== L1: the wrapper
def canon(x):
    """Canonical rendering (with type names, mappings sorted) of what the wrapped function receives."""
    import frozendict
    if isinstance(x, (tuple, list)):
        return "(" + ",".join(canon(e) for e in x) + ")"
    if isinstance(x, (dict, frozendict.frozendict)):
        return "{" + ",".join(f"{k}:{canon(v)}" for k, v in sorted(x.items())) + "}"
    return f"{type(x).__module__}.{type(x).__qualname__}:{x!r}"


# abstract keys: equal-but-not-identical renderings of one cache key; key 4 raises
KEYS = [
    {"renderings": [(["k0", 2], {"c": [1, 2]}), (["k0", 2], {"c": (1, 2)}), (("k0", 2), {"c": np.array([1, 2])})], "raises": False},
    {"renderings": [(["k0", 2.0], {"c": [1, 2]}), (["k0", 2.0], {"c": np.array([1, 2])})], "raises": False},          # 2.0, not 2: another key
    {"renderings": [(["k2"], {"n": 1, "m": True}), (["k2"], {"m": True, "n": 1})], "raises": False},
    {"renderings": [(["k3", np.int64(2)], {}), (("k3", np.int64(2)), {})], "raises": False},
    {"renderings": [(["bad"], {"c": 1}), (("bad",), {"c": 1})], "raises": True},
]


class Wrapped:
    """A fresh `lru_cache`d instrumented function."""

    def __init__(self):
        from einx._src.util.lru_cache import lru_cache, _freeze_value, _unfreeze_scalars
        self.key_of = {}
        for n, k in enumerate(KEYS):
            sigs = {canon((_unfreeze_scalars(_freeze_value(a)), _unfreeze_scalars(_freeze_value(kw)))) for a, kw in k["renderings"]}
            if len(sigs) != 1:
                raise core.MachineryError(f"renderings of key {n} are not one key after freezing: {sorted(sigs)}")
            self.key_of[next(iter(sigs))] = n
        if len(self.key_of) != len(KEYS):
            raise core.MachineryError("two abstract keys freeze to the same value")
        self.runs = []          # (thread or None, key, raised) in the order the wrapped function ran
        self.current = lambda: None

        def fn(args, kwargs):
            n = self.key_of.get(canon((tuple(args), kwargs)))
            if n is None:
                raise core.MachineryError(f"wrapped function received an unknown key {canon((tuple(args), kwargs))}")
            tok = len(self.runs)
            self.runs.append((self.current(), n, KEYS[n]["raises"]))
            if KEYS[n]["raises"]:
                raise ValueError(f"key {n}")
            return ("val", n, tok)
        self.cached = lru_cache(fn)
        self.memo = getattr(self.cached, "__wrapped__", None)
        if self.memo is None or not hasattr(self.memo, "cache_info"):
            self.memo = None      # not a functools cache object: reported as a broken tie by the caller, the oracle still applies

    def call(self, key, rendering):
        a, kw = KEYS[key]["renderings"][rendering % len(KEYS[key]["renderings"])]
        try:
            return ["ok", list(self.cached(args=a, kwargs=dict(kw)))]
        except core.MachineryError:
            raise
        except Exception as e:
            return ["raised", type(e).__name__]


def run_l1(progs, policy, points=cache_points):
    """progs: per thread [(key, rendering)].  Returns (observation, choices, step kinds)."""
    import einx._src.util.lru_cache as L
    w = Wrapped()
    sched = C.Scheduler([L.__file__], point_filter=points)
    w.current = lambda: (sched.current().idx if sched.current() is not None else None)
    outs = [[] for _ in progs]

    def body(t):
        def fn():
            for key, r in progs[t]:
                outs[t].append(w.call(key, r))
        return fn
    for t in range(len(progs)):
        sched.add(body(t))
    pol = Logged(policy)
    choices = sched.run(pol)
    pol.finish(sched)
    for wk in sched.workers:
        if wk.error is not None:
            if isinstance(wk.error, core.MachineryError):
                raise wk.error
            raise core.MachineryError(f"cache worker {wk.idx} died: {wk.error!r}")
    if sched.deadlock:
        raise core.MachineryError("cache scheduler reports a deadlock although the cache has no lock")
    raised_at = [[r for (t, _, r) in w.runs if t == i] for i in range(len(progs))]
    kinds = classify(pol.log, raised_at)
    info = w.memo.cache_info() if w.memo is not None else None
    obs = {"outs": outs, "runs": [[t, k] for t, k, _ in w.runs], "hits": info.hits if info else None, "misses": info.misses if info else None,
           "currsize": info.currsize if info else None}
    # what stayed in the cache: probe every requested key serially (a hit returns the stored value, a miss shows it is absent)
    before = len(w.runs)
    stored = {}
    for key in sorted({k for p in progs for k, _ in p}):
        r = w.call(key, 0)
        stored[key] = r if len(w.runs) == before else None
        before = len(w.runs)
    obs["stored"] = stored
    return obs, choices, kinds


def model_req(progs, kind, mode, **kw):
    keys = sorted({k for p in progs for k, _ in p})
    return {"kind": kind, "progs": [[k for k, _ in p] for p in progs], "mode": mode,
            "f": [[k, {"raised": "ValueError"} if KEYS[k]["raises"] else {"ok": 100 + k}] for k in keys], **kw}


def compare_l1(ctx, progs, obs, kinds):
    """The model run under the observed step order must reproduce everything observable."""
    r = ctx.driver().ask(model_req(progs, "cache_sched", "token", schedule=[t for t, _ in kinds]))
    ctx.count("cache:model_sched_requests")
    msteps = [(t, k) for t, k, _ in r["steps"]]
    if msteps != [(t, k) for t, k in kinds]:
        return f"step kinds differ: real {kinds} vs model {msteps}"
    conf = r["conf"]
    if not conf["finished"]:
        return "the model has not finished under the observed steps"
    # tokens: the n-th run of the wrapped function (real) = the n-th compute/raise step (model, identified by its clock)
    clocks = [n for _, k, n in r["steps"] if k in ("compute", "raise")]
    tok = {n: i for i, n in enumerate(clocks)}
    keys_of_run = [k for _, k in obs["runs"]]
    if [list(x) for x in conf["computes"]] != obs["runs"]:
        return f"runs of the wrapped function differ: real {obs['runs']} vs model {conf['computes']}"
    for t, (ro, mo) in enumerate(zip(obs["outs"], conf["outs"])):
        if len(ro) != len(mo):
            return f"thread {t}: {len(ro)} results vs {len(mo)} in the model"
        for j, (a, b) in enumerate(zip(ro, mo)):
            if a[0] == "raised":
                if b != {"raised": a[1]}:
                    return f"thread {t} call {j}: real raised {a[1]}, model {b}"
            else:
                if "ok" not in b or tok.get(b["ok"]) != a[1][2] or keys_of_run[a[1][2]] != a[1][1]:
                    return f"thread {t} call {j}: real value of run #{a[1][2]}, model value of run #{tok.get(b.get('ok'))}"
    mstored = {k: tok[v] for k, v in conf["cache"]}
    rstored = {k: v[1][2] for k, v in obs["stored"].items() if v is not None and v[0] == "ok"}
    if mstored != rstored:
        return f"stored values differ: real {rstored} vs model {mstored} (run numbers per key)"
    mh = sum(1 for _, k in kinds if k == "hit")
    mm = sum(1 for _, k in kinds if k == "miss")
    if obs["currsize"] is None:
        return "lru_cache(fn).__wrapped__ is not a functools cache object (no cache_info)"
    if (obs["hits"], obs["misses"], obs["currsize"]) != (mh, mm, len(conf["cache"])):
        return f"cache_info differs: real hits/misses/currsize {(obs['hits'], obs['misses'], obs['currsize'])} vs model {(mh, mm, len(conf['cache']))}"
    return None


def abstract_outcome(progs, obs):
    """Token-free observable outcome, in the form of `cache_explore`."""
    outs = [[{"raised": o[1]} if o[0] == "raised" else {"ok": 100 + o[1][1]} for o in l] for l in obs["outs"]]
    cache = sorted([k, 100 + k] for k, v in obs["stored"].items() if v is not None and v[0] == "ok")
    comps = sorted([k, t] for t, k in obs["runs"])
    return json.dumps({"cache": cache, "computes": comps, "finished": True, "outs": outs}, sort_keys=True, separators=(",", ":"))


def oracle_l1(progs, obs):
    """Independent of the model: serial reference on a fresh cache."""
    w = Wrapped()
    for t, p in enumerate(progs):
        ser = [w.call(k, r) for k, r in p]
        for j, (a, b) in enumerate(zip(obs["outs"][t], ser)):
            same = a[0] == b[0] and (a[1] == b[1] if a[0] == "raised" else a[1][:2] == b[1][:2])
            if not same:
                return f"thread {t} call {j} (key {p[j][0]}): concurrent result {a} differs from the serial result {b}"
        if len(obs["outs"][t]) != len(p):
            return f"thread {t} finished {len(obs['outs'][t])} of {len(p)} calls"
    want = sorted({k for p in progs for k, _ in p if not KEYS[k]["raises"]})
    have = sorted(k for k, v in obs["stored"].items() if v is not None)
    if want != have or (obs["currsize"] is not None and obs["currsize"] != len(want)):
        return f"final cache holds keys {have} (currsize {obs['currsize']}), a serial execution leaves {want}"
    for k, v in obs["stored"].items():
        if v is not None and (v[0] != "ok" or v[1][1] != k):
            return f"the value stored for key {k} is {v}"
    return None


def gen_progs(rng, nthreads, max_calls):
    pool = rng.sample(range(len(KEYS)), rng.randint(1, 3))
    return [[(rng.choice(pool), rng.randrange(3)) for _ in range(rng.randint(1, max_calls))] for _ in range(nthreads)]


POINTS = {"cache": cache_points, "coarse": coarse_cache_points, "fine": None}


def points_name(points):
    return next(k for k, v in POINTS.items() if v is points)


def report_l1(ctx, progs, choices, obs, why, points=cache_points):
    # fewer context switches: drop segments while it still fails
    best = choices
    budget = 60
    improved = True
    while improved and budget > 0:
        improved = False
        segs = C.rle(best)
        for i in range(len(segs) - 1, -1, -1):
            budget -= 1
            o2, act, _ = run_l1(progs, C.from_list(C.unrle(segs[:i] + segs[i + 1:])), points)
            if oracle_l1(progs, o2) is not None and len(C.rle(act)) < len(C.rle(best)):
                best, obs, improved = act, o2, True
                break
            if budget <= 0:
                break
    why = oracle_l1(progs, obs) or why
    sig = "cache-schedule:" + core.digest([progs, C.sched_str(best)])
    ctx.violation(sig, {"kind": "cache: " + why, "cache_case": {"level": "wrapper", "programs": progs, "points": points_name(points)}, "schedule": best,
                        "schedule_rle": C.sched_str(best), "observed": obs,
                        "how_to_read": "threads A,B,.. call one `einx._src.util.lru_cache.lru_cache`d function with the listed (key, rendering) requests; "
                                       "steps = call/return events of func_frozen / func_unfrozen in util/lru_cache.py; remaining steps: lowest enabled thread first"})


def exhaustive_l1(ctx, progs, cap, points=cache_points):
    """All schedules at the cache's events.  Returns (set of abstract outcomes, #runs, complete?)."""
    stack = [[]]
    seen = set()
    runs = 0
    while stack and runs < cap:
        prefix = stack.pop()
        en_log = []

        def pol(s, en, it=iter(prefix)):
            en_log.append(list(en))
            for c in it:
                if c not in en:
                    raise core.MachineryError("cache exhaustive: replayed prefix is not enabled (non-deterministic run)")
                return c
            return en[0]
        obs, choices, kinds = run_l1(progs, pol, points)
        runs += 1
        ctx.case(["cache-l1-exhaustive", progs, choices], nontrivial=len(C.rle(choices)) >= 3)
        ctx.count("cache:family:exhaustive")
        bad = oracle_l1(progs, obs)
        if bad is not None:
            report_l1(ctx, progs, choices, obs, bad, points)
            return seen, runs, False
        seen.add(abstract_outcome(progs, obs))
        for k in range(len(prefix), len(choices)):
            for alt in en_log[k]:
                if alt != choices[k]:
                    stack.append(choices[:k] + [alt])
    return seen, runs, not stack


# ===================================================================================================== L2: real einx operations
def find_caches(fn, depth=0, seen=None):
    seen = set() if seen is None else seen
    out = []
    if id(fn) in seen or depth > 6:
        return out
    seen.add(id(fn))
    if hasattr(fn, "cache_info"):
        out.append(fn)
    for c in (getattr(fn, "__closure__", None) or []):
        try:
            v = c.cell_contents
        except ValueError:
            continue
        if callable(v):
            out += find_caches(v, depth + 1, seen)
    w = getattr(fn, "__wrapped__", None)
    if w is not None:
        out += find_caches(w, depth + 1, seen)
    return out


def e2e_calls(tag):
    """name -> (callable, reference value | exception class name, op name)."""
    import einx
    x = np.arange(24, dtype=np.int64).reshape(2, 3, 4)
    y = np.arange(12, dtype=np.int64).reshape(3, 4) + 1
    t = tag
    return {
        "sum1": (lambda: einx.sum(f"a{t} [b{t}] c{t}", x), x.sum(axis=1), "sum"),
        "sum2": (lambda: einx.sum(f"u{t} [v{t}]", y), y.sum(axis=1), "sum"),
        "id1": (lambda: einx.id(f"p{t} q{t} -> q{t} p{t}", y), y.T, "id"),
        "dot1": (lambda: einx.dot(f"i{t} j{t}, k{t} j{t} -> i{t} k{t}", y, y), y @ y.T, "dot"),
        "bad1": (lambda: einx.id(f"p{t} q{t} -> (q{t}", y), None, "id"),
        "sum1f": (lambda: einx.sum(f"a{t} [b{t}] c{t}", x.astype("float64")), x.sum(axis=1).astype("float64"), "sum"),   # same key as sum1: only shapes reach the key
    }


E2E_KEY = {"sum1": 0, "sum1f": 0, "sum2": 1, "id1": 2, "dot1": 3, "bad1": 4}
E2E_PROGRAMS = [
    [["sum1"], ["sum1"]],                       # the same signature, both first-time
    [["sum1"], ["sum1f"]],                      # the same key through different tensors
    [["sum1"], ["id1"]],                        # different signatures, different caches
    [["sum1", "sum2"], ["sum2", "sum1"]],       # crossing
    [["bad1"], ["bad1", "id1"]],                # a failing compilation is not stored
    [["sum1", "dot1"], ["sum1"], ["dot1"]],
]


def run_l2(names, tag, policy):
    import einx
    import einx._src.util.lru_cache as L
    import einx._src.frontend.api as A
    calls = e2e_calls(tag)
    ops = sorted({calls[n][2] for p in names for n in p})
    caches = {}
    for op in ops:
        cs = find_caches(getattr(einx, op))
        caches[op] = cs[0] if len(cs) == 1 else None      # None: reported as a broken tie by compare_l2
    Z = type("Z", (), {"hits": 0, "misses": 0, "currsize": 0})
    info_of = lambda op: caches[op].cache_info() if caches[op] is not None else Z   # noqa: E731
    before = {op: info_of(op) for op in ops}
    sched = C.Scheduler([L.__file__], point_filter=cache_points)
    outs = [[] for _ in names]
    runs = []                       # (thread, key, raised) per run of _construct_graph, via the events of func_unfrozen
    cur_key = {}

    def body(t):
        def fn():
            for n in names[t]:
                f, want, _ = calls[n]
                cur_key[t] = n
                try:
                    got = f()
                    ok = isinstance(want, np.ndarray) and isinstance(got, np.ndarray) and got.shape == want.shape and got.dtype.kind == want.dtype.kind \
                        and bool(np.array_equal(got, want) if want.dtype.kind != "f" else np.allclose(got, want))
                    outs[t].append(["ok", "value" if ok else f"WRONG {np.asarray(got).tolist()!r}"])
                except Exception as e:
                    cause = e
                    while cause.__cause__ is not None:
                        cause = cause.__cause__
                    outs[t].append(["raised", type(cause).__name__])
        return fn
    for t in range(len(names)):
        sched.add(body(t))
    pol = Logged(policy)
    choices = sched.run(pol)
    pol.finish(sched)
    for wk in sched.workers:
        if wk.error is not None:
            raise core.MachineryError(f"cache e2e worker {wk.idx} died: {wk.error!r}")
    if sched.deadlock:
        raise core.MachineryError("cache e2e: deadlock (a preemption point inside the registry lock?)")
    # which runs of the wrapped function raised: a call that ended in an exception and reached func_unfrozen
    raised_at = [[] for _ in names]
    pos = [0] * len(names)
    per_thread_calls = [[] for _ in names]
    for t, ev, fn in pol.log:
        if (fn, ev) == ("func_frozen", "call"):
            per_thread_calls[t].append({"computed": False})
        elif (fn, ev) == ("func_unfrozen", "call"):
            per_thread_calls[t][-1]["computed"] = True
    for t in range(len(names)):
        if len(per_thread_calls[t]) != len(names[t]):
            raise core.MachineryError(f"cache e2e: thread {t} entered the cache {len(per_thread_calls[t])} times for {len(names[t])} calls")
        for j, cinfo in enumerate(per_thread_calls[t]):
            if cinfo["computed"]:
                raised_at[t].append(outs[t][j][0] == "raised")
    kinds = classify(pol.log, raised_at)
    after = {op: info_of(op) for op in ops}
    delta = {op: [after[op].hits - before[op].hits, after[op].misses - before[op].misses, after[op].currsize - before[op].currsize] for op in ops
             if caches[op] is not None}
    return {"outs": outs, "delta": delta, "no_cache_object": [op for op in ops if caches[op] is None]}, choices, kinds


def compare_l2(ctx, names, obs, kinds):
    calls = e2e_calls("")
    progs = [[(E2E_KEY[n], 0) for n in p] for p in names]
    keys = sorted({k for p in progs for k, _ in p})
    req = {"kind": "cache_sched", "progs": [[k for k, _ in p] for p in progs], "mode": "det", "schedule": [t for t, _ in kinds],
           "f": [[k, {"raised": serial_reference("bad1", "ref")[1]} if k == 4 else {"ok": 100 + k}] for k in keys]}
    r = ctx.driver().ask(req)
    ctx.count("cache:model_sched_requests")
    msteps = [(t, k) for t, k, _ in r["steps"]]
    if msteps != list(kinds):
        return f"step kinds differ: real {kinds} vs model {msteps}"
    conf = r["conf"]
    if not conf["finished"]:
        return "the model has not finished under the observed steps"
    for t, (ro, mo) in enumerate(zip(obs["outs"], conf["outs"])):
        want = [["raised", o["raised"]] if "raised" in o else ["ok", "value"] for o in mo]
        if ro != want:
            return f"thread {t}: real results {ro} vs model {want}"
    op_of = {E2E_KEY[n]: calls[n][2] for n in E2E_KEY}
    if obs.get("no_cache_object"):
        return f"no single functools cache object behind einx.{obs['no_cache_object'][0]}"
    for op, (h, m, cs) in obs["delta"].items():
        mh = sum(1 for (t, k), key in zip(kinds, step_keys(progs, kinds)) if k == "hit" and op_of[key] == op)
        mm = sum(1 for (t, k), key in zip(kinds, step_keys(progs, kinds)) if k == "miss" and op_of[key] == op)
        mc = sum(1 for k, _ in conf["cache"] if op_of[k] == op)
        if (h, m, cs) != (mh, mm, mc):
            return f"einx.{op}: cache_info delta hits/misses/currsize {(h, m, cs)} vs model {(mh, mm, mc)}"
    return None


def step_keys(progs, kinds):
    """The key of the call each model step belongs to."""
    pos = [0] * len(progs)
    out = []
    for t, k in kinds:
        out.append(progs[t][pos[t]][0])
        if k in ("hit", "insert", "raise"):
            pos[t] += 1
    return out


_serial_memo = {}


def serial_reference(name, tag):
    """What the call gives when run alone on never-seen axis names: ["ok", "value"] (equal to the numpy reference) or
    ["raised", class of the root cause]."""
    if name not in _serial_memo:
        f, want, _ = e2e_calls(tag)[name]
        try:
            got = f()
            ok = isinstance(got, np.ndarray) and got.shape == want.shape and got.dtype.kind == want.dtype.kind \
                and bool(np.array_equal(got, want) if want.dtype.kind != "f" else np.allclose(got, want))
            _serial_memo[name] = ["ok", "value" if ok else f"WRONG {np.asarray(got).tolist()!r}"]
        except Exception as e:
            cause = e
            while cause.__cause__ is not None:
                cause = cause.__cause__
            _serial_memo[name] = ["raised", type(cause).__name__]
        if _serial_memo[name][0] == "ok" and _serial_memo[name][1] != "value":
            raise core.MachineryError(f"cache e2e: {name} run alone does not give the numpy reference value")
    return _serial_memo[name]


def oracle_l2(names, obs, tag):
    calls = e2e_calls("")
    ops = {}
    for t, p in enumerate(names):
        if len(obs["outs"][t]) != len(p):
            return f"thread {t} finished {len(obs['outs'][t])} of {len(p)} calls"
        for j, n in enumerate(p):
            exp = serial_reference(n, tag + "s")
            if obs["outs"][t][j] != exp:
                return f"thread {t} call {j} ({n}): {obs['outs'][t][j]} instead of {exp} (what the call gives when run alone)"
            if exp[0] == "ok":
                ops.setdefault(calls[n][2], set()).add(E2E_KEY[n])
    for op, (h, m, cs) in obs["delta"].items():
        if cs != len(ops.get(op, ())):
            return f"einx.{op}: {cs} new cache entries for {len(ops.get(op, ()))} distinct new signatures"
    return None


# ===================================================================================================== run
def run(ctx):
    rng = ctx.rng
    quick = ctx.quick
    broken = bool(ctx.broken)
    import time
    t0 = time.time()
    ctx.extra["rule"] = ctx.extra.get("rule", "") + (
        " || cache (c10_cache.py): 2-3 threads request keys of one `lru_cache`d instrumented function (5 abstract keys with equal-but-not-identical "
        "renderings, one raising) or call real einx operations for the first time (same / different signatures, a description that fails to parse); "
        "preemption at call/return of func_frozen / func_unfrozen; families: exhaustive (all schedules of the smallest programs), random, e2e")
    found = 0
    model = ctx.driver_ok

    def one(progs, policy, family, points=cache_points):
        nonlocal found
        obs, choices, kinds = run_l1(progs, policy, points)
        ctx.case(["cache-l1", progs, choices], nontrivial=len(C.rle(choices)) >= 3)
        ctx.count("cache:family:" + family)
        if sum(1 for _, k in kinds if k in ("compute", "raise")) > len({k for p in progs for k, _ in p}):
            ctx.count("cache:runs_with_duplicate_computation")
        bad = oracle_l1(progs, obs)
        if bad is not None:
            found += 1
            report_l1(ctx, progs, choices, obs, bad, points)
            return
        if model:
            d = compare_l1(ctx, progs, obs, kinds)
            if d is not None:
                ctx.tie_broken("correspondence:cache-sched-model", f"programs {progs} schedule {C.sched_str(choices)}: {d}")

    # (i) exhaustive: two threads, one call each, same key / different keys / raising key; the set of outcomes must be the model's
    tiny = [[[(0, 0)], [(0, 1)]], [[(0, 0)], [(1, 0)]], [[(4, 0)], [(4, 1)]]]
    if not quick or broken:
        tiny += [[[(0, 0), (2, 0)], [(0, 2)]], [[(0, 0)], [(0, 1)], [(0, 2)]]]
    ex_info = []
    for progs in tiny:
        if found:
            break
        seen, runs, complete = exhaustive_l1(ctx, progs, 400 if quick else 4000, coarse_cache_points if quick else cache_points)
        ex_info.append({"programs": progs, "runs": runs, "complete": complete, "outcomes": len(seen)})
        if model and complete:
            r = ctx.driver().ask(model_req(progs, "cache_explore", "det"))
            mset = {json.dumps(json.loads(s), sort_keys=True, separators=(",", ":")) for s in r["outcomes"]}
            if mset != seen:
                ctx.tie_broken("correspondence:cache-explore-model",
                               f"programs {progs}: outcomes over all real schedules {sorted(seen)} vs over all model interleavings {sorted(mset)}")
    ctx.extra["cache_exhaustive"] = ex_info
    # (ii) random programs and schedules
    n_rand = (80 if quick else 1500) * (3 if broken else 1)
    for _ in range(n_rand):
        if found >= 2:
            break
        progs = gen_progs(rng, rng.choice([2, 2, 3]), 3)
        p = rng.choice([0.1, 0.3, 0.5, 0.8])
        if rng.random() < 0.4:
            # every line / call / return of util/lru_cache.py is a preemption point (also inside the freezing of the arguments and
            # inside `_Scalar.__eq__` / `__hash__` while the dictionary compares keys)
            one(progs, C.random_policy(random.Random(rng.getrandbits(32)), rng.choice([0.05, 0.2, 0.5])), "random-fine", None)
        else:
            one(progs, C.random_policy(random.Random(rng.getrandbits(32)), p), "random")
    ctx.extra.setdefault("phase_s", {})["cache-wrapper"] = round(time.time() - t0, 1)
    # (iii) real einx operations, first-time compilations
    n_e2e = (10 if quick else 80) * (2 if broken else 1)
    for i in range(n_e2e):
        if found >= 2:
            break
        names = E2E_PROGRAMS[i % len(E2E_PROGRAMS)]
        tag = f"c{ctx.seed}x{i}"
        if i < len(E2E_PROGRAMS):
            # both threads up to their lookup before anybody computes: everybody misses
            k = i

            def pol(s, en, state={"n": 0}):
                state["n"] += 1
                order = list(range(len(names))) * 2
                if state["n"] <= len(order) and order[state["n"] - 1] in en:
                    return order[state["n"] - 1]
                return en[0]
            policy = pol
        else:
            policy = C.random_policy(random.Random(rng.getrandbits(32)), rng.choice([0.3, 0.6]))
        obs, choices, kinds = run_l2(names, tag, policy)
        ctx.case(["cache-e2e", names, choices], nontrivial=len(C.rle(choices)) >= 3)
        ctx.count("cache:family:e2e")
        if sum(1 for _, k in kinds if k in ("compute", "raise")) > len({E2E_KEY[n] for p in names for n in p}):
            ctx.count("cache:e2e_runs_with_duplicate_compilation")
        bad = oracle_l2(names, obs, tag)
        if bad is not None:
            found += 1
            sig = "cache-e2e-schedule:" + core.digest([names, C.sched_str(choices)])
            ctx.violation(sig, {"kind": "cache: " + bad, "cache_case": {"level": "einx", "programs": names, "tag": tag}, "schedule": choices,
                                "schedule_rle": C.sched_str(choices), "observed": obs,
                                "how_to_read": "threads call the named einx operations (c10_cache.e2e_calls) with never-seen axis names; steps = call/return events of "
                                               "func_frozen / func_unfrozen in util/lru_cache.py"})
            continue
        if model:
            d = compare_l2(ctx, names, obs, kinds)
            if d is not None:
                ctx.tie_broken("correspondence:cache-sched-model-e2e", f"programs {names} schedule {C.sched_str(choices)}: {d}")
    ctx.extra["phase_s"]["cache-e2e"] = round(time.time() - t0, 1)
    ctx.extra["cache_violations_found"] = found


def replay(ctx, r):
    case = r["cache_case"]
    if case["level"] == "wrapper":
        progs = [[tuple(c) for c in p] for p in case["programs"]]
        obs, actual, _ = run_l1(progs, C.from_list(r["schedule"]), POINTS[case.get("points", "cache")])
        bad = oracle_l1(progs, obs)
    else:
        obs, actual, _ = run_l2(case["programs"], case["tag"] + "r", C.from_list(r["schedule"]))
        bad = oracle_l2(case["programs"], obs, case["tag"] + "r")
    print("programs:", json.dumps(case["programs"]))
    print("replayed schedule:", C.sched_str(actual))
    print("observed:", json.dumps(obs, default=str)[:1500])
    print("REPRODUCED: " + bad if bad else "not reproduced: every call returned its serial result")
    return 1 if bad else 0
