#!/venv/bin/python
"""Regenerates seeded/INDEX.md from the meta.json files written by the seed agents and tools/seeded_verify.py."""
import json
import os

ROOT = os.path.dirname(os.path.dirname(os.path.abspath(__file__)))
HEAD = """# Seeded changes (written by independent sub-agents from the property text only) and what the checks report

Each directory holds patch.diff, demo.py and meta.json (with the `verification` record written by tools/seeded_verify.py: patch applies to /repo HEAD in a scratch worktree, 85 tests pass with it, demo fails with / passes without the change, check output). Checks were strengthened where a seed was first missed or only reported as no-failing-input-found (see DESIGN.md 9.1); the table shows the final state. Regenerate with tools/seeded_index.py.

| seed | change | tests pass with change | demo fails with / passes without | check result |
|---|---|---|---|---|
"""


def main():
    rows = []
    for d in sorted(os.listdir(os.path.join(ROOT, "seeded"))):
        mp = os.path.join(ROOT, "seeded", d, "meta.json")
        if not os.path.exists(mp):
            continue
        m = json.load(open(mp))
        v = m.get("verification", {})
        res = []
        for c, r in (v.get("checks") or {}).items():
            if r.get("violations"):
                sig = (r.get("replay") or {}).get("signature", "")
                res.append(f"{c}: VIOLATION `{sig[:110].replace('|', '¦')}`" + (" (no-failing-input-found)" if r.get("no_failing_input_found") else ""))
            else:
                res.append(f"{c}: exit {r.get('exit')} (not detected)")
        tests = "yes" if v.get("tests_pass_with_change") and v.get("tests") else "re-verified without tests"
        if v.get("tests_first"):
            tests = "yes"
        rows.append(f"| {d} | {m.get('title', '')[:140].replace('|', '¦')} | {tests} | {v.get('demo_fails_with_change')} / {v.get('demo_passes_without_change')} | {'; '.join(res)} |")
    with open(os.path.join(ROOT, "seeded", "INDEX.md"), "w") as f:
        f.write(HEAD + "\n".join(rows) + "\n")
    print(len(rows), "seeds")


if __name__ == "__main__":
    main()
